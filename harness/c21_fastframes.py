"""C21 - fast-group frames only write outputs computed in the same pass.

Three parts.

Kernel side (thin): runs the dispatcher explorer of harness/c22_dispatcher.py
(same state space, same real bytecode) and reports the C21 invariant set:
re-activation touches exactly the writer command bytes, zeroes exactly their
working counters, counts exactly the mismatching ones (returned counters:
expected, expected-1, 0 and wrong values that equal the expected one in their
low 8 / 15 bits), all only in a pass that ran the group program with output
enabled; nothing is returned to the bus with an enabled writer unless the
group program processed it in that pass.  Every distinct step with output
disabled (start-up, just registered) or without a registered program is also
fed the frame with its write datagrams ENABLED - the activated frame of an
earlier group in the same slot, still on the wire - with counters as
expected, all 0, one wrong, all wrong: nothing may be counted, re-enabled or
cleared in such a pass (wkc_errors is also the output enable: one counted
error would switch output on), and the frame leaves the bus or goes back with
its writers disabled.  Reading of the last sentence of the statement (see
res.assumptions): "processed in that pass" = the group's program ran with
output enabled, so that the outputs in the frame were computed in that pass;
disabling write datagrams is allowed in any pass.  On the unchanged tree the
program of a group with output disabled returns such a frame as it came,
still enabled (known finding C21-activated-frame-adopted-by-disabled-group,
attributed only to exactly that shape).  The same explorations also
run with the loop counter word above 255 when the dispatcher turns out to
depend on its upper bits (see c22_dispatcher).

Life cycle (harness/c22_dispatcher.py, `Life`): the real FastSyncGroup.run
and FastEtherCat.register_sync_group with frames really passing the real
dispatcher and group bytecode, under losses, time-outs, cancellation and
running=False; the same invariants on every pass - including the passes
between a stop request and the unregistration of the program - and "frames
leave user space sterile" on every frame handed to the transport.

User-space side: the real ``FastSyncGroup.run`` / ``SyncGroupBase.run`` /
``update_devices`` / ``EtherCat.roundtrip_packet`` / ``sendloop`` run on the
virtual loop for the same group layouts.  For every cyclic frame the master
sends, the explorer decides what the dispatcher hands back to user space:
the frame as the group program left it (odd loop counter, write datagrams
enabled, outputs set - what really reaches user space every other pass), the
frame untouched (even counter, still sterile), or nothing within the response
time (the time-out path resends).  Oracle: every cyclic frame handed to the
transport has all its write datagrams disabled (command NOP), parsed
independently.  All answer sequences up to the cycle bound are enumerated.
"""
import asyncio
import contextlib
import logging
import struct

from mc import bpfvm, core, ecparse, explore, fastsim, vloop
from harness import c22_dispatcher as _x

from ebpfcat.ebpfcat import SimpleEtherCat

PROP = "C21"
LEVEL = _x.LEVEL
RULE = _x.RULE + ("; C21 judges every distinct dispatcher+group step of that "
                  "space (frame before/after, wkc_errors, device run marker), "
                  "including the steps fed an enabled frame while output is "
                  "disabled or no program is registered; "
                  "user-space side: all sequences of {processed frame, "
                  "untouched frame, no answer in time} over the cycle bound "
                  "for every layout, every frame given to the transport "
                  "judged")

WRITE_CMDS = (2, 3, 5, 6, 8, 9, 11, 12)
ANSWERS = ("processed", "untouched", "late")


class Transport:
    def __init__(self):
        self.frames = []
        self.inflight = []

    def sendto(self, data, addr=None):
        data = bytes(data)
        self.frames.append(data)
        self.inflight.append(data)


class Ec(SimpleEtherCat):
    """the real EtherCat; only the registration of the group's program in
    the dispatcher's table (bpf system calls) is replaced"""
    group_index = 5

    @contextlib.contextmanager
    def register_sync_group(self, sg):
        yield self.group_index


async def _nothing(*a, **kw):
    return None


@contextlib.asynccontextmanager
async def _no_fmmu(*a, **kw):
    yield 0


def execute(ch, layout, cycles):
    fastsim.reset_globals()
    kernel = bpfvm.Kernel()
    g = _x.build_group(layout, kernel, execute.seam)
    sg = g.sg
    index = _x.GROUP_INDEX[layout]
    loop = vloop.VLoop()
    obs = dict(frames=[], answers=[], error=None)
    import ebpfcat.ebpfcat as _E
    saved_monotonic = _E.monotonic
    _E.monotonic = loop.time        # the cycle time is measured virtually
    with loop:
        ec = Ec("sim")
        ec.group_index = index
        ec.ethertype = _x.ETHERTYPE
        ec.send_queue = asyncio.Queue()
        tp = ec.transport = Transport()
        sendtask = asyncio.ensure_future(ec.sendloop())
        sg.ec = ec
        for t in sg.terminals:
            # the state machine and the FMMU set-up are C14's and C20's
            t.to_operational = _nothing
            t.set_state = _nothing
            t.map_fmmu = _no_fmmu
        task = asyncio.ensure_future(sg.run())
        counter = [1]
        try:
            steps = 0
            while len(obs["answers"]) < cycles and not task.done() \
                    and steps < 200:
                steps += 1
                loop.run_until_idle()
                if task.done():
                    break
                if not tp.inflight:
                    if not loop.advance():
                        break
                    continue
                frame = tp.inflight.pop(0)
                a = ANSWERS[ch.choose(3, "answer")]
                obs["answers"].append(a)
                if a == "late":
                    # nothing comes back: the response time passes
                    if not loop.advance():
                        break
                    continue
                back = bytearray(fastsim.ETH_HEADER + frame)
                if a == "processed":
                    back[_x.INDEX0] = counter[0] | 1
                    counter[0] = (counter[0] + 2) & 0xff
                    g.set_wkc_errors(1)
                    vm = bpfvm.VM(kernel, g.insns, back)
                    vm.run()
                else:
                    back[_x.INDEX0] = (counter[0] + 1) & 0xfe
                loop.call_soon(ec.datagram_received,
                               bytes(back[fastsim.ETH:]), None)
            loop.run_until_idle()
            if task.done() and not task.cancelled() and task.exception():
                obs["error"] = repr(task.exception())[:200]
        finally:
            _E.monotonic = saved_monotonic
            task.cancel()
            sendtask.cancel()
            loop.run_until_idle()
            loop.shutdown()
    obs["frames"] = list(tp.frames)
    obs["index"] = index
    obs["processed_seen"] = "processed" in obs["answers"]
    return obs


execute.seam = False


def judge(layout, ch, obs, res):
    case = dict(part="user-space", layout=layout, choices=list(ch.choices),
                answers=obs["answers"])
    if obs["error"]:
        res.violation(case, "the sync group keeps running", obs["error"],
                      sig=core.digest(["us-error"]),
                      note="user space: sync group task ended")
        return
    for n, f in enumerate(obs["frames"]):
        try:
            _, dgs = ecparse.parse(f)
        except ecparse.ParseError as e:
            res.violation(case, "a well-formed frame", str(e),
                          sig=core.digest(["us-parse"]),
                          note="user space: malformed frame sent")
            return
        if struct.unpack_from("<i", f, 4)[0] != obs["index"]:
            continue
        live = [d.cmd for d in dgs[1:] if d.cmd in WRITE_CMDS]
        if live:
            res.violation(
                dict(case, frame=n), "all write datagrams disabled (NOP) in "
                "a frame leaving user space", dict(enabled_commands=live,
                                                   frame=f.hex()[:80]),
                sig=core.digest(["us-enabled"]),
                note="user space: frame left with enabled write datagrams")
            return


def work(item, res):
    layout, cycles = item
    logging.disable(logging.WARNING)    # time-outs are part of the alphabet

    def on_exec(ch, obs):
        res.count("evaluations")
        res.count("userspace_executions")
        res.count("userspace_frames", len(obs["frames"]))
        res.count("transitions", len(ch.trace))
        if obs["processed_seen"] and len(obs["frames"]) >= 3:
            res.nontrivial.add(core.digest(["us", layout, ch.choices]))
        res.outcomes.add(("us", tuple(obs["answers"])[:3],
                          len(obs["frames"])))
        judge(layout, ch, obs, res)
    explore.dfs(lambda ch: execute(ch, layout, cycles), 99, on_exec)
    a = execute(explore.Chooser((0, 2, 0)), layout, cycles)
    b = execute(explore.Chooser((0, 2, 0)), layout, cycles)
    if a != b:
        raise core.Internal("user-space half: non-deterministic execution")


def run(ctx):
    res = _x.run_for(ctx, PROP)
    layouts = _x.QUICK_LAYOUTS if ctx.quick else \
        [l for l in _x.LAYOUTS if l != "w0r0"]
    cycles = 6 if ctx.quick else 8
    try:
        _x.build_group(layouts[0], bpfvm.Kernel(), False)
        execute.seam = False
    except Exception:
        execute.seam = True
    r2 = core.pmap(ctx, work, [(l, cycles) for l in layouts], chunk=1)
    res.merge(r2)
    res.cov["userspace_cycles"] = cycles
    res.cov["traces_validated_against_impl"] = \
        res.cov.get("traces_validated_against_impl", 0) + \
        r2.cov.get("userspace_executions", 0)
    res.assumptions += [
        "user-space side: what the dispatcher hands up is either the frame "
        "the group program just processed (generated by running the real "
        "group bytecode on the frame that was sent) or the sent frame "
        "untouched; terminal state changes and FMMU set-up are replaced by "
        "no-ops (C14, C20), the registration in the dispatcher's program "
        "table by a fixed index"]
    return res


def replay(ctx, rep):
    c = rep["case"]
    if c.get("part") != "user-space":
        return _x.replay_for(ctx, rep, PROP)
    res = core.Result()
    ch = explore.Chooser(tuple(c["choices"]))
    obs = execute(ch, c["layout"], len(c["choices"]))
    print("answers", obs["answers"], "frames", len(obs["frames"]),
          "error", obs["error"])
    for f in obs["frames"]:
        _, dgs = ecparse.parse(f)
        print("  ", [d.cmd for d in dgs])
    judge(c["layout"], ch, obs, res)
    return res.violations
