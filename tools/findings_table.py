#!/usr/bin/env python3
"""print known_findings.jsonl as a markdown table (for DESIGN.md section 9)"""
import json, os
HERE = os.path.dirname(os.path.dirname(os.path.abspath(__file__)))
rows = [json.loads(l) for l in open(os.path.join(HERE, "known_findings.jsonl"))
        if l.strip()]
rows.sort(key=lambda r: (r["property"], r["status"] != "known", r["id"]))
print("| Property | Id | Status | What fails |")
print("|---|---|---|---|")
for r in rows:
    what = r["what"]
    if what.startswith("fixed:"):
        what = what.split(" ", 3)[3] if len(what.split(" ", 3)) > 3 else what
    st = "known finding" if r["status"] == "known" else \
        f"fixed in {r.get('commit', '?')}"
    print(f"| {r['property']} | `{r['id']}` | {st} | {what[:260]} |")
