# table of claimed checks; exec'd by gen_manifest.py
HOOK_COMMITS = []
NOT_APPLICABLE = {}
NOTES = ("All checks are bounded exhaustive explorations driving the real "
         "ebpfcat code (or the bytecode it generated); see DESIGN.md. "
         "Exit codes: 0 held, 1 VIOLATION, 2 INTERNAL (harness problem). "
         "known_findings.jsonl lists genuine defects kept as findings.")

check("C11", "explore",
      "exhaustive enumeration of datagram sequences, independent frame parser",
      "Every datagram sequence over the stated alphabet (all 15 commands, 7 "
      "address shapes, data lengths 0..1473 at depth 1; 40-54 datagram kinds "
      "at depth 2-4 including exactly-fitting and just-too-large datagrams; "
      "13-17 datagram count-limit sequences) is fed to the real "
      "Packet/SterilePacket and the assembled bytes are parsed and compared "
      "with an independent serialiser. Exhaustive within the alphabet.",
      "Trusted: mc/ecparse.py (independent parser), struct. Count limit "
      "taken as 15 user datagrams as in the code.")

check("C01", "bpfvm",
      "bounded exhaustive program x operand enumeration, independent eBPF "
      "interpreter + kernel differential, big-integer reference",
      "All expression trees over the stated leaf/operator/destination "
      "alphabet (depth 1 complete; depth 2 on representative leaves; "
      "register chains of depth 3-6 that exhaust the allocator) are compiled "
      "by the real DSL; the assembled bytes run in an independent eBPF "
      "interpreter on every operand vector from a boundary alphabet and the "
      "stored value is compared with exact big-integer arithmetic under the "
      "statement's precondition (strictest reading). Every 5th/7th program "
      "is also run by the real kernel and must agree with the interpreter.",
      "Trusted: mc/bpfvm.py (bound to the kernel by the differential runs), "
      "the oracle in harness/c01_intexpr.py. Operand values come from a "
      "boundary alphabet plus seeded values, not all 2^64.")

check("C27", "explore",
      "explicit-state BFS over event histories on the real Valve, reference model",
      "All histories of <= 5 (quick) / 6 (thorough) events after reset() "
      "(target changes, the 4 switch readings, clock advances around the "
      "moving time, update()) for 16 configurations (moving time x safeState "
      "x bit layout x initial coil) drive the real Valve.update on a real "
      "SyncGroup frame with a virtual monotonic clock; states are rebuilt by "
      "replay and deduplicated on (observables, switches, collapsed elapsed "
      "time, model state); every update is judged by a reference model "
      "written from the statement.",
      "Trusted: the reference model's reading of 'switches confirm the "
      "position the coil commands' (documented in the harness); "
      "ebpfcat.devices.monotonic is the only clock.")
check("C28", "explore",
      "exhaustive enumeration of terminal handshake behaviours on the real "
      "Serial.update with real pipes",
      "Three script families (transmit exhaustive: <= 3 application writes "
      "with lengths {1,21,22,23,45}, all accept-latency patterns with k = 2; "
      "receive exhaustive: <= 3 announcements, all 24 initialisation "
      "behaviours; both directions simultaneously) run the real "
      "Serial.update once per cycle against an independent EL6002 handshake "
      "model; byte streams, toggle counts and out_string stability are "
      "checked every cycle.",
      "Trusted: the harness's EL6002 terminal model (written from the "
      "PacketDescs and the Beckhoff handshake description).")
check("C29", "explore",
      "exhaustive enumeration of device-variable declarations; real spawned "
      "child processes",
      "All device classes with 1-3 DeviceVars over 10 formats x instance "
      "patterns (370 configurations quick, 2009 thorough) are put on a real "
      "ProcessSyncGroup; storage ownership is measured black-box (probe "
      "writes), every format round-trips boundary values in-process and "
      "between the parent and really spawned children (pickled the way "
      "ProcessSyncGroup.start does).",
      "start()/subprocess_run are not executed (need SCHED_RR and a NIC): "
      "the child runs harness code around the real descriptors.")

check("C12", "vloop+explore",
      "stateless deviation-bounded DFS (CHESS-style) over the real send/receive "
      "machinery on a virtual asyncio loop",
      "The real EtherCat.sendloop / process_packet / roundtrip_packet / "
      "roundtrip / datagram_received run on a virtual event loop against a "
      "fake transport. For each workload (1-3 requests with payload sizes "
      "{2,700,1400,1472,1473}, submitted up front or later, cancellation "
      "allowed or not; 17 tiny requests for the count limit) every execution "
      "with at most 2 (quick) / 3 (thorough, <= 2 requests) deviations from "
      "the default environment is enumerated: early/late submission, "
      "cancellation at any iteration boundary, frame loss, duplication, "
      "overtaking, working counter 0 per datagram, colliding frame index. "
      "Frames on the wire are parsed independently; every request's outcome "
      "must be the one its own datagram determines; a busy loop is detected "
      "deterministically (more than 64 tasks/frames within one iteration).",
      "Schedules are those asyncio can produce (FIFO callbacks, external "
      "events between iterations). A fresh frame index is never a previously "
      "used one (10^9 range); index collisions with in-flight frames are "
      "explored.")

check("C13", "vloop",
      "exhaustive enumeration of argument lists through the real roundtrip "
      "stack, independent struct reference",
      "Every argument list of <= 3 format groups (7-9 formats incl. padding "
      "and multi-value formats, each with values, the last optionally "
      "read-only) x raw data in {None, 0, 3, b'', 1, 3, 40 bytes} x 2 "
      "commands is sent through the real EtherCat.roundtrip / sendloop / "
      "process_packet on the virtual loop; the payload found on the wire by "
      "the independent frame parser and the returned value are compared with "
      "a little-endian struct reference.",
      "Default environment only (one frame, echoing position-coded bytes); "
      "timing is C12's business.")
check("C14", "vloop+bussim+explore",
      "exhaustive enumeration of terminal behaviours, reference automaton "
      "over the observed register traffic",
      "For every start state (INIT, PRE-OP, SAFE-OP, OP) x error flag x "
      "target, the real Terminal.to_operational/get_state run through the "
      "real roundtrip stack on the virtual loop against the ESC model; the "
      "explorer decides at every AL status poll whether the pending "
      "transition stays (<= k polls, k=2 quick / 3 thorough), is reached or "
      "fails (at most one error); ALL such behaviours are enumerated and "
      "the sequence of AL control writes / AL status reads and the outcome "
      "are judged by a reference automaton written from the statement.",
      "The terminal model never reports a state that was not requested; "
      "BOOTSTRAP is excluded as the statement says.")
