"""A virtual asyncio event loop for exhaustive exploration.

* time is virtual; nothing blocks; there is no selector;
* callbacks run FIFO exactly as asyncio guarantees (`run_once` = one iteration
  of BaseEventLoop._run_once: due timers are moved to the ready queue, then
  exactly the handles that were ready at that moment run);
* everything external (frame arrival, fd readiness, cancellation or new
  requests by the test driver) is injected by the harness *between*
  iterations — that is where the explorer has its choice points.

Stock Task / Future / Queue / wait_for / gather / TaskGroup / sleep work.
"""
import asyncio
import gc
import heapq
from asyncio import events


class VLoop(asyncio.BaseEventLoop):
    def __init__(self):
        super().__init__()
        self._vtime = 1000.0
        self.errors = []          # contexts passed to the exception handler
        self.readers = {}
        self.set_exception_handler(self._collect)
        self.iterations = 0

    @staticmethod
    def _collect(loop, context):
        loop.errors.append(context)

    def time(self):
        return self._vtime

    # selector related API that must not be reached
    def _process_events(self, event_list):  # pragma: no cover
        pass

    def _write_to_self(self):
        pass

    def add_reader(self, fd, callback, *args):
        self.readers[fd] = (callback, args)

    def remove_reader(self, fd):
        return self.readers.pop(fd, None) is not None

    def fire_reader(self, fd):
        cb, args = self.readers[fd]
        self.call_soon(cb, *args)

    # ------------------------------------------------------------ driving
    def __enter__(self):
        self._old = events._get_running_loop()
        events._set_running_loop(self)
        asyncio.set_event_loop(self)
        return self

    def __exit__(self, *exc):
        events._set_running_loop(self._old)
        asyncio.set_event_loop(None)
        return False

    def has_ready(self):
        """is there anything an iteration would run right now (ready handles
        or timers that are due)?"""
        if any(not h._cancelled for h in self._ready):
            return True
        t = self.next_timer()
        return t is not None and t < self._vtime + self._clock_resolution

    def next_timer(self):
        while self._scheduled and self._scheduled[0]._cancelled:
            h = heapq.heappop(self._scheduled)
            h._scheduled = False
        return self._scheduled[0]._when if self._scheduled else None

    def run_once(self):
        """one loop iteration; returns number of handles run"""
        end = self._vtime + self._clock_resolution
        while self._scheduled:
            h = self._scheduled[0]
            if h._cancelled:
                heapq.heappop(self._scheduled)
                h._scheduled = False
                continue
            if h._when >= end:
                break
            heapq.heappop(self._scheduled)
            h._scheduled = False
            self._ready.append(h)
        n = len(self._ready)
        ran = 0
        for _ in range(n):
            h = self._ready.popleft()
            if h._cancelled:
                continue
            h._run()
            ran += 1
        self.iterations += 1
        return ran

    def advance(self):
        """jump to the next timer; False if there is none"""
        t = self.next_timer()
        if t is None:
            return False
        if t > self._vtime:
            self._vtime = t
        return True

    def run_until_idle(self, max_iterations=100000):
        """run iterations while handles are ready (no time jump)"""
        n = 0
        while self.has_ready():
            self.run_once()
            n += 1
            if n > max_iterations:
                raise RuntimeError("loop does not become idle")
        return n

    def settle(self, max_iterations=100000):
        """run until nothing is ready and no timer is left"""
        n = 0
        while True:
            n += self.run_until_idle(max_iterations)
            if not self.advance():
                return n
            if n > max_iterations:
                raise RuntimeError("loop does not settle")

    def collect_garbage_errors(self):
        """'exception was never retrieved' reports appear when futures die"""
        gc.collect()
        return self.errors

    def shutdown(self):
        """cancel whatever is left so that no warnings leak between runs"""
        for t in list(asyncio.all_tasks(self)):
            t.cancel()
        try:
            for _ in range(50):
                if not self.has_ready():
                    break
                self.run_once()
        except Exception:
            pass
        self._ready.clear()
        self._scheduled.clear()
