"""C30 - slow sync groups exchange process data and check working counters.

The real SyncGroup.start / run / update_devices (incl. map_fmmu and the state
changes) run on the virtual loop over the bus model.  For each cyclic frame
the explorer chooses the input pattern the terminals present, the returned
working counter of every datagram (expected / expected+1 / expected-1 / 0) and whether the
frame comes back late (timeout path).  A recording device observes what the
devices see and sets scripted outputs.
"""
import asyncio
import logging
import struct

from mc import bussim, core, ecparse, ecworld, explore

from ebpfcat.ebpfcat import SyncGroup, SyncManager

PROP = "C30"
LEVEL = "model_checking"
RULE = ("terminal sets giving 1-3 cyclic datagrams (FMMU in, FMMU out, "
        "direct), alone or after a group of another layout was laid out in "
        "the same process, x all executions over CYCLES cycles: input pattern per cycle "
        "(3 choices, free) and, within the deviation bound, a wrong working "
        "counter per datagram per cycle (expected+1, expected-1 or 0) or a late frame; "
        "non-trivial = at least two device updates ran; distinct = distinct "
        "(configuration, choices)")

IN, OUT = SyncManager.IN, SyncManager.OUT
PATTERNS = [bytes([0x11, 0x22, 0x33, 0x44, 0x55, 0x66, 0x77, 0x88]),
            b"\xff" * 8, bytes(8)]
CONFIGS = {
    "fmmu-in": [(4, 0, True, False)],
    "fmmu-inout": [(4, 6, True, True)],
    "direct-inout": [(4, 6, False, True)],
    "fmmu-inout+direct-in": [(4, 6, True, True), (2, 0, False, False)],
    "two-fmmu-inout": [(4, 6, True, True), (2, 2, True, True)],
    "fmmu-inout-readonly+direct-out": [(4, 6, True, False),
                                       (0, 4, False, True)],
}
CYCLES = 3


class LogCounter(logging.Handler):
    def __init__(self):
        super().__init__()
        self.processed = 0

    def emit(self, record):
        if "processed %i times" in str(record.msg):
            self.processed += 1


def predecessor(cname):
    """another sync group of this process, laid out (allocate()) before
    the group under test exists: nothing of it may leak into the new one"""
    w = ecworld.World()
    try:
        links = []
        for i, (isz, osz, fmmu, rw) in enumerate(CONFIGS[cname]):
            t = w.add_terminal(isz, osz, use_fmmu=fmmu)
            if isz >= 2:
                links.append((f"in{i}", t, IN, isz - 2, "H"))
            if osz >= 2 and rw:
                links.append((f"out{i}", t, OUT, osz - 2, "H"))
        dev = ecworld.recorder_class([l[0] for l in links])(links)
        SyncGroup(w.ec, [dev]).allocate()
    finally:
        w.close()


def execute(ch, cname):
    restarted = cname.endswith(" restarted")
    if restarted:
        cname = cname[:-len(" restarted")]
    if " after " in cname:
        cname, before = cname.split(" after ")
        predecessor(before)
    conf = CONFIGS[cname]
    w = ecworld.World()
    handler = LogCounter()
    root = logging.getLogger()
    oldlevel = root.level
    root.addHandler(handler)
    root.setLevel(logging.WARNING)
    obs = dict(updates=[], sent=[], delivered=[], done=None, error=None)
    try:
        terms = []
        links = []
        for i, (isz, osz, fmmu, rw) in enumerate(conf):
            t = w.add_terminal(isz, osz, use_fmmu=fmmu)
            terms.append(t)
            if isz >= 2:
                links.append((f"in{i}", t, IN, isz - 2, "H"))
            if osz >= 2 and rw:
                links.append((f"out{i}", t, OUT, osz - 2, "H"))
            if not rw and isz == 0:
                raise core.Internal("bad configuration")
        cls = ecworld.recorder_class([l[0] for l in links])
        dev = cls(links)
        dev.script = lambda n: {l[0]: (0x1000 * n + 0x101 * (k + 1)) & 0xffff
                                for k, l in enumerate(links) if l[2] is OUT}
        sg = SyncGroup(w.ec, [dev])
        orig_update = sg.update_devices

        def update_devices(data):
            before = sg.wkc_errors
            warned = handler.processed
            ret = orig_update(data)
            obs["updates"].append(dict(
                consumed=bytes(data), seen=dict(dev.seen[-1]),
                outputs=dev.script(len(dev.seen)),
                delta=sg.wkc_errors - before,
                warned=handler.processed - warned))
            return ret
        sg.update_devices = update_devices
        if restarted:
            # the same group object ran before: two cycles, then it was
            # stopped (running = False) and is started again
            task0 = sg.start()
            for _ in range(400):
                w.loop.run_until_idle()
                if task0.done():
                    break
                if len(obs["updates"]) >= 2:
                    sg.running = False
                if w.master.transport.inflight:
                    w.master.deliver(0)
                elif not w.loop.advance():
                    break
            if not task0.done() or task0.exception():
                raise core.Internal("the first run of the group did not end "
                                    "by itself: %r" % (task0,))
            del sg.running
            obs["updates"].clear()
            dev.seen.clear()
        task = sg.start()
        index = sg.packet_index

        def cyclic(frame):
            return struct.unpack_from("<i", frame, 4)[0] == index

        entries = []        # one per cyclic frame handed to the transport
        real_sendto = w.master.transport.sendto

        def sendto(data, addr=None):
            data = bytes(data)
            if cyclic(data):
                # the frame passes the terminals right after it is sent:
                # inputs are latched and outputs applied now; only its way
                # back may be slow
                npat = execute.npatterns
                pat = PATTERNS[ch.choose(npat, "inputs", [0] * npat)]
                for t in terms:
                    n = t.pdo_in_sz
                    t.model.mem[ecworld.IN_OFF:ecworld.IN_OFF + n] = pat[:n]
                _, sdgs = ecparse.parse(data)
                back = w.bus.process(data)
                _, bdgs = ecparse.parse(back)
                entries.append(dict(
                    sent=data, tag=len(obs["updates"]), pattern=pat,
                    back=back, sent_wkc=[d.wkc for d in sdgs[1:]],
                    natural=[d.wkc for d in bdgs[1:]],
                    outmem=[bytes(t.model.mem[ecworld.OUT_OFF:
                                              ecworld.OUT_OFF + t.pdo_out_sz])
                            for t in terms]))
            real_sendto(data, addr)
        w.master.transport.sendto = sendto

        def on_idle(master):
            tp = master.transport
            if not tp.inflight or not cyclic(tp.inflight[0]):
                return False
            late = ch.choose(2, "late")
            if late and w.loop.next_timer() is not None:
                w.loop.advance()        # the wait_for timeout fires first
                return True
            tp.inflight.pop(0)
            e = entries[len(obs["delivered"])]
            back = bytearray(e["back"])
            _, dgs = ecparse.parse(bytes(back))
            counters = []
            for d, nat, pre in zip(dgs[1:], e["natural"], e["sent_wkc"]):
                c = ch.choose(4, "wkc")
                v = [nat, nat + 1, nat - 1 if nat else 2,
                     0 if nat > 1 else 3][c]
                struct.pack_into("<H", back, d.wkc_pos, v)
                # number of terminals that processed it = increment on the bus
                counters.append((nat - pre, v))
            obs["delivered"].append(dict(e, back=bytes(back),
                                         counters=counters))
            master.frames += 1
            w.loop.call_soon(w.ec.datagram_received, bytes(back), None)
            return True
        steps = 0
        outs = [l for l in links if l[2] is OUT]
        obs["late_sets"] = []
        while len(obs["updates"]) < CYCLES and not task.done() and steps < 400:
            steps += 1
            w.loop.run_until_idle()
            if task.done() or len(obs["updates"]) >= CYCLES:
                break
            if on_idle(w.master):
                continue
            if w.master.transport.inflight:
                w.master.deliver(0)
            else:
                # the pause between two cycles: somebody sets an output of
                # the device from outside update() (a set point, a command)
                n = len(obs["updates"])
                if outs and n and not obs["late_sets"] and \
                        not w.master.transport.inflight and \
                        ch.choose(2, "late-set"):
                    name = outs[0][0]
                    value = 0x7e00 + n
                    setattr(dev, name, value)
                    obs["late_sets"].append((n, name, value, len(entries)))
                if not w.loop.advance():
                    break
        # the frame following the last update
        for _ in range(50):
            w.loop.run_until_idle()
            if any(e["tag"] >= CYCLES for e in entries) or task.done():
                break
            if w.master.transport.inflight and \
                    not cyclic(w.master.transport.inflight[0]):
                w.master.deliver(0)
            elif not w.loop.advance():
                break
        obs["sent"] = entries
        obs["done"] = task.done()
        if task.done() and not task.cancelled() and task.exception():
            obs["error"] = repr(task.exception())
        obs["expected_counts"] = sorted(sg.packet.counters.items())
        obs["links"] = [(l[0], terms.index(l[1]), l[2] is OUT, l[3])
                        for l in links]
        obs["rw"] = [c[3] for c in conf]
    finally:
        root.removeHandler(handler)
        root.setLevel(oldlevel)
        w.close()
    return obs


execute.npatterns = 3


def judge(cname, ch, obs, res):
    case = dict(config=cname, choices=list(ch.choices))

    def bad(exp, seen, what):
        res.violation(case, exp, seen, sig=core.digest([what]), note=what)
    if obs["error"] or obs["done"]:
        bad("sync group keeps running", obs["error"] or "task ended",
            "sync group task ended")
        return
    if len(obs["updates"]) < CYCLES:
        bad(f"{CYCLES} cycles", len(obs["updates"]), "cycles did not happen")
        return
    delivered = {d["back"]: d for d in obs["delivered"]}
    for n, u in enumerate(obs["updates"], start=1):
        d = delivered.get(u["consumed"])
        if d is None:
            bad("a response the bus returned", u["consumed"].hex()[:60],
                "devices updated from data that is not a bus response")
            return
        # (a) devices see the inputs of the response they are updated from,
        #     and that is the latest one delivered
        for name, ti, is_out, pos in obs["links"]:
            if is_out:
                continue
            exp = struct.unpack_from("<H", d["pattern"], pos)[0]
            if u["seen"].get(name) != exp:
                bad({name: exp}, u["seen"], "device saw stale/wrong inputs")
        # (d) working-counter accounting from the second cycle on
        if n >= 2:
            # expected count = number of terminals that process the datagram
            # on the bus model (its working-counter increment)
            wrong = sum(1 for nat, v in d["counters"] if v != nat)
            if u["delta"] != wrong:
                bad(f"wkc_errors += {wrong}", f"+= {u['delta']}",
                    "working-counter errors miscounted")
    # (b) outputs set in update n are in the next frame, (c) counters cleared
    for n, u in enumerate(obs["updates"], start=1):
        nxt = [e for e in obs["sent"] if e["tag"] >= n]
        if not nxt:
            bad("a frame after update %d" % n, None, "no frame resent")
            continue
        e = nxt[0]
        for name, ti, is_out, pos in obs["links"]:
            if not is_out:
                continue
            exp = u["outputs"][name]
            for ln, lname, lvalue, _ in obs.get("late_sets", []):
                if ln == n and lname == name:
                    exp = lvalue    # set again after the update, see below
            got = struct.unpack_from("<H", e["outmem"][ti], pos)[0]
            if got != exp:
                bad({name: hex(exp)}, hex(got),
                    "outputs of this cycle not in the next frame")
        if any(e["sent_wkc"]):
            bad("all working counters 0 in a resent frame", e["sent_wkc"],
                "working counter not cleared before resending")
    # an output set between two cycles is in the first frame sent afterwards
    for n, name, value, nsent in obs.get("late_sets", []):
        later = obs["sent"][nsent:]
        if not later:
            continue
        ti, pos = [(l[1], l[3]) for l in obs["links"] if l[0] == name][0]
        got = struct.unpack_from("<H", later[0]["outmem"][ti], pos)[0]
        if got != value:
            bad({name: hex(value)}, hex(got),
                "output set between two cycles is not in the next frame")


def work(item, res):
    cname, bound, cap = item

    def on_exec(ch, obs):
        res.count("evaluations")
        res.count("transitions", len(ch.trace))
        if len(obs["updates"]) >= 2:
            res.nontrivial.add(core.digest([cname, ch.choices]))
        res.outcomes.add(tuple((u["delta"], tuple(sorted(u["seen"].items())))
                               for u in obs["updates"]))
        judge(cname, ch, obs, res)
    n, capped = explore.dfs(lambda ch: execute(ch, cname), bound, on_exec,
                            max_execs=cap)
    if capped:
        res.caps_hit.append(f"{cname}: capped at {n}")
    a = execute(explore.Chooser(()), cname)
    b = execute(explore.Chooser(()), cname)
    if core.digest(a) != core.digest(b):
        raise core.Internal("non-deterministic execution")


def run(ctx):
    bound = 2 if ctx.quick else 3
    # quick: two of the three input patterns per cycle (non-zero first)
    execute.npatterns = 2 if ctx.quick else 3
    items = [(c, bound, 60000 if ctx.quick else 600000) for c in CONFIGS]
    # the same groups when another group of a different layout was laid
    # out in this process before (one deviation less: the history is one)
    names = list(CONFIGS)
    for c in names:
        # the same group object stopped and started again
        items.append((c + " restarted", bound - 1,
                      60000 if ctx.quick else 600000))
    for i, c in enumerate(names):
        for k in (1, 3) if ctx.quick else range(1, len(names)):
            items.append((f"{c} after {names[(i + k) % len(names)]}",
                          bound - 1, 60000 if ctx.quick else 600000))
    res = core.pmap(ctx, work, items, chunk=1)
    res.cov["states"] = len(res.nontrivial)
    res.cov["traces_validated_against_impl"] = res.cov.get("evaluations", 0)
    res.cov["bound_completed"] = bound
    res.cov["cycles"] = CYCLES
    res.sample(dict(config="fmmu-inout+direct-in",
                    meaning="terminal 0: 4 bytes in / 6 bytes out via FMMU, "
                            "terminal 1: 2 bytes in by direct FPRD; 3 cycles"))
    res.assumptions += [
        "'number of terminals expected to process a datagram' is taken from "
        "the bus model: the counter the datagram returns with when every "
        "mapped terminal processes it",
        "cycle k = the k-th device update; counters are judged from k = 2 on",
        "input patterns are free choices, wrong counters / late frames cost "
        "one deviation each"]
    return res


def replay(ctx, rep):
    res = core.Result()
    c = rep["case"]
    ch = explore.Chooser(tuple(c["choices"]))
    obs = execute(ch, c["config"])
    for u in obs["updates"]:
        print("update", u["seen"], u["outputs"], "delta", u["delta"])
    for d in obs["delivered"]:
        print("delivered", d["counters"], d["pattern"].hex(), d["outmem"])
    print("error", obs["error"])
    judge(c["config"], ch, obs, res)
    return res.violations
