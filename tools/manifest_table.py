# table of claimed checks; exec'd by gen_manifest.py
HOOK_COMMITS = []
NOT_APPLICABLE = {}
NOTES = ("All checks are bounded exhaustive explorations driving the real "
         "ebpfcat code (or the bytecode it generated); see DESIGN.md. "
         "Exit codes: 0 held, 1 VIOLATION, 2 INTERNAL (harness problem). "
         "known_findings.jsonl lists genuine defects kept as findings.")

check("C11", "explore",
      "exhaustive enumeration of datagram sequences, independent frame parser",
      "Every datagram sequence over the stated alphabet (all 15 commands, 7 "
      "address shapes, data lengths 0..1473 at depth 1; 40-54 datagram kinds "
      "at depth 2-4 including exactly-fitting and just-too-large datagrams; "
      "13-17 datagram count-limit sequences) is fed to the real "
      "Packet/SterilePacket and the assembled bytes are parsed and compared "
      "with an independent serialiser. Exhaustive within the alphabet.",
      "Trusted: mc/ecparse.py (independent parser), struct. Count limit "
      "taken as 15 user datagrams as in the code.")

check("C01", "bpfvm",
      "bounded exhaustive program x operand enumeration, independent eBPF "
      "interpreter + kernel differential, big-integer reference",
      "All expression trees over the stated leaf/operator/destination "
      "alphabet (depth 1 complete; depth 2 on representative leaves; "
      "register chains of depth 3-6 that exhaust the allocator) are compiled "
      "by the real DSL; the assembled bytes run in an independent eBPF "
      "interpreter on every operand vector from a boundary alphabet and the "
      "stored value is compared with exact big-integer arithmetic under the "
      "statement's precondition (strictest reading). Every 5th/7th program "
      "is also run by the real kernel and must agree with the interpreter.",
      "Trusted: mc/bpfvm.py (bound to the kernel by the differential runs), "
      "the oracle in harness/c01_intexpr.py. Operand values come from a "
      "boundary alphabet plus seeded values, not all 2^64.")
