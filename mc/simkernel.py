"""A simulated bpf() system call, bound to `ebpfcat.bpf.bpf`.

`SimKernel` wraps a `bpfvm.Kernel` (maps with kernel semantics, loaded
programs) and offers what the real system call offers to ebpfcat:

  0 MAP_CREATE  1 LOOKUP  2 UPDATE  3 DELETE  4 GET_NEXT_KEY
  21 LOOKUP_AND_DELETE  5 PROG_LOAD  6 OBJ_PIN  7 OBJ_GET  10 PROG_TEST_RUN

The attr is packed with the caller's format exactly as the real wrapper does
and then decoded with the *kernel's* layout of `union bpf_attr` for that
command (zero-extended if the caller's attr is shorter), so a wrong format in
the library misplaces fields here as it would in the kernel.

User memory.  Addresses are the real addresses of the Python objects, but
the simulated kernel may only touch bytes of a *registered* buffer: the
patched `addressof` / `c_char.from_buffer` / `cast` (the three ctypes names
`ebpfcat.bpf.addrof` and `_lookup_elem` use) register address -> (object,
length) and keep the object alive.  Every command checks that each buffer
is at least as long as the kernel would read or write; if not the attempt is
*recorded* in `overruns` and only the registered part is copied.  This
monitor is the oracle of C10.

File descriptors are real (one memfd each), so `os.close` in ebpfcat works
and numbers are recycled exactly as by the real kernel (lowest free number
first).  Every use of a descriptor checks that the number still denotes the
file it was handed out for: a descriptor the library closed gives EBADF, a
number that was closed and handed out again denotes the *new* object (a stale
number kept by the library then aliases another map, as it would in reality).
A loaded program keeps the maps it referred to at PROG_LOAD, whatever happens
to the numbers afterwards.  `mmap(fd, size)` of an mmapable array map returns
a memoryview aliasing the map's storage: Python and the program in the VM
share memory.
"""
import collections
import contextlib
import ctypes
import errno
import os
import struct

from . import bpfvm
from .bpfvm import BpfMap

PAGE = 4096
ENOTSUPP = 524
F_MMAPABLE = 1 << 10

# the kernel's layout of union bpf_attr per command (native alignment)
CANON = {
    0: "IIIII", 1: "IQQQ", 2: "IQQQ", 3: "IQ", 4: "IQQ", 21: "IQQQ",
    5: "IIQQIIQII16sII", 6: "QII", 7: "QII", 10: "IIIIQQII",
}
CMDNAME = {0: "MAP_CREATE", 1: "MAP_LOOKUP_ELEM", 2: "MAP_UPDATE_ELEM",
           3: "MAP_DELETE_ELEM", 4: "MAP_GET_NEXT_KEY",
           21: "MAP_LOOKUP_AND_DELETE_ELEM", 5: "PROG_LOAD", 6: "OBJ_PIN",
           7: "OBJ_GET", 10: "PROG_TEST_RUN"}


class SimTrap(Exception):
    """the program trapped in the interpreter during PROG_TEST_RUN (the real
    kernel's verifier would have refused such a program)"""


def possible_cpus():
    """number of possible CPUs of the real system (what per-CPU maps use)"""
    try:
        with open("/sys/devices/system/cpu/possible") as f:
            txt = f.read().strip()
        n = 0
        for part in txt.split(","):
            lo, _, hi = part.partition("-")
            n = max(n, int(hi or lo) + 1)
        return n
    except (OSError, ValueError):
        return os.cpu_count() or 1


def round8(n):
    return (n + 7) // 8 * 8


class _FromBuffer:
    """what the patched c_char.from_buffer returns: the real ctypes object
    plus the buffer it was made from"""
    def __init__(self, c, buf, length):
        self.c = c
        self.buf = buf
        self.length = length


class _BoundKernel:
    """a loaded program's view of the kernel: the maps it referred to when it
    was loaded stay bound to it, whoever owns the descriptor numbers now"""

    def __init__(self, kernel, bound):
        self.__dict__["_k"] = kernel
        self.__dict__["maps"] = collections.ChainMap(bound, kernel.maps)

    def __getattr__(self, name):
        return getattr(self._k, name)

    def __setattr__(self, name, value):
        setattr(self._k, name, value)


class SimKernel:
    def __init__(self, n_possible=1, n_online=None, cpu=0):
        self.kernel = bpfvm.Kernel()
        self.n_possible = n_possible
        self.n_online = n_possible if n_online is None else n_online
        self.cpu = cpu                  # CPU on which PROG_TEST_RUN runs
        self.buffers = {}               # address -> (object, length)
        self.overruns = []              # C10's monitor output
        self.overrun_limit = None       # if set: from that many records on
        #                                 a short buffer fails with EFAULT
        self.faults = []                # accesses through unregistered addresses
        self.fds = {}                   # fd -> ("map", BpfMap) | ("prog", insns)
        self.pins = {}                  # path -> ("map"|"prog", object)
        self.prog_ids = {}              # fd -> pseudo program id
        self.calls = []                 # (cmd, decoded canonical fields)
        self.last_run = None            # dict(retval, data_out, steps)
        self.log_calls = True
        self._null = None
        self._owned = []
        self._ident = {}                # fd -> identity of the file behind it
        self._cchar = self._make_cchar()

    # ------------------------------------------------------------ user memory
    def register(self, addr, obj, length):
        self.buffers[addr] = (obj, length)
        return addr

    def addrof(self, obj):
        """address of a bytes / bytearray / ctypes object, registered (for
        harness code that calls `bpf` directly)"""
        if isinstance(obj, bytearray):
            if not obj:
                raise ValueError("empty bytearray has no address")
            c = ctypes.c_char.from_buffer(obj)
            return self.register(ctypes.addressof(c), (obj, c), len(obj))
        if isinstance(obj, bytes):
            return self.register(ctypes.cast(obj, ctypes.c_void_p).value or 0,
                                 obj, len(obj))
        return self.register(ctypes.addressof(obj), obj, ctypes.sizeof(obj))

    def _make_cchar(self):
        sk = self

        class c_char:      # stands in for ctypes.c_char inside ebpfcat.bpf
            @staticmethod
            def from_buffer(buf, offset=0):
                c = ctypes.c_char.from_buffer(buf, offset)
                return _FromBuffer(c, buf, len(buf) - offset)

            def __new__(cls, *a):
                return ctypes.c_char(*a)
        c_char.sim = sk
        return c_char

    def _addressof(self, obj):
        if isinstance(obj, _FromBuffer):
            return self.register(ctypes.addressof(obj.c), (obj.buf, obj.c),
                                 obj.length)
        return self.register(ctypes.addressof(obj), obj, ctypes.sizeof(obj))

    def _cast(self, obj, typ):
        ret = ctypes.cast(obj, typ)
        if typ is ctypes.c_void_p and ret.value:
            if isinstance(obj, (bytes, bytearray)):
                self.register(ret.value, obj, len(obj))
            elif isinstance(obj, ctypes.Array):
                self.register(ret.value, obj, ctypes.sizeof(obj))
        return ret

    def _span(self, cmd, what, addr, need):
        """-> number of bytes the simulated kernel may touch at addr"""
        ent = self.buffers.get(addr)
        if ent is None:
            self.faults.append(dict(cmd=CMDNAME.get(cmd, cmd), what=what,
                                    addr=addr, need=need))
            self.overruns.append(dict(cmd=CMDNAME.get(cmd, cmd), need=need,
                                      have=0, what=what, unregistered=True))
            raise OSError(errno.EFAULT, "unregistered user address")
        have = ent[1]
        if have < need:
            self.overruns.append(dict(cmd=CMDNAME.get(cmd, cmd), need=need,
                                      have=have, what=what))
            if self.overrun_limit is not None and \
                    len(self.overruns) >= self.overrun_limit:
                # (a caller iterating over a map with too short key buffers
                # would never come to an end)
                raise OSError(errno.EFAULT, "short user buffer")
        return min(have, need)

    def _read(self, cmd, what, addr, need):
        n = self._span(cmd, what, addr, need)
        data = ctypes.string_at(addr, n) if n else b""
        return data + bytes(need - n)       # the rest is unknown: zeros

    def _write(self, cmd, what, addr, data, need=None):
        n = self._span(cmd, what, addr, len(data) if need is None else need)
        n = min(n, len(data))
        if n:
            ctypes.memmove(addr, bytes(data[:n]), n)

    def _cstring(self, cmd, what, addr, limit=4096):
        ent = self.buffers.get(addr)
        if ent is None:
            self.faults.append(dict(cmd=CMDNAME.get(cmd, cmd), what=what,
                                    addr=addr, need=1))
            raise OSError(errno.EFAULT, "unregistered user address")
        raw = ctypes.string_at(addr, min(ent[1], limit))
        return raw.split(b"\0")[0]

    # ------------------------------------------------------------ descriptors
    def _newfd(self):
        """a fresh real descriptor (the lowest free number, like the kernel's)
        with an identity of its own"""
        fd = None
        if hasattr(os, "memfd_create"):
            try:
                fd = os.memfd_create("simbpf")
            except OSError:
                fd = None
        if fd is None:
            if self._null is None:
                self._null = os.open(os.devnull, os.O_RDWR)
            fd = os.dup(self._null)
        self._forget(fd)                # a recycled number: the old object
        self._owned.append(fd)          # is not reachable through it any more
        self._ident[fd] = self._identity(fd)
        return fd

    @staticmethod
    def _identity(fd):
        st = os.fstat(fd)
        return st.st_dev, st.st_ino

    def _forget(self, fd):
        self.fds.pop(fd, None)
        self._ident.pop(fd, None)
        self.kernel.maps.pop(fd, None)
        self.kernel.progs.pop(fd, None)

    def _ent(self, fd):
        """what descriptor fd denotes, or None: never handed out, or closed
        since (even if the number is open again for something else)"""
        ent = self.fds.get(fd)
        if ent is None:
            return None
        try:
            live = self._identity(fd) == self._ident.get(fd)
        except OSError:
            live = False
        if not live:
            self._forget(fd)
            return None
        return ent

    def is_open(self, fd):
        return self._ent(fd) is not None

    def close_all(self):
        """close every descriptor this instance handed out (and still owns)"""
        for fd in self._owned:
            try:
                if self._identity(fd) == self._ident.get(fd):
                    os.close(fd)
            except OSError:
                pass
            self._ident.pop(fd, None)
        self._owned = []
        if self._null is not None:
            os.close(self._null)
            self._null = None

    def _map(self, fd):
        ent = self._ent(fd)
        if ent is None:
            raise OSError(errno.EBADF, "bad file descriptor")
        if ent[0] != "map":
            raise OSError(errno.EINVAL, "not a map")
        return ent[1]

    def map_of(self, fd):
        return self._map(fd)

    def vsize_user(self, m):
        """bytes the kernel copies to/from the user's value buffer"""
        if m.type == BpfMap.PERCPU_ARRAY:
            return round8(m.value_size) * m.ncpu
        return m.value_size

    # ------------------------------------------------------------ the syscall
    def bpf(self, cmd, fmt, *args):
        attr = bytearray(struct.pack(fmt, *args))
        canon = CANON.get(cmd)
        if canon is None:
            raise OSError(errno.EINVAL, f"simulated bpf(): command {cmd}")
        size = struct.calcsize(canon)
        padded = bytes(attr[:size]) + bytes(max(0, size - len(attr)))
        if any(attr[size:]) and cmd != 10:
            raise OSError(errno.E2BIG, "non-zero bytes beyond the attr")
        fields = struct.unpack(canon, padded)
        if self.log_calls:
            self.calls.append((cmd, fields))
        ret = getattr(self, "_cmd%d" % cmd)(cmd, fields, attr)
        return ret, struct.unpack(fmt, bytes(attr))

    # ---- maps
    def _cmd0(self, cmd, f, attr):
        mtype, ks, vs, n, flags = f
        if flags & ~F_MMAPABLE:
            raise OSError(errno.EINVAL, "map flags")
        if mtype in (BpfMap.ARRAY, BpfMap.PERCPU_ARRAY, BpfMap.PROG_ARRAY):
            if ks != 4 or vs == 0 or n == 0:
                raise OSError(errno.EINVAL, "array map attributes")
            if mtype == BpfMap.PROG_ARRAY and vs != 4:
                raise OSError(errno.EINVAL, "prog array value size")
            if flags and mtype != BpfMap.ARRAY:
                raise OSError(errno.EINVAL, "mmapable non-array")
        elif mtype in (BpfMap.HASH, BpfMap.LRU_HASH):
            if ks == 0 or vs == 0 or n == 0 or flags:
                raise OSError(errno.EINVAL, "hash map attributes")
        else:
            raise OSError(errno.EINVAL, f"map type {mtype} not simulated")
        m = BpfMap(mtype, ks, vs, n, ncpu=self.n_possible, flags=flags)
        if mtype == BpfMap.ARRAY and flags & F_MMAPABLE:
            # the kernel page-aligns the storage of an mmapable array
            m.area = bytearray((len(m.area) + PAGE - 1) // PAGE * PAGE)
        fd = self._newfd()
        self.fds[fd] = ("map", m)
        self.kernel.maps[fd] = m
        return fd

    def _index(self, key):
        return struct.unpack("<I", key[:4])[0]

    def _lookup_value(self, m, key):
        """-> bytes as copied to user space, or raises OSError"""
        if m.type == BpfMap.ARRAY:
            i = self._index(key)
            if i >= m.max_entries:
                raise OSError(errno.ENOENT, "no such element")
            return bytes(m.area[i * m.stride:i * m.stride + m.value_size])
        if m.type == BpfMap.PERCPU_ARRAY:
            i = self._index(key)
            if i >= m.max_entries:
                raise OSError(errno.ENOENT, "no such element")
            return b"".join(bytes(a[i * m.stride:(i + 1) * m.stride])
                            for a in m.area)
        if m.type == BpfMap.PROG_ARRAY:
            i = self._index(key)
            if i >= m.max_entries or i not in m.progs:
                raise OSError(errno.ENOENT, "no such element")
            return struct.pack("<I", self.prog_ids.get(m.progs[i], 0))
        v = m.entries.get(bytes(key))
        if v is None:
            raise OSError(errno.ENOENT, "no such element")
        return bytes(v)             # the syscall path does not touch LRU order

    def _cmd1(self, cmd, f, attr):
        fd, kaddr, vaddr, flags = f
        m = self._map(fd)
        if flags & ~4:
            raise OSError(errno.EINVAL, "lookup flags")
        if flags & 4:
            raise OSError(errno.EINVAL, "BPF_F_LOCK without spin lock")
        key = self._read(cmd, "key", kaddr, m.key_size)
        need = self.vsize_user(m)
        # the kernel copies only on success, but the size of the user buffer
        # is a precondition of the call either way: check it first
        self._span_check(cmd, "value", vaddr, need)
        value = self._lookup_value(m, key)
        self._write_nocheck(vaddr, value)
        return 0

    def _span_check(self, cmd, what, addr, need):
        self._span(cmd, what, addr, need)

    def _write_nocheck(self, addr, data):
        have = self.buffers[addr][1]
        n = min(have, len(data))
        if n:
            ctypes.memmove(addr, bytes(data[:n]), n)

    def _cmd2(self, cmd, f, attr):
        fd, kaddr, vaddr, flags = f
        m = self._map(fd)
        key = self._read(cmd, "key", kaddr, m.key_size)
        value = self._read(cmd, "value", vaddr, self.vsize_user(m))
        if flags & 4:
            raise OSError(errno.EINVAL, "BPF_F_LOCK without spin lock")
        if m.type == BpfMap.PROG_ARRAY:
            if flags:
                raise OSError(errno.EINVAL, "prog array update flags")
            i = self._index(key)
            if i >= m.max_entries:
                raise OSError(errno.E2BIG, "index out of range")
            pfd = struct.unpack("<I", value[:4])[0]
            ent = self._ent(pfd)
            if ent is None:
                raise OSError(errno.EBADF, "bad program descriptor")
            if ent[0] != "prog":
                raise OSError(errno.EINVAL, "not a program")
            m.progs[i] = pfd
            return 0
        if m.type == BpfMap.PERCPU_ARRAY:
            if flags & ~7 or (flags & 3) == 3:
                raise OSError(errno.EINVAL, "update flags")
            i = self._index(key)
            if i >= m.max_entries:
                raise OSError(errno.E2BIG, "index out of range")
            if flags & 1:
                raise OSError(errno.EEXIST, "element exists")
            for c, a in enumerate(m.area):
                a[i * m.stride:i * m.stride + m.value_size] = \
                    value[c * m.stride:c * m.stride + m.value_size]
            return 0
        r = bpfvm.map_update(m, key, value, flags)
        if r:
            raise OSError(-r, os.strerror(-r))
        return 0

    def _cmd3(self, cmd, f, attr):
        fd, kaddr = f
        m = self._map(fd)
        key = self._read(cmd, "key", kaddr, m.key_size)
        r = bpfvm.map_delete(m, key)
        if r:
            raise OSError(-r, os.strerror(-r))
        return 0

    def _cmd4(self, cmd, f, attr):
        fd, kaddr, naddr = f
        m = self._map(fd)
        key = None if kaddr == 0 else \
            self._read(cmd, "key", kaddr, m.key_size)
        self._span_check(cmd, "next_key", naddr, m.key_size)
        if m.type in (BpfMap.ARRAY, BpfMap.PERCPU_ARRAY, BpfMap.PROG_ARRAY):
            i = 0xffffffff if key is None else self._index(key)
            if i >= m.max_entries:
                nxt = 0
            elif i == m.max_entries - 1:
                raise OSError(errno.ENOENT, "last key")
            else:
                nxt = i + 1
            out = struct.pack("<I", nxt)
        else:
            keys = list(m.entries)
            if key is None or key not in m.entries:
                if not keys:
                    raise OSError(errno.ENOENT, "map is empty")
                out = keys[0]
            else:
                i = keys.index(key)
                if i + 1 >= len(keys):
                    raise OSError(errno.ENOENT, "last key")
                out = keys[i + 1]
        self._write_nocheck(naddr, out)
        return 0

    def _cmd21(self, cmd, f, attr):
        fd, kaddr, vaddr, flags = f
        m = self._map(fd)
        if flags & ~4:
            raise OSError(errno.EINVAL, "lookup flags")
        if flags & 4:
            raise OSError(errno.EINVAL, "BPF_F_LOCK without spin lock")
        key = self._read(cmd, "key", kaddr, m.key_size)
        self._span_check(cmd, "value", vaddr, self.vsize_user(m))
        if m.type not in (BpfMap.HASH, BpfMap.LRU_HASH):
            raise OSError(ENOTSUPP, "operation not supported by this map")
        v = m.entries.get(key)
        if v is None:
            raise OSError(errno.ENOENT, "no such element")
        self._write_nocheck(vaddr, bytes(v))
        del m.entries[key]
        return 0

    # ---- programs
    def _cmd5(self, cmd, f, attr):
        (ptype, cnt, iaddr, laddr, log_level, log_size, log_buf, kver, pflags,
         name, ifindex, attach) = f
        if cnt == 0 or cnt > 1_000_000:
            raise OSError(errno.E2BIG if cnt else errno.EINVAL,
                          "instruction count")
        code = self._read(cmd, "insns", iaddr, cnt * 8)
        self._cstring(cmd, "license", laddr)
        try:
            insns = bpfvm.decode(code)
        except bpfvm.Trap as e:
            raise OSError(errno.EINVAL, str(e))
        bound = {}
        for ins in insns:
            if ins is not None and ins[0] == 0x18 and ins[2] == 1:
                ent = self._ent(ins[4] & 0xffffffff)
                if ent is None or ent[0] != "map":
                    raise OSError(errno.EBADF, "program refers to a bad map fd")
                bound[ins[4] & 0xffffffff] = ent[1]
        if log_level:
            if log_buf == 0 or log_size < 128:
                raise OSError(errno.EINVAL, "log buffer")
            self._write(cmd, "log_buf", log_buf,
                        b"simulated: processed %d insns\n\0" % cnt,
                        need=min(log_size, 64))
        fd = self._newfd()
        self.fds[fd] = ("prog", insns, bound)
        self.kernel.progs[fd] = insns
        self.prog_ids[fd] = 1000 + len(self.prog_ids)
        return fd

    def _cmd6(self, cmd, f, attr):
        paddr, fd, fflags = f
        path = self._cstring(cmd, "pathname", paddr)
        ent = self._ent(fd)
        if ent is None:
            raise OSError(errno.EBADF, "bad file descriptor")
        if path in self.pins:
            raise OSError(errno.EEXIST, "pin exists")
        self.pins[path] = ent
        return 0

    def _cmd7(self, cmd, f, attr):
        paddr, zero, fflags = f
        path = self._cstring(cmd, "pathname", paddr)
        ent = self.pins.get(path)
        if ent is None:
            raise OSError(errno.ENOENT, "no such pin")
        fd = self._newfd()
        self.fds[fd] = ent
        if ent[0] == "map":
            self.kernel.maps[fd] = ent[1]
        else:
            self.kernel.progs[fd] = ent[1]
        return fd

    def unpin(self, path):
        self.pins.pop(path.encode() if isinstance(path, str) else path, None)

    def run_prog(self, fd, packet, cpu=None, repeat=1):
        """run a loaded program on `packet` (a bytearray, modified in place)
        -> (retval, vm); raises SimTrap"""
        ent = self._ent(fd)
        if ent is None:
            raise OSError(errno.EBADF, "bad file descriptor")
        if ent[0] != "prog":
            raise OSError(errno.EINVAL, "not a program")
        vm = None
        kernel = self.kernel
        bound = ent[2] if len(ent) > 2 else None
        if bound and any(kernel.maps.get(k) is not m
                         for k, m in bound.items()):
            kernel = _BoundKernel(kernel, bound)
        for _ in range(max(1, repeat)):
            vm = bpfvm.VM(kernel, ent[1], packet,
                          self.cpu if cpu is None else cpu)
            try:
                vm.run()
            except bpfvm.Trap as e:
                raise SimTrap(f"{e} (pc {vm.pc})") from None
        return vm.retval, vm

    def _cmd10(self, cmd, f, attr):
        fd, _, size_in, size_out, din, dout, repeat, _ = f
        ent = self._ent(fd)
        if ent is None:
            raise OSError(errno.EBADF, "bad file descriptor")
        if ent[0] != "prog":
            raise OSError(errno.EINVAL, "not a program")
        if size_in < 14 or size_in > PAGE - 256 - 320:
            raise OSError(errno.EINVAL, "data_size_in")
        packet = bytearray(self._read(cmd, "data_in", din, size_in))
        retval, vm = self.run_prog(fd, packet, repeat=repeat)
        self.last_run = dict(retval=retval, data_out=bytes(packet),
                             steps=vm.steps)
        err = None
        if dout:
            n = len(packet)
            if size_out and size_out < n:
                n, err = size_out, errno.ENOSPC
            self._write(cmd, "data_out", dout, packet[:n])
        struct.pack_into("I", attr, 4, retval & 0xffffffff)
        struct.pack_into("I", attr, 12, len(packet))
        struct.pack_into("I", attr, 36, 0)
        if err:
            raise OSError(err, os.strerror(err))
        return 0

    # ------------------------------------------------------------ mmap
    def mmap(self, fd, length, *a, **kw):
        m = self._map(fd)
        if m.type != BpfMap.ARRAY or not m.flags & F_MMAPABLE:
            raise OSError(errno.EINVAL, "map is not mmapable")
        if length <= 0 or length > len(m.area):
            raise OSError(errno.EINVAL, "mmap length")
        return memoryview(m.area)[:length]

    # ------------------------------------------------------------ installing
    @contextlib.contextmanager
    def installed(self):
        """rebind the seams of ebpfcat.bpf / ebpfcat.arraymap to this kernel"""
        import ebpfcat.arraymap as A
        import ebpfcat.bpf as B
        new_b = dict(bpf=self.bpf, addressof=self._addressof,
                     c_char=self._cchar, cast=self._cast)
        new_a = dict(mmap=self.mmap, cpu_count=lambda: self.n_online)
        # the library's own way of finding the number of possible CPUs is
        # kept: it reads /sys/devices/system/cpu/possible, which we serve
        import builtins
        import io

        def fake_open(path, *a, **kw):
            if str(path) == "/sys/devices/system/cpu/possible":
                return io.StringIO(self.possible_text() + "\n")
            return builtins.open(path, *a, **kw)
        new_a["open"] = fake_open
        new_b["open"] = fake_open
        missing = object()
        saved = [(mod, k, getattr(mod, k, missing))
                 for mod, new in ((B, new_b), (A, new_a)) for k in new]
        try:
            for mod, new in ((B, new_b), (A, new_a)):
                for k, v in new.items():
                    setattr(mod, k, v)
            yield self
        finally:
            for mod, k, v in saved:
                if v is missing:
                    delattr(mod, k)
                else:
                    setattr(mod, k, v)

    possible_spelling = 0

    def possible_text(self):
        """the content of /sys/devices/system/cpu/possible for n_possible
        CPUs, in one of several equivalent spellings of the same set"""
        n = self.n_possible
        if n == 1:
            return "0"
        forms = [f"0-{n - 1}",
                 f"0-{n - 2},{n - 1}" if n > 2 else "0,1",
                 f"0,1-{n - 1}" if n > 2 else "0-1"]
        return forms[self.possible_spelling % len(forms)]

    # ------------------------------------------------------------ raw user API
    # (used by the self-test and by harnesses that talk to the simulated
    # kernel without going through ebpfcat; mirrors mc/kern.py)
    def u_create(self, mtype, ks, vs, n, flags=0):
        return self.bpf(0, "IIIII", mtype, ks, vs, n, flags)[0]

    def _ubuf(self, data):
        b = ctypes.create_string_buffer(bytes(data), len(data)) \
            if not isinstance(data, int) else ctypes.create_string_buffer(data)
        return b, self.addrof(b)

    def u_lookup(self, fd, key, vsize, cmd=1, flags=0):
        k, ka = self._ubuf(key)
        v, va = self._ubuf(vsize)
        self.bpf(cmd, "IQQQ", fd, ka, va, flags)
        return v.raw

    def u_update(self, fd, key, value, flags=0):
        k, ka = self._ubuf(key)
        v, va = self._ubuf(value)
        self.bpf(2, "IQQQ", fd, ka, va, flags)

    def u_delete(self, fd, key):
        k, ka = self._ubuf(key)
        self.bpf(3, "IQ", fd, ka)

    def u_next_key(self, fd, key, ksize):
        o, oa = self._ubuf(ksize)
        if key is None:
            ka = 0
        else:
            k, ka = self._ubuf(key)
        self.bpf(4, "IQQ", fd, ka, oa)
        return o.raw

    def u_prog_load(self, code):
        i, ia = self._ubuf(code)
        lic, la = self._ubuf(b"GPL\0")
        return self.bpf(5, "IIQQIIQII16sII", 6, len(code) // 8, ia, la, 0, 0,
                        0, 0, 0, b"verif", 0, 0)[0]

    def u_test_run(self, fd, data):
        i, ia = self._ubuf(data)
        o, oa = self._ubuf(len(data) + 256)
        _, f = self.bpf(10, "IIIIQQII20x", fd, 0, len(data), len(o), ia, oa,
                        1, 0)
        return f[1], o.raw[:f[3]]

    def contents(self, fd):
        return self._map(fd).snapshot()


# ======================================================================
# conformance self-test: the same script against SimKernel and the kernel
# ======================================================================
class _RealDriver:
    def __init__(self):
        from . import kern
        self.kern = kern
        self.fds = []

    def create(self, *a):
        fd = self.kern.map_create(*a)
        self.fds.append(fd)
        return fd

    def _raw(self, cmd, fd, key, vsize, flags):
        k = ctypes.create_string_buffer(bytes(key), len(key))
        v = ctypes.create_string_buffer(vsize)
        self.kern._bpf(cmd, struct.pack("IQQQ", fd, ctypes.addressof(k),
                                        ctypes.addressof(v), flags))
        return v.raw

    def lookup(self, fd, key, vsize, flags=0):
        return self._raw(1, fd, key, vsize, flags)

    def lookup_delete(self, fd, key, vsize, flags=0):
        return self._raw(21, fd, key, vsize, flags)

    def update(self, fd, key, value, flags=0):
        self.kern.map_update(fd, key, value, flags)

    def delete(self, fd, key):
        self.kern.map_delete(fd, key)

    def next_key(self, fd, key, ksize):
        out = ctypes.create_string_buffer(ksize)
        ka = 0
        if key is not None:
            k = ctypes.create_string_buffer(bytes(key), len(key))
            ka = ctypes.addressof(k)
        self.kern._bpf(4, struct.pack("IQQ", fd, ka, ctypes.addressof(out)))
        return out.raw

    def prog_load(self, code):
        fd = self.kern.prog_load(code)
        self.fds.append(fd)
        return fd

    def test_run(self, fd, data):
        return self.kern.test_run(fd, data)

    def mmap(self, fd, size):
        import mmap
        return mmap.mmap(fd, size)

    def close(self):
        for fd in self.fds:
            try:
                os.close(fd)
            except OSError:
                pass


class _SimDriver:
    def __init__(self, sk):
        self.sk = sk

    def create(self, *a):
        return self.sk.u_create(*a)

    def lookup(self, fd, key, vsize, flags=0):
        return self.sk.u_lookup(fd, key, vsize, 1, flags)

    def lookup_delete(self, fd, key, vsize, flags=0):
        return self.sk.u_lookup(fd, key, vsize, 21, flags)

    def update(self, fd, key, value, flags=0):
        self.sk.u_update(fd, key, value, flags)

    def delete(self, fd, key):
        self.sk.u_delete(fd, key)

    def next_key(self, fd, key, ksize):
        return self.sk.u_next_key(fd, key, ksize)

    def prog_load(self, code):
        return self.sk.u_prog_load(code)

    def test_run(self, fd, data):
        return self.sk.u_test_run(fd, data)

    def mmap(self, fd, size):
        return self.sk.mmap(fd, size)

    def close(self):
        self.sk.close_all()


def _ins(op, dst=0, src=0, off=0, imm=0):
    return struct.pack("<BBhi", op, dst | src << 4, off, imm)


def _selftest_program(array_fd, hash_fd):
    """packet[14] is added to array value[0] (u32); hash[key=packet[15..19]]
    is looked up: present -> its first byte goes to packet[20] and is
    incremented in place; absent -> inserted with value = packet[21..33];
    returns 2 (PASS) / 1 (DROP) accordingly"""
    c = b""
    c += _ins(0x61, 9, 1, 0)            # r9 = ctx->data
    c += _ins(0x61, 8, 1, 4)            # r8 = ctx->data_end
    c += _ins(0xbf, 0, 9)               # r0 = r9
    c += _ins(0x07, 0, 0, 0, 40)        # r0 += 40
    c += _ins(0xbd, 0, 8, 2)            # if r0 <= r8 goto +2
    c += _ins(0xb7, 0, 0, 0, 0)
    c += _ins(0x95)
    # array: value[0] += packet[14]
    c += _ins(0x62, 10, 0, -4, 0)       # *(u32*)(r10-4) = 0
    c += _ins(0x18, 1, 1, 0, array_fd) + _ins(0)
    c += _ins(0xbf, 2, 10)
    c += _ins(0x07, 2, 0, 0, -4)
    c += _ins(0x85, 0, 0, 0, 1)         # map_lookup_elem
    c += _ins(0x55, 0, 0, 2, 0)         # if r0 != 0 goto +2
    c += _ins(0xb7, 0, 0, 0, 0)
    c += _ins(0x95)
    c += _ins(0x71, 1, 9, 14)           # r1 = packet[14]
    c += _ins(0xc3, 0, 1, 0)            # lock *(u32*)(r0+0) += r1
    # hash key: 5 bytes from packet[15..19] to r10-16
    for i in range(5):
        c += _ins(0x71, 1, 9, 15 + i)
        c += _ins(0x73, 10, 1, -16 + i)
    c += _ins(0x18, 1, 1, 0, hash_fd) + _ins(0)
    c += _ins(0xbf, 2, 10)
    c += _ins(0x07, 2, 0, 0, -16)
    c += _ins(0x85, 0, 0, 0, 1)
    c += _ins(0x15, 0, 0, 6, 0)         # if r0 == 0 goto absent
    c += _ins(0x71, 1, 0, 0)            # r1 = value[0]
    c += _ins(0x73, 9, 1, 20)           # packet[20] = r1
    c += _ins(0x07, 1, 0, 0, 1)
    c += _ins(0x73, 0, 1, 0)            # value[0] = r1 + 1
    c += _ins(0xb7, 0, 0, 0, 2)
    c += _ins(0x95)
    # absent: update(hash, key, packet+21, ANY)
    c += _ins(0x18, 1, 1, 0, hash_fd) + _ins(0)
    c += _ins(0xbf, 2, 10)
    c += _ins(0x07, 2, 0, 0, -16)
    c += _ins(0xbf, 3, 9)
    c += _ins(0x07, 3, 0, 0, 21)
    c += _ins(0xb7, 4, 0, 0, 0)
    c += _ins(0x85, 0, 0, 0, 2)
    c += _ins(0x63, 9, 0, 36)           # packet[36..40] = r0 (u32)
    c += _ins(0xb7, 0, 0, 0, 1)
    c += _ins(0x95)
    return c


def _script(d, ncpu):
    """run the conformance script on driver d; -> list of observations"""
    log = []

    def t(label, fn, *a, norm=None):
        try:
            r = fn(*a)
            if norm:
                r = norm(r)
            log.append((label, "ok", r))
            return r
        except OSError as e:
            log.append((label, "err", e.errno))
            return None

    def keys(fd, ks):
        out, k = [], None
        for _ in range(100):
            try:
                k = d.next_key(fd, k, ks)
            except OSError as e:
                if e.errno != errno.ENOENT:
                    raise
                break
            out.append(k)
        return sorted(out)

    I = lambda i: struct.pack("<I", i)      # noqa: E731
    # ---- creation errors
    for args in [(2, 8, 8, 1), (2, 4, 0, 1), (2, 4, 8, 0), (1, 0, 8, 1),
                 (1, 4, 0, 1), (6, 4, 8, 1, 1 << 10), (2, 4, 8, 1, 1 << 20),
                 (3, 4, 8, 1), (1, 4, 4, 0)]:
        t(f"create{args}", d.create, *args, norm=lambda fd: "fd")
    # ---- array, value 12 (stride 16), 3 entries
    a = d.create(2, 4, 12, 3)
    t("a.lookup0", d.lookup, a, I(0), 12)
    t("a.lookup3", d.lookup, a, I(3), 12)
    t("a.update1", d.update, a, I(1), bytes(range(1, 13)))
    t("a.update3", d.update, a, I(3), bytes(12))
    t("a.update1.noexist", d.update, a, I(1), bytes(12), 1)
    t("a.update1.exist", d.update, a, I(1), bytes(range(2, 14)), 2)
    t("a.update1.f3", d.update, a, I(1), bytes(12), 3)
    t("a.update1.f4", d.update, a, I(1), bytes(12), 4)
    t("a.update1.f8", d.update, a, I(1), bytes(12), 8)
    t("a.lookup1", d.lookup, a, I(1), 12)
    t("a.lookup1.f1", d.lookup, a, I(1), 12, 1)
    t("a.lookup1.f4", d.lookup, a, I(1), 12, 4)
    t("a.delete1", d.delete, a, I(1))
    t("a.lad1", d.lookup_delete, a, I(1), 12)
    for k in (None, I(0), I(1), I(2), I(7)):
        t(f"a.next{k}", d.next_key, a, k, 4)
    # ---- mmapable array: aliasing
    ma = d.create(2, 4, 12, 1, 1 << 10)
    mm = d.mmap(ma, 12)
    mm[2:6] = b"\x11\x22\x33\x44"
    t("ma.lookup", d.lookup, ma, I(0), 12)
    t("ma.update", d.update, ma, I(0), bytes(range(100, 112)))
    log.append(("ma.view", "ok", bytes(mm[0:12])))
    log.append(("ma.unpack", "ok", struct.unpack_from("<H", mm, 10)))
    t("ma.big", lambda: len(d.mmap(ma, 4096)))
    # ---- per-CPU array, value 12, 2 entries
    p = d.create(6, 4, 12, 2)
    t("p.lookup0", d.lookup, p, I(0), 16 * ncpu)
    val = b"".join(bytes([c + 1]) * 12 + bytes(4) for c in range(ncpu))
    t("p.update1", d.update, p, I(1), val)
    t("p.lookup1", d.lookup, p, I(1), 16 * ncpu)
    t("p.lookup2", d.lookup, p, I(2), 16 * ncpu)
    t("p.update2", d.update, p, I(2), val)
    t("p.update1.noexist", d.update, p, I(1), val, 1)
    t("p.delete", d.delete, p, I(0))
    t("p.next", d.next_key, p, None, 4)
    t("p.next1", d.next_key, p, I(1), 4)
    t("p.lad", d.lookup_delete, p, I(0), 16 * ncpu)
    # ---- hash, key 5, value 13, 2 entries
    h = d.create(1, 5, 13, 2)
    k1, k2, k3 = b"key-1", b"key-2", b"key-3"
    v1, v2 = bytes(range(13)), bytes(range(50, 63))
    t("h.next.empty", d.next_key, h, None, 5)
    t("h.lookup.miss", d.lookup, h, k1, 13)
    t("h.delete.miss", d.delete, h, k1)
    t("h.lad.miss", d.lookup_delete, h, k1, 13)
    t("h.update.exist.miss", d.update, h, k1, v1, 2)
    t("h.update1", d.update, h, k1, v1)
    t("h.update1.noexist", d.update, h, k1, v2, 1)
    t("h.update1.exist", d.update, h, k1, v2, 2)
    t("h.lookup1", d.lookup, h, k1, 13)
    t("h.update2", d.update, h, k2, v1)
    t("h.update3.full", d.update, h, k3, v1)
    t("h.update2.whenfull", d.update, h, k2, v2)
    t("h.update.f3", d.update, h, k1, v1, 3)
    t("h.update.f4", d.update, h, k1, v1, 4)
    t("h.update.f8", d.update, h, k1, v1, 8)
    log.append(("h.keys", "ok", keys(h, 5)))
    t("h.next.unknown", d.next_key, h, k3, 5,
      norm=lambda k: k in (k1, k2))
    t("h.lad.f1", d.lookup_delete, h, k1, 13, 1)
    t("h.lad1", d.lookup_delete, h, k1, 13)
    t("h.lad1.again", d.lookup_delete, h, k1, 13)
    t("h.update3", d.update, h, k3, v1)
    t("h.delete2", d.delete, h, k2)
    t("h.delete2.again", d.delete, h, k2)
    log.append(("h.keys2", "ok", keys(h, 5)))
    # ---- LRU hash (no overflow: eviction policy is not part of the contract)
    lru = d.create(9, 4, 8, 4)
    t("l.update", d.update, lru, I(5), bytes(8))
    t("l.update.noexist", d.update, lru, I(5), bytes(8), 1)
    t("l.lookup", d.lookup, lru, I(5), 8)
    t("l.lookup.miss", d.lookup, lru, I(6), 8)
    t("l.lad", d.lookup_delete, lru, I(5), 8)
    t("l.delete.miss", d.delete, lru, I(5))
    t("l.next.empty", d.next_key, lru, None, 4)
    # ---- prog array
    pa = d.create(3, 4, 4, 2)
    t("pa.lookup.empty", d.lookup, pa, I(0), 4)
    t("pa.lookup.oob", d.lookup, pa, I(5), 4)
    t("pa.delete.empty", d.delete, pa, I(0))
    t("pa.update.badfd", d.update, pa, I(0), I(99999))
    t("pa.update.mapfd", d.update, pa, I(0), I(pa))
    t("pa.next", d.next_key, pa, None, 4)
    t("pa.lad", d.lookup_delete, pa, I(0), 4)
    # ---- bad descriptors
    t("bad.lookup", d.lookup, 99999, I(0), 4)
    t("bad.update", d.update, 99999, I(0), I(0))
    t("bad.next", d.next_key, 99999, None, 4)
    # ---- a program using both maps through helpers
    a2 = d.create(2, 4, 8, 1)
    h2 = d.create(1, 5, 13, 1)
    prog = d.prog_load(_selftest_program(a2, h2))
    t("pa.update.prog", d.update, pa, I(1), I(prog))
    t("pa.update.prog.noexist", d.update, pa, I(1), I(prog), 1)
    t("pa.lookup.prog", d.lookup, pa, I(1), 4, norm=lambda v: len(v))
    t("pa.update.oob", d.update, pa, I(2), I(prog))
    t("pa.delete.prog", d.delete, pa, I(1))
    for n, pkt in enumerate([
            bytes(14) + b"\x07" + b"abcde" + bytes(1) + bytes(range(13))
            + bytes(6),
            bytes(14) + b"\x09" + b"abcde" + bytes(20),
            bytes(14) + b"\x01" + b"abcde" + bytes(20),
            bytes(14) + b"\x01" + b"other" + bytes(20),
            bytes(20)]):
        t(f"run{n}", d.test_run, prog, pkt)
        t(f"run{n}.array", d.lookup, a2, I(0), 8)
        t(f"run{n}.hash", d.lookup, h2, b"abcde", 13)
    t("run.short", d.test_run, prog, bytes(10))
    return log


def selftest(real=True):
    """-> dict(steps=..., kernel=bool); raises AssertionError with the first
    difference between SimKernel and the real kernel"""
    from . import kern
    ncpu = possible_cpus()
    sk = SimKernel(n_possible=ncpu)
    sim = _SimDriver(sk)
    try:
        slog = _script(sim, ncpu)
    finally:
        sim.close()
    if sk.overruns or sk.faults:
        raise AssertionError(f"self-test script overran: {sk.overruns[:3]}")
    # the monitor itself: a short value buffer must be reported, not written
    sk2 = SimKernel(n_possible=3)
    try:
        fd = sk2.u_create(6, 4, 12, 1)
        guard = bytearray(b"\xaa" * 64)
        small = (ctypes.c_char * 40).from_buffer(guard)
        key = ctypes.create_string_buffer(4)
        sk2.register(ctypes.addressof(small), (guard, small), 40)
        sk2.u_update(fd, bytes(4), b"\x55" * 48)
        sk2.bpf(1, "IQQQ", fd, sk2.addrof(key), ctypes.addressof(small), 0)
        if sk2.overruns != [dict(cmd="MAP_LOOKUP_ELEM", need=48, have=40,
                                 what="value")]:
            raise AssertionError(f"monitor: {sk2.overruns}")
        if bytes(guard[40:]) != b"\xaa" * 24 or \
                bytes(guard[:12]) != b"\x55" * 12:
            raise AssertionError("monitor wrote outside the registered part")
        del small
    finally:
        sk2.close_all()
    # descriptor numbers: closed -> EBADF, recycled -> the new object, a
    # loaded program keeps its maps
    sk3 = SimKernel()
    try:
        a = sk3.u_create(1, 4, 8, 4)
        h2 = sk3.u_create(1, 5, 13, 1)
        prog = sk3.u_prog_load(_selftest_program(sk3.u_create(2, 4, 8, 1),
                                                 h2))
        sk3.u_update(a, bytes(4), b"\x01" * 8)
        os.close(a)
        try:
            sk3.u_lookup(a, bytes(4), 8)
            raise AssertionError("lookup through a closed descriptor worked")
        except OSError as e:
            if e.errno != errno.EBADF:
                raise AssertionError(f"closed descriptor: {e}")
        os.close(h2)
        b2 = sk3.u_create(1, 4, 16, 4)
        b3 = sk3.u_create(2, 4, 8, 1)
        if (b2, b3) != (a, h2):
            raise AssertionError(f"descriptor numbers not recycled lowest "
                                 f"first: {(a, h2)} then {(b2, b3)}")
        try:
            sk3.u_lookup(b2, bytes(4), 16)
            raise AssertionError("recycled number shows the old map")
        except OSError as e:
            if e.errno != errno.ENOENT:
                raise AssertionError(f"recycled descriptor: {e}")
        pkt = bytes(14) + b"\x01" + b"abcde" + bytes(1) + bytes(range(13)) \
            + bytes(6)
        if sk3.u_test_run(prog, pkt)[0] != 1 or \
                sk3.u_test_run(prog, pkt)[0] != 2:
            raise AssertionError("a loaded program lost its hash map when "
                                 "the descriptor number was recycled")
        if sk3.overruns or sk3.faults:
            raise AssertionError(f"descriptor script: {sk3.overruns[:3]}")
    finally:
        sk3.close_all()
    if not (real and kern.available()):
        return dict(steps=len(slog), kernel=False)
    rd = _RealDriver()
    try:
        rlog = _script(rd, ncpu)
    finally:
        rd.close()
    if len(slog) != len(rlog):
        raise AssertionError("self-test logs differ in length")
    for s, r in zip(slog, rlog):
        if s != r:
            raise AssertionError(f"SimKernel differs from the kernel: "
                                 f"sim={s!r} real={r!r}")
    return dict(steps=len(slog), kernel=True)


_selftest_done = None


def selftest_once():
    """run the conformance self-test once per process tree; raises
    core.Internal on failure"""
    global _selftest_done
    from . import core
    if _selftest_done is None:
        try:
            _selftest_done = selftest()
        except AssertionError as e:
            raise core.Internal(f"simkernel self-test failed: {e}")
    return _selftest_done
