"""C27 - the Valve device enforces its safe state on timeout.

Explicit-state breadth-first search over histories of events applied to a real
``ebpfcat.devices.Valve`` that sits on a real (slow) ``SyncGroup`` over two or
three hand-made digital terminals; ``ebpfcat.devices.monotonic`` is rebound to
a virtual clock.  Every transition is executed on the real device (the state
is rebuilt by replaying its history on a fresh device) and compared with a
reference model written from the property statement.

Reading of the statement (written down once, here):

* "the position the coil commands": the coil output *as it is in the process
  data before the update* (what the valve is being driven to right now);
  coil on = open, coil off = closed (Valve docstring: coil is "a digital output
  which will open the valve").
* "the switches confirm" a position: exactly the switch of that position is
  on and the other one is off (open: openSwitch and not closedSwitch; closed:
  closedSwitch and not openSwitch).
* "the moving time has not elapsed since they last did": now - t_confirm <
  movingTime, where t_confirm is the time of the last update at which the
  switches confirmed, or the time of the reset if there was none since.
* each update therefore does exactly one of
    KEEP   coil := requested target (target, error unchanged)
    REACT  error := True, coil := target := safeState
  KEEP iff confirmed or not elapsed.
* safeState=True ("error reaction only"): the position check is not judged
  (the quantifier restricts it to the default safe state).  Only this is
  required: every update is a KEEP or a REACT with the *configured* safe
  state, the error flag never falls in an update, and when it rises the
  update was a REACT.
"""
from mc import core

import ebpfcat.devices as devices
from ebpfcat.devices import Valve
from ebpfcat.ebpfcat import SimpleEtherCat, SyncGroup
from ebpfcat.ethercat import SyncManager
from ebpfcat.terminals import EL1808, EL2808

PROP = "C27"
LEVEL = "model_checking"
RULE = ("explicit-state BFS: every event of the alphabet (set target, 4 "
        "switch readings, clock advances around the moving time, update) is "
        "applied to every distinct state reachable within the depth bound, on "
        "a real Valve rebuilt by replaying the state's history; a transition "
        "is non-trivial when it is an update; distinct = distinct "
        "(configuration, canonical state, event)")

EPS = 0.125     # binary fraction: all virtual times are exact floats
KF = "C27-error-reaction-ignores-safestate"


class Clock:
    def __init__(self):
        self.now = 1000.0

    def __call__(self):
        return self.now


# layouts: (coil bit, open (terminal, bit), closed (terminal, bit))
LAYOUTS = {
    "adjacent": dict(coil=0, open=(0, 0), closed=(0, 1)),
    "spread": dict(coil=7, open=(0, 5), closed=(1, 3)),
}


class Rig:
    """a real Valve on a real SyncGroup, no bus"""

    def __init__(self, cfg):
        lay = LAYOUTS[cfg["layout"]]
        self.clock = Clock()
        devices.monotonic = self.clock
        ec = SimpleEtherCat("c27")
        tout = EL2808(ec)
        tout.position = 1
        tout.pdos = {(0x7000 + 0x10 * i, 1): (SyncManager.OUT, 0, i)
                     for i in range(8)}
        tout.pdo_in_sz, tout.pdo_out_sz = 0, 1
        tins = []
        for n in range(2):
            t = EL1808(ec)
            t.position = 2 + n
            t.pdos = {(0x6000 + 0x10 * i, 1): (SyncManager.IN, 0, i)
                      for i in range(8)}
            t.pdo_in_sz, t.pdo_out_sz = 1, 0
            tins.append(t)
        cls = type("Valve_c27", (Valve,), dict(
            movingTime=cfg["mt"], safeState=cfg["safe"]))
        v = cls()
        v.coil = getattr(tout, "channel%d" % (lay["coil"] + 1))
        v.openSwitch = getattr(tins[lay["open"][0]],
                               "channel%d" % (lay["open"][1] + 1))
        v.closedSwitch = getattr(tins[lay["closed"][0]],
                                 "channel%d" % (lay["closed"][1] + 1))
        sg = SyncGroup(ec, [v])
        sg.allocate()
        sg.current_data = bytearray(max(46, sg.packet.size))
        self.v, self.sg = v, sg
        # a second valve of the same class in the same process, on terminals
        # and in a sync group of its own: whatever happens to it must not
        # matter to the valve under test
        t2 = EL2808(ec)
        t2.position = 5
        t2.pdos = {(0x7000 + 0x10 * i, 1): (SyncManager.OUT, 0, i)
                   for i in range(8)}
        t2.pdo_in_sz, t2.pdo_out_sz = 0, 1
        i2 = EL1808(ec)
        i2.position = 6
        i2.pdos = {(0x6000 + 0x10 * i, 1): (SyncManager.IN, 0, i)
                   for i in range(8)}
        i2.pdo_in_sz, i2.pdo_out_sz = 1, 0
        v2 = cls()
        v2.coil, v2.openSwitch, v2.closedSwitch = \
            t2.channel1, i2.channel1, i2.channel2
        sg2 = SyncGroup(ec, [v2])
        sg2.allocate()
        sg2.current_data = bytearray(max(46, sg2.packet.size))
        self.v2, self.sg2 = v2, sg2
        self.coil2_at = (sg2.pdo_assign[t2][SyncManager.OUT], 0)
        self.in2_at = sg2.pdo_assign[i2][SyncManager.IN]
        self.coil_at = (sg.pdo_assign[tout][SyncManager.OUT], lay["coil"])
        self.open_at = (sg.pdo_assign[tins[lay["open"][0]]][SyncManager.IN],
                        lay["open"][1])
        self.closed_at = (
            sg.pdo_assign[tins[lay["closed"][0]]][SyncManager.IN],
            lay["closed"][1])
        if len({self.coil_at, self.open_at, self.closed_at}) != 3:
            raise core.Internal("rig: process bits overlap")
        self.setbit(self.coil_at, cfg["coil0"])
        v2.reset()
        v.reset()
        self.safe = cfg["safe"]

    def setbit(self, at, val):
        pos, bit = at
        if val:
            self.sg.current_data[pos] |= 1 << bit
        else:
            self.sg.current_data[pos] &= ~(1 << bit) & 0xff

    def getbit(self, at):
        pos, bit = at
        return bool(self.sg.current_data[pos] & (1 << bit))

    def apply(self, ev):
        kind, arg = ev
        if kind == "target":
            self.v.target = arg
        elif kind == "sw":
            self.setbit(self.open_at, arg[0])
            self.setbit(self.closed_at, arg[1])
        elif kind == "adv":
            self.clock.now += arg
        elif kind == "update":
            self.v.update()
        elif kind == "other":
            # the other valve sits confirmed in its position and is updated
            # (or is reset); then the valve under test is updated
            if arg == "reset":
                self.v2.reset()
            else:
                d = self.sg2.current_data
                coil2 = bool(d[self.coil2_at[0]] & 1)
                d[self.in2_at] = 2 if coil2 == self.safe else 1
                self.v2.update()
            self.v.update()
        else:
            raise core.Internal("unknown event %r" % (ev,))

    def observe(self):
        """(coil, target, error) as a user of the device sees them"""
        return (self.getbit(self.coil_at), bool(self.v.target),
                bool(self.v.error))

    def hidden(self, mt):
        """the implementation's own timer, for state identity only"""
        lg = getattr(self.v, "lastGood", None)
        if lg is None:
            return "none"
        if not isinstance(lg, (int, float)):
            return "opaque"     # kept some other way: the model's is used
        el = self.clock.now - lg
        return "expired" if el >= mt else el


class Model:
    """reference model of the statement (see module docstring)"""

    def __init__(self, cfg):
        self.mt, self.safe = cfg["mt"], cfg["safe"]
        self.now = 0.0
        self.coil = bool(cfg["coil0"])
        self.target = False
        self.sw = (False, False)
        # reset
        self.error = False
        self.t_confirm = self.now

    def apply(self, ev):
        """returns the step kind for an update, else None"""
        kind, arg = ev
        if kind == "target":
            self.target = bool(arg)
        elif kind == "sw":
            self.sw = (bool(arg[0]), bool(arg[1]))
        elif kind == "adv":
            self.now += arg
        elif kind == "update":
            o, c = self.sw
            confirmed = (o and not c) if self.coil else (c and not o)
            if confirmed:
                self.t_confirm = self.now
                self.coil = self.target
                return "confirmed"
            elif self.now - self.t_confirm < self.mt:
                self.coil = self.target
                return "moving"
            else:
                self.error = True
                self.coil = self.target = self.safe
                return "react"
        return None

    def observe(self):
        return (self.coil, self.target, self.error)

    def elapsed(self):
        # Collapsing argument: the statement (and any implementation of it)
        # only ever asks whether the elapsed time is < movingTime; elapsed
        # time only grows (clock advances are >= 0) until a confirmation
        # sets it back to 0.  Hence every value >= movingTime has the same
        # future and is represented by "expired"; values below are exact.
        el = self.now - self.t_confirm
        return "expired" if el >= self.mt else el


def events(cfg, ctx):
    mt = cfg["mt"]
    adv = [0.0, mt - EPS, mt, mt + EPS, mt / 2]
    if not ctx.quick:
        adv.append(EPS)
    if ctx.seed:    # a seed only adds one more advance (a multiple of EPS)
        extra = EPS * (1 + (ctx.seed * 7919) % max(2, int(mt / EPS) + 2))
        if extra not in adv:
            adv.append(extra)
    evs = [("target", True), ("target", False)]
    evs += [("sw", (o, c)) for o in (False, True) for c in (False, True)]
    evs += [("adv", a) for a in adv]
    evs.append(("update", None))
    evs += [("other", "update"), ("other", "reset")]
    return evs


def run_history(cfg, history):
    """execute a history on a fresh real device and on the model

    returns (rig, model, trace) with trace = per event
    (obs_before, obs_after, model_before, model_after, step kind)"""
    rig = Rig(cfg)
    model = Model(cfg)
    trace = []
    for ev in history:
        ob, mb = rig.observe(), model.observe()
        rig.apply(ev)
        kind = model.apply(("update", None) if ev[0] == "other" else ev)
        trace.append((ob, rig.observe(), mb, model.observe(), kind))
    return rig, model, trace


def judge(cfg, ev, ob, oa, mb, ma):
    """judge one transition; returns None or (expected, observed, what, kf)"""
    safe = cfg["safe"]
    if ev[0] != "update":
        # nothing but update may touch the outputs; target follows the request
        exp = (ob[0], bool(ev[1]) if ev[0] == "target" else ob[1], ob[2])
        if oa != exp:
            return (exp, oa, "non-update event changed coil/target/error",
                    None)
        return None
    if not safe:
        if oa != ma:
            return (ma, oa, "update: coil/target/error differ from the "
                    "reference model", None)
        return None
    # safeState=True: error reaction only
    keep = (ob[1], ob[1], ob[2])
    react = (True, True, True)
    bad = None
    if oa[2] and not ob[2] and oa != react:
        bad = (react, oa, "error raised without coil = target = safeState")
    elif ob[2] and not oa[2]:
        bad = (keep, oa, "update cleared the error flag")
    elif oa not in (keep, react):
        bad = ([keep, react], oa, "update neither kept the target nor "
               "reacted with the configured safe state")
    if bad is None:
        return None
    # defect model: the reaction writes False instead of safeState
    dreact = (False, False, True)
    explained = oa == dreact
    return bad + (KF if explained else None,)


def explore(item, res):
    cfg, evs, maxdepth = item
    cfgkey = core.digest(cfg)

    def canon(rig, model):
        return (rig.observe(), rig.getbit(rig.open_at),
                rig.getbit(rig.closed_at), rig.hidden(cfg["mt"]),
                model.observe(), model.elapsed())

    rig, model, _ = run_history(cfg, [])
    res.count("traces_validated_against_impl")
    if rig.observe() != model.observe():
        res.violation(dict(cfg=cfg, history=[]), model.observe(),
                      rig.observe(), note="state after reset differs")
        return
    seen = {canon(rig, model): ()}
    frontier = [()]
    nstates = 1
    for depth in range(maxdepth):
        nxt = []
        for hist in frontier:
            for ev in evs:
                h2 = hist + (ev,)
                try:
                    rig, model, trace = run_history(cfg, h2)
                except core.Internal:
                    raise
                except Exception as e:
                    res.violation(dict(cfg=cfg, history=list(h2)),
                                  "no exception", repr(e),
                                  sig=core.digest([cfgkey, "exc", repr(e)]),
                                  note="device raised")
                    continue
                res.count("traces_validated_against_impl")
                res.count("transitions", len(h2))
                res.count("evaluations")
                ob, oa, mb, ma, kind = trace[-1]
                other = ev[0] == "other"
                if other:
                    res.count("updates_after_the_other_valve")
                    ev = ("update", None)
                if ev[0] == "update":
                    res.nontrivial.add(core.digest(
                        [cfgkey, seen_key(seen, hist), ev]))
                    res.outcomes.add((cfg["safe"], kind, oa))
                verdict = judge(cfg, ev, ob, oa, mb, ma)
                if verdict is not None:
                    exp, obs, what, kf = verdict
                    res.violation(
                        dict(cfg=cfg, history=list(h2)), exp, obs, kf=kf,
                        sig=core.digest([cfg["safe"], what, exp, obs]),
                        note=what)
                    if not cfg["safe"]:
                        continue    # model and device diverged: stop here
                c = canon(rig, model)
                if c not in seen:
                    seen[c] = h2
                    nstates += 1
                    nxt.append(h2)
        frontier = nxt
    res.count("states", nstates)
    res.sample(dict(cfg=cfg, states=nstates,
                    a_deepest_state=list(frontier[-1]) if frontier else None))


def seen_key(seen, hist):
    # histories are canonical representatives of their state (first found,
    # deterministic BFS order), so the history identifies the state
    return list(hist)


def configs(ctx):
    out = []
    for mt in (0.5, 5):
        for safe in (False, True):
            for layout in sorted(LAYOUTS):
                for coil0 in (False, True):
                    out.append(dict(mt=mt, safe=safe, layout=layout,
                                    coil0=coil0))
    return out


def selftest():
    """the model must implement the statement's corner cases"""
    cfg = dict(mt=5, safe=False, layout="adjacent", coil0=False)
    m = Model(cfg)
    for ev, exp in [
            (("target", True), (False, True, False)),
            (("adv", 5 - EPS), (False, True, False)),
            (("update", None), (True, True, False)),     # moving
            (("adv", EPS), (True, True, False)),
            (("update", None), (False, False, True)),    # exactly elapsed
    ]:
        m.apply(ev)
        if m.observe() != exp:
            raise core.Internal("model self-test failed at %r" % (ev,))
    m = Model(dict(cfg, coil0=True, safe=True))
    m.apply(("sw", (True, True)))
    m.apply(("adv", 5.0))
    m.apply(("update", None))
    if m.observe() != (True, True, True):
        raise core.Internal("model self-test (safe state) failed")


def run(ctx):
    selftest()
    saved = devices.monotonic
    try:
        maxdepth = 5 if ctx.quick else 6
        items = []
        for cfg in configs(ctx):
            items.append((cfg, events(cfg, ctx), maxdepth))
        # determinism: the first configuration twice
        a, b = core.Result(), core.Result()
        explore((items[0][0], items[0][1], 3), a)
        explore((items[0][0], items[0][1], 3), b)
        if (a.cov, sorted(a.nontrivial), len(a.violations)) != \
                (b.cov, sorted(b.nontrivial), len(b.violations)):
            raise core.Internal("exploration is not deterministic")
        res = core.pmap(ctx, explore, items, chunk=1)
    finally:
        devices.monotonic = saved
    res.cov["bound_completed"] = maxdepth
    res.cov["alphabet"] = dict(
        events=len(items[0][1]), moving_times=[0.5, 5], eps=EPS,
        layouts=sorted(LAYOUTS), configs=len(items), max_depth=maxdepth)
    res.assumptions += [
        "'the position the coil commands' = the coil output in the process "
        "data before the update; coil on commands open, coil off commands "
        "closed (Valve docstring)",
        "'switches confirm' = exactly the switch of the commanded position "
        "is on",
        "'has not elapsed' = now - t < movingTime (at exactly movingTime it "
        "has elapsed); t is the last update with confirming switches, or "
        "the reset",
        "safeState=True: only the error reaction is judged (update is KEEP "
        "or REACT-with-safeState; error rises only with REACT; never falls)",
        "error is sticky; after a reaction the target is the safe state and "
        "the rule simply continues to apply",
    ]
    return res


def replay(ctx, rep):
    saved = devices.monotonic
    try:
        c = rep["case"]
        cfg = c["cfg"]
        hist = [(k, tuple(a) if isinstance(a, list) else a)
                for k, a in c["history"]]
        res = core.Result()
        rig, model, trace = run_history(cfg, hist)
        for ev, (ob, oa, mb, ma, kind) in zip(hist, trace):
            print("  %-28r device %s -> %s   model %s -> %s %s" % (
                ev, ob, oa, mb, ma, kind or ""))
            verdict = judge(cfg, ("update", None) if ev[0] == "other"
                            else ev, ob, oa, mb, ma)
            if verdict is not None:
                exp, obs, what, kf = verdict
                res.violation(c, exp, obs, kf=kf, note=what)
                if not cfg["safe"]:
                    break
        return res.violations
    finally:
        devices.monotonic = saved
