#!/usr/bin/env python3
"""print /verif/seeded/*/meta.json as a markdown table (DESIGN.md section 10)"""
import glob, json, os
HERE = os.path.dirname(os.path.dirname(os.path.abspath(__file__)))
print("| Seed | Property | Change (needs to manifest) | Caught by | Violation reported |")
print("|---|---|---|---|---|")
for d in sorted(glob.glob(os.path.join(HERE, "seeded", "*"))):
    try:
        m = json.load(open(os.path.join(d, "meta.json")))
    except Exception:
        continue
    v = m.get("verified_by_lead", {})
    caught = ", ".join(v.get("caught_by", [])) or "**not caught**"
    if m.get("check_tier") == "thorough":
        caught += " (thorough tier)"
    notes = []
    for p, c in v.get("checks", {}).items():
        if c.get("exit") == 1:
            notes += c.get("notes", [])[:1]
    if m.get("obsolete"):
        caught = "obsolete"
        notes = [m["obsolete"]]
    elif m.get("rebased"):
        caught += " (re-applied after a fix)"
    summ = (m.get("summary", "") or "").replace("\n", " ").replace("|", "/")
    need = (m.get("needs_to_manifest", "") or "").replace("\n", " ").replace("|", "/")
    print(f"| {os.path.basename(d)} | {m.get('property')} | {summ[:150]} "
          f"(*{need[:140]}*) | {caught} | {(notes[0] if notes else v.get('note', ''))[:90]} |")
