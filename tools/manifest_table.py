# table of claimed checks; exec'd by gen_manifest.py
HOOK_COMMITS = []
NOT_APPLICABLE = {}
NOTES = ("All checks are bounded exhaustive explorations driving the real "
         "ebpfcat code (or the bytecode it generated); see DESIGN.md. "
         "Exit codes: 0 held, 1 VIOLATION, 2 INTERNAL (harness problem). "
         "known_findings.jsonl lists genuine defects kept as findings.")

check("C11", "explore",
      "exhaustive enumeration of datagram sequences, independent frame parser",
      "Every datagram sequence over the stated alphabet (all 15 commands, 7 "
      "address shapes, data lengths 0..1473 at depth 1; 40-54 datagram kinds "
      "at depth 2-4 including exactly-fitting and just-too-large datagrams; "
      "13-17 datagram count-limit sequences) is fed to the real "
      "Packet/SterilePacket and the assembled bytes are parsed and compared "
      "with an independent serialiser. Exhaustive within the alphabet.",
      "Trusted: mc/ecparse.py (independent parser), struct. Count limit "
      "taken as 15 user datagrams as in the code.")

check("C01", "bpfvm",
      "bounded exhaustive program x operand enumeration, independent eBPF "
      "interpreter + kernel differential, big-integer reference",
      "All expression trees over the stated leaf/operator/destination "
      "alphabet (depth 1 complete; depth 2 on representative leaves; "
      "register chains of depth 3-6 that exhaust the allocator) are compiled "
      "by the real DSL; the assembled bytes run in an independent eBPF "
      "interpreter on every operand vector from a boundary alphabet and the "
      "stored value is compared with exact big-integer arithmetic under the "
      "statement's precondition (strictest reading). Every 5th/7th program "
      "is also run by the real kernel and must agree with the interpreter.",
      "Trusted: mc/bpfvm.py (bound to the kernel by the differential runs), "
      "the oracle in harness/c01_intexpr.py. Operand values come from a "
      "boundary alphabet plus seeded values, not all 2^64.")

check("C27", "explore",
      "explicit-state BFS over event histories on the real Valve, reference model",
      "All histories of <= 5 (quick) / 6 (thorough) events after reset() "
      "(target changes, the 4 switch readings, clock advances around the "
      "moving time, update()) for 16 configurations (moving time x safeState "
      "x bit layout x initial coil) drive the real Valve.update on a real "
      "SyncGroup frame with a virtual monotonic clock; states are rebuilt by "
      "replay and deduplicated on (observables, switches, collapsed elapsed "
      "time, model state); every update is judged by a reference model "
      "written from the statement.",
      "Trusted: the reference model's reading of 'switches confirm the "
      "position the coil commands' (documented in the harness); "
      "ebpfcat.devices.monotonic is the only clock.")
check("C28", "explore",
      "exhaustive enumeration of terminal handshake behaviours on the real "
      "Serial.update with real pipes",
      "Three script families (transmit exhaustive: <= 3 application writes "
      "with lengths {1,21,22,23,45}, all accept-latency patterns with k = 2; "
      "receive exhaustive: <= 3 announcements, all 24 initialisation "
      "behaviours; both directions simultaneously) run the real "
      "Serial.update once per cycle against an independent EL6002 handshake "
      "model; byte streams, toggle counts and out_string stability are "
      "checked every cycle.",
      "Trusted: the harness's EL6002 terminal model (written from the "
      "PacketDescs and the Beckhoff handshake description).")
check("C29", "explore",
      "exhaustive enumeration of device-variable declarations; real spawned "
      "child processes",
      "All device classes with 1-3 DeviceVars over 10 formats x instance "
      "patterns (370 configurations quick, 2009 thorough) are put on a real "
      "ProcessSyncGroup; storage ownership is measured black-box (probe "
      "writes), every format round-trips boundary values in-process and "
      "between the parent and really spawned children (pickled the way "
      "ProcessSyncGroup.start does).",
      "start()/subprocess_run are not executed (need SCHED_RR and a NIC): "
      "the child runs harness code around the real descriptors.")

check("C12", "vloop+explore",
      "stateless deviation-bounded DFS (CHESS-style) over the real send/receive "
      "machinery on a virtual asyncio loop",
      "The real EtherCat.sendloop / process_packet / roundtrip_packet / "
      "roundtrip / datagram_received run on a virtual event loop against a "
      "fake transport. For each workload (1-3 requests with payload sizes "
      "{2,700,1400,1472,1473}, submitted up front or later, cancellation "
      "allowed or not; 17 tiny requests for the count limit) every execution "
      "with at most 2 (quick) / 3 (thorough, <= 2 requests) deviations from "
      "the default environment is enumerated: early/late submission, "
      "cancellation at any iteration boundary, frame loss, duplication, "
      "overtaking, working counter 0 per datagram, colliding frame index. "
      "Frames on the wire are parsed independently; every request's outcome "
      "must be the one its own datagram determines; a busy loop is detected "
      "deterministically (more than 64 tasks/frames within one iteration).",
      "Schedules are those asyncio can produce (FIFO callbacks, external "
      "events between iterations). A fresh frame index is never a previously "
      "used one (10^9 range); index collisions with in-flight frames are "
      "explored.")

check("C13", "vloop",
      "exhaustive enumeration of argument lists through the real roundtrip "
      "stack, independent struct reference",
      "Every argument list of <= 3 format groups (7-9 formats incl. padding "
      "and multi-value formats, each with values, the last optionally "
      "read-only) x raw data in {None, 0, 3, b'', 1, 3, 40 bytes} x 2 "
      "commands is sent through the real EtherCat.roundtrip / sendloop / "
      "process_packet on the virtual loop; the payload found on the wire by "
      "the independent frame parser and the returned value are compared with "
      "a little-endian struct reference.",
      "Default environment only (one frame, echoing position-coded bytes); "
      "timing is C12's business.")
check("C14", "vloop+bussim+explore",
      "exhaustive enumeration of terminal behaviours, reference automaton "
      "over the observed register traffic",
      "For every start state (INIT, PRE-OP, SAFE-OP, OP) x error flag x "
      "target, the real Terminal.to_operational/get_state run through the "
      "real roundtrip stack on the virtual loop against the ESC model; the "
      "explorer decides at every AL status poll whether the pending "
      "transition stays (<= k polls, k=2 quick / 3 thorough), is reached or "
      "fails (at most one error); ALL such behaviours are enumerated and "
      "the sequence of AL control writes / AL status reads and the outcome "
      "are judged by a reference automaton written from the statement.",
      "The terminal model never reports a state that was not requested; "
      "BOOTSTRAP is excluded as the statement says.")

check("C08", "bpfvm",
      "exhaustive enumeration of declaration sets; simulated bpf() + eBPF "
      "interpreter; real-kernel differential",
      "All multisets of <= 3 (quick) / 4 (thorough) array-map variable "
      "declarations over 13 formats x 6 places (base class, derived class, "
      "re-declaration, two instances of one subprogram class, a second "
      "subprogram class) are laid out by the real ArrayMap.collect; positions "
      "must be disjoint and inside the map; values written from Python are "
      "read by the generated program (run in the interpreter) and vice versa "
      "(fixed-point as decimals, multi-element formats as tuples, per-CPU "
      "maps with 4 possible/online CPU settings). 427 cases are re-run "
      "unpatched on the real kernel and must agree.",
      "Trusted: mc/simkernel.py (self-tested against the real kernel by a "
      "105-step script on every run), mc/bpfvm.py.")
check("C09", "bpfvm",
      "explicit-state BFS over operation sequences from both sides; "
      "simulated bpf() + interpreter; real-kernel differential",
      "71 (quick) / 325 (thorough) hash-map variable and Dict configurations "
      "(formats x defaults; packed Structure key/value definitions, size 2/31, "
      "LRU on/off); breadth-first search to depth 3/4 over Python operations "
      "(set, get, pop, del, iterate, values) and program operations "
      "(update with ANY/NOEXIST/EXIST, lookup+Else, modify in lookup, hash "
      "variable set/copy/read), deduplicated on map contents, against a "
      "plain-dict reference. Every 3rd/4th configuration is replayed edge "
      "by edge on the real kernel (14159 edges in quick) and must agree.",
      "LRU eviction order is accepted as any subset vanishing before the "
      "operation acts (as the real kernel behaves). Trusted: mc/simkernel.py.")
check("C10", "bpfvm",
      "exhaustive enumeration of user-space map operations under a "
      "buffer-length monitor inside the simulated bpf()",
      "Every Python-side map operation (hash variable get/set for 9 formats "
      "incl. load() defaults, array variables via mmap, per-CPU read() with "
      "(possible, online) in {(1,1),(2,2),(16,16),(19,16)}, every Dict "
      "operation breadth-first to depth 3) runs against a simulated bpf() "
      "that knows the length of every registered user buffer and reports "
      "any command whose key/value buffer is shorter than the kernel would "
      "read or write; it never performs the overrun.",
      "Trusted: mc/simkernel.py's decoding of union bpf_attr per command "
      "(bound to the real kernel by its self-test).")
check("C19", "bpfvm",
      "exhaustive enumeration of variable kinds x layouts; Python path vs "
      "generated program differential + struct reference",
      "A fake terminal with 87 process variables per direction (a bit at "
      "every position, B H I Q aligned and unaligned, signed/size/bit "
      "overrides, PacketDescs, Struct channels with sm/coe offsets), devices "
      "linking 1-3 variables, 6 frame layouts (FMMU/direct, neighbours), "
      "read / write from a DeviceVar / write a constant, three frame "
      "contents and boundary values: each case runs on the Python path "
      "(slow SyncGroup) and as generated fast-group program in the "
      "interpreter on the same bytes; both are compared with struct/bit "
      "masks and with each other.",
      "Region starts come from the real allocate() (their correctness is "
      "C18's business), cross-checked against the parsed frame for direct "
      "terminals.")
check("C21", "bpfvm",
      "explicit-state BFS over dispatcher states; every transition executes "
      "the real generated dispatcher + group bytecode",
      "Shares C22's explorer: state = (loop counter low byte, output enabled, "
      "overtaking budget, queue of <= 3 in-flight frames with index byte, "
      "writer command bytes and counters). C21's invariants are evaluated on "
      "every transition: frames leave user space sterile, activation touches "
      "exactly the writer command bytes / counters / wkc_errors / device "
      "outputs and only in a pass that ran the group program with output "
      "enabled, no frame is returned to the bus with an enabled writer "
      "unless processed in that pass. Every distinct step is replayed "
      "through BPF_PROG_TEST_RUN on the real kernel.",
      "Complete in ring order for <= 3 frames; out-of-order delivery "
      "bounded by the overtaking budget K (1 quick, 3 thorough).")
check("C22", "bpfvm",
      "explicit-state BFS over dispatcher states; every transition executes "
      "the real generated dispatcher + group bytecode",
      "All reachable states of (loop counter mod 256, <= 3 in-flight frames "
      "in ring order, losses, injections of real sterile frames, bus "
      "counters in {expected, expected-1, 0}, 7 foreign frames) for 3 "
      "(quick) / 9 (thorough) datagram layouts x registered/unregistered; "
      "out-of-order delivery with overtaking budget K <= 1 / 3. Invariants: "
      "XDP action TX or PASS only, foreign frames byte-identical, "
      "unregistered groups reach user space with the right ethertype and "
      "never circulate on deliveries alone, registered groups never see "
      "more than two consecutive frames without the group program. Every "
      "distinct VM step is also executed by the real kernel and must agree.",
      "The unrestricted any-order space is not enumerable (index drift); "
      "behaviours in which one frame is overtaken more than K times are "
      "excluded. One known finding (starvation after overtaking).")
check("C26", "bpfvm",
      "exhaustive product of boundary alphabets through the real generated "
      "Motor program; reference control law; path coverage",
      "The real Motor.program inside a real FastSyncGroup over fake EL7041 / "
      "encoder terminals (FMMU and direct) runs in the interpreter for the "
      "full product of velocity limit x previous velocity x acceleration "
      "limit x gain x switches x distances that put gain*(target-position) "
      "on, just below and just above every threshold of the law and the "
      "16/32/64-bit edges (1.85e5 runs quick, 2.9e6 thorough); all 9 "
      "branches are taken both ways (60 paths per configuration); every "
      "53rd vector also runs in the real kernel.",
      "The statement quantifies over all bit-vectors; this decides it for "
      "the boundary alphabet product and all control-flow paths only. "
      "Inputs are read in their declared formats (unsigned 32-bit "
      "DeviceVars).")
check("C25", "vloop+bussim+explore",
      "stateless DFS over all randint answers and bounded delivery-order "
      "deviations on the real address-assignment code",
      "Buses of 2-3 (quick) / 2-4 terminals (pre-assigned inside/outside the "
      "range or unaddressed) x workloads (concurrent Terminal.initialize, "
      "scan_serial_numbers, both): the real find_free_address / "
      "assigned_address / scan_serial_numbers / initialize run on the "
      "virtual loop against ESC models with SII images; the address range "
      "is shrunk to 5 addresses and every randint answer is a free explorer "
      "choice so that collisions are forced; delivery-order deviations are "
      "bounded (1 quick / 2 thorough). Every station-address write is "
      "checked: inside the range, never handed out twice, never an address "
      "at which another terminal answers.",
      "Capped at 3000 (quick) / 40000 executions per configuration; caps are "
      "reported in the evidence.")
check("C20", "vloop+bussim+explore",
      "explicit-state search over map/unmap sequences through the real "
      "context manager",
      "All sequences of map(read) / map(write) / unmap(i-th live mapping) up "
      "to length 5 (quick) / 6 on terminals with 1-4 FMMUs run through the "
      "real Terminal.map_fmmu __aenter__/__aexit__ over the roundtrip stack "
      "against the ESC model; states are rebuilt by replay and "
      "deduplicated on (FMMU registers, live set, slot table). Invariant on "
      "the model's FMMU registers: every live mapping stays programmed in "
      "exactly one active FMMU, only live mappings are active.",
      "A mapping attempt may fail for any reason (the statement only "
      "forbids reuse).")
check("C30", "vloop+bussim+explore",
      "stateless deviation-bounded DFS over cycles of the real slow sync "
      "group on the bus model",
      "Six terminal sets (1-3 cyclic datagrams: FMMU in, FMMU out, direct) "
      "run the real SyncGroup.start/run/update_devices incl. map_fmmu and "
      "state changes on the virtual loop over the bus model for 3 cycles; "
      "input pattern per cycle is a free choice (3), wrong working counters "
      "per datagram (expected+1, expected-1, 0) and late frames (timeout path) are "
      "deviations (bound 2 quick / 3 thorough; 1.0e5 executions quick). A "
      "recording device checks: inputs seen = latest response, outputs of "
      "cycle n reach the terminals with the next frame, counters zero in "
      "resent frames, wkc_errors grows exactly by the number of mismatching "
      "datagrams from the second cycle on.",
      "A frame passes the terminals when it is sent; only its return may be "
      "late.")

check("C18", "vloop+bussim",
      "exhaustive enumeration of terminal sets through the real allocator, "
      "independent frame parser, FMMU mapping executed on the bus model",
      "All sequences of <= 2 (quick) / 3 (thorough) terminals over 64 kinds "
      "(input size x output size from {0,1,7,700} x read-write x "
      "FMMU/direct), large single terminals up to the exact frame limit, "
      "4-terminal sequences over sizes {0,2}, 7-16 direct terminals (count "
      "limit), an Aerotech-style terminal, and 2-3 sync groups on one master "
      "run through the real allocate(); the cyclic frame is parsed "
      "independently: each region lies inside the datagram that transports "
      "it (right command/address), has exactly the terminal's size, regions "
      "are disjoint and tile the logical datagrams; the real map_fmmu() "
      "register writes are executed against the ESC models and "
      "position-coded inputs/outputs pushed through the bus model must "
      "arrive exactly in the regions; logical windows of different groups "
      "are disjoint; groups are rejected exactly when the frame they need "
      "exceeds 1500 bytes / 15 datagrams.",
      "Only EtherCat.get_fmmu_addr (single process) is used here; the "
      "cross-process FMMULock allocator is C23's subject.")
check("C04", "bpfvm",
      "exhaustive enumeration of program shapes x statements; static "
      "disjointness + dynamic whole-memory snapshot observer",
      "696 (quick) program shapes (main locals from 6 kinds in all sequences "
      "up to 2/3, Dict before/after/absent, array-map, hash-map and packet "
      "variables, 0-2 subprogram classes in 3 instance layouts) x ~95 "
      "statements each (constants, copies, register expressions, hash-map "
      "reads/writes with spills, ktime/prandom, in-place adds, run-time bit "
      "writes, Dict update/lookup) executed in the interpreter: all "
      "variables are pre-filled with sentinels by raw instructions, the "
      "whole memory (stack, packet, maps) is snapshotted before/after the "
      "statement, changed bytes must belong to the target or to no declared "
      "variable and every other variable must read back its sentinel; "
      "descriptor-reported ranges and recorded temporaries must be disjoint.",
      "Frames of different subprograms overlay each other by construction "
      "(pinned by the suite's test_local_subprog): subprogram locals are "
      "judged only in their own program() context.")
check("C06", "bpfvm",
      "explicit-state search over ALL instruction-level interleavings of 2-3 "
      "program instances sharing memory",
      "For 1592 (quick) configurations (9 memory kinds x formats I i Q q x x "
      "8-10 amount forms) x initial values {0,1,max,max-1,sign bit} the "
      "compiled statement `var += amount` / `-=` is executed by 2 and 3 "
      "interpreter instances with private registers/stacks and shared "
      "packet/map memory; the search enumerates every reachable (pc, "
      "registers, shared bytes) state with exact dedup, i.e. all "
      "interleavings at instruction granularity; at every terminal state "
      "the variable equals initial + sum of amounts and no other shared "
      "byte changed.",
      "Atomicity of XADD itself is an axiom of the interpreter (as of the "
      "hardware); sequential consistency is assumed. Variables declared "
      "with a byte-order prefix are outside the statement (not XADD'd).")
check("C07", "bpfvm",
      "exhaustive enumeration of access paths x offsets x formats x packet "
      "lengths; struct reference; real-kernel differential",
      "Real XDP subclasses with 6 access paths (PacketVar and pB/pH/pI/pQ "
      "under minimumPacketSize, p.pX inside packetSize > >= < <= blocks), "
      "guards {16,24}, offsets across the guarded range, formats B H I Q b "
      "h i q x orders native < > !, reads into 4 register kinds and 8 local "
      "formats, writes of constants/registers/locals, in-place += -= |= &=; "
      "each program runs on packet lengths guard-2..guard+9, 14 and 1514 "
      "with 8 content patterns (2.65e6 runs quick, 1.66e7 thorough); oracle "
      "struct.unpack_from/pack_into on a copy, all other bytes unchanged, "
      "body runs iff the length satisfies the guard, any access beyond "
      "data_end traps. ~0.24e6 runs are repeated in the real kernel.",
      "Out-of-range written values are judged only for untouched bytes; "
      "sw sources widened to 8 bytes are C01's known finding.")

check("C24", "vloop+bussim+explore",
      "crash-point enumeration: cancellation before every driver step of the "
      "real sync-group tasks",
      "The real SyncGroup / FastSyncGroup / ProcessSyncGroup are started on "
      "the virtual loop over the bus model (fast groups over the simulated "
      "bpf() program table, process groups with a model child and "
      "os.pidfd_open / Process as seams) for 5 terminal sets and driven "
      "through 3 cycles; the task is cancelled before EVERY driver step "
      "(loop iteration, frame delivery, timer jump: ~60 points per run) on "
      "the default schedule and with one late frame (timeout path); "
      "afterwards the bus keeps answering until the task finished. Oracle: "
      "task ends cancelled (no other exception, nothing unretrieved), every "
      "terminal that got an OPERATIONAL request gets a SAFE-OPERATIONAL "
      "request afterwards, all FMMU slots free, program-table entry gone "
      "(fast), running flag cleared and child exit awaited (process). A "
      "group kind with zero reachable cancellation points is an INTERNAL "
      "error (vacuity guard).",
      "'FMMUs freed' is judged on the master's slot tables. "
      "subprocess_run is not executed; the child is a model.")

check("C02", "bpfvm",
      "bounded exhaustive program x operand enumeration with Fraction "
      "reference; complete enumeration of all 100000 five-digit decimals",
      "Mixed fixed-point/integer expression trees (x registers, x locals, "
      "integer leaves, 8 float constants + 1 seeded; + - * / // %, both "
      "orders, comparisons; destinations x and integer; depth 1 complete, "
      "depth 2 on representatives) are compiled by the real DSL and executed "
      "in the interpreter on boundary vectors; oracle = set-valued Fraction "
      "arithmetic (truncation or floor accepted) under the statement's "
      "precondition. EVERY k/100000, k in 0..99999 (3 sign/integer-part "
      "variants quick, 10 thorough) goes through Constant() in four code "
      "positions and through ArrayGlobalVarDesc.__set__/unpack and must be "
      "represented exactly.",
      "Known findings: signed division lowered to unsigned, 32-bit "
      "computation forced by a small left constant, sw zero-extension "
      "(shared with C01).")
check("C03", "bpfvm",
      "exhaustive enumeration of condition trees x block skeletons x truth "
      "assignments; interpreter + kernel differential",
      "Atoms (six comparisons over registers, locals of all formats, 17 "
      "constants incl. floats, bit fields, expr & mask, bare with) in three "
      "settings on boundary pairs; all ~ & | tree shapes over 1-3 atoms "
      "(3/16/256 shapes) with all 2^n truth assignments and body/Else "
      "lengths {0,1,3,5}; block skeletons of depth 1-2 (quick) / 3 with "
      "sequences, 6 condition patterns, all truth assignments of up to 9 "
      "atoms. Every body and Else leaves a marker (flag byte + ordered log) "
      "and a trailing marker proves continuation; the oracle evaluates the "
      "condition trees exactly and interprets the block structure. 358k "
      "evaluations quick, 2.7M thorough; every ~7th-11th program also runs "
      "in the kernel.",
      "Strictest 'fits W' reading; generator crashes (AssertionError etc.) "
      "count as violations, deliberate refusals do not. One known finding "
      "(narrow signed right operand zero-extended, pinned by the goldens).")
check("C15", "vloop+bussim+explore+simos",
      "stateless deviation-bounded DFS over task interleavings on the real "
      "mailbox code against a CoE server model",
      "Cross-process half: 2-3 processes under the simos baton scheduler "
      "run the unmodified LockFile.__init__ (directly and via pickle), "
      "get_mbx_lock, ParallelMailboxLock and the real Terminal.sdo_read / "
      "sdo_write / read_object_entry against one shared terminal + SDO "
      "server; every file/lockf operation of ebpfcat.lock and every "
      "datagram is a scheduling point; lock file absent (creation window) "
      "or left with counter 6/7 (wrap); quick: complete for 2 processes x 1 "
      "exchange, thorough: 2 x 2 exchanges complete, 3 processes complete / "
      "preemption-bounded, one crash (52k states). "
      "In-process half: multisets of 2-3 tasks (1-2 exchanges each from "
      "sdo_read, sdo_write, read_object_entry) on one Terminal with the real "
      "MailboxLock, warm-up exchanges so that the counter wraps; explorer "
      "choices: holding back each task start, delivery order of in-flight "
      "frames, response latency 0..2 polls; bound 2 (7.7k executions quick) "
      "/ 3. Oracle on the mailbox traffic the terminal model sees: counters "
      "follow the successor chain 1..7 (first may be 0), no request is "
      "written while another user's exchange is open, each user gets its own "
      "result.",
      "Two tasks of one process together with a second process in a single "
      "run are not modelled (the same-process case is covered in-process, "
      "with MailboxLock and ParallelMailboxLock). lockf/open/pread/pwrite "
      "are atomic steps.")
check("C16", "vloop+bussim",
      "exhaustive enumeration of value lengths x mailbox sizes x transfer "
      "kinds against an ETG.1000.6 SDO server model, bounded deviations",
      "Direction x subindex/complete access x mailbox sizes {24,32,64,128} "
      "(out and in) x EVERY length from 0 to first-segment capacity + 2 "
      "segments + 8 x server style x response latency 0..2 polls x one "
      "unrelated mail (emergency/EoE) before any response (bound 1 quick: "
      "45k executions; bound 2-3 thorough: 450k) through the real "
      "sdo_read/sdo_write/mbx_send/mbx_recv. Oracle: the server's object "
      "holds exactly the written bytes / sdo_read returns exactly the "
      "server's bytes, toggle bits alternate from 0, every mail fits the "
      "mailbox, the server records no protocol error or abort.",
      "Trusted: mc/coe.py (self-tested against the captured EEPROM/SDO data "
      "of real terminals in the repository's testdata.py).")
check("C17", "vloop+bussim",
      "exhaustive enumeration of SII images and busy durations against an "
      "ETG.2010 reference layout",
      "All category-list shapes (0-2 categories quick / 0-3 thorough: 118k "
      "shapes; types from 8, word lengths {0,1,2,3,4,5,9}), 4- and 8-byte "
      "SII reads, busy polls at each of the three polling loops as explorer "
      "choices, through the real read_eeprom/_eeprom_read_one; all 341 "
      "sync-manager sequences and all PDO shapes (bit entries, padding, "
      "8-64 bit entries, assigned/unassigned) through parse_sync_managers / "
      "parse_pdos, via the EEPROM and via the SDO source (0x1C12/0x1C13 on "
      "the SDO server model). Oracle: identity fields, eeprom dict, "
      "sync-manager attributes and every PDO entry equal the generating "
      "image.",
      "Trusted: mc/coe.py's SII builder (rebuilds the six real EEPROM dumps "
      "of testdata.py byte for byte).")

check("C05", "bpfvm",
      "bounded exhaustive enumeration of generated programs, each loaded "
      "into the real kernel (the verifier is the oracle)",
      "Every program of the C01-C04, C06-C09 enumerators (deterministic 1/k "
      "slices, rotated by the seed, k recorded) plus dedicated families "
      "(hash-map variables as source/destination/in conditions x formats x "
      "register contexts, Dict update/lookup with and without Else and "
      "modify-in-lookup with r0 owned/unowned, ktime/prandom in expressions "
      "and conditions, subprograms with locals and array variables, locals "
      "filling 480..520 stack bytes, all packetSize guard forms) and the "
      "library's own programs (EtherXDP over a real PROG_ARRAY, "
      "FastSyncGroup with all bundled devices over faked terminals in FMMU, "
      "direct and mixed layouts) is assembled by the real generator and "
      "loaded with BPF_PROG_LOAD: 23k loads quick, ~230k thorough. A "
      "generator refusal is counted, a verifier rejection is a violation "
      "with the verifier log tail.",
      "The verdict is that of this sandbox's kernel (6.18, root). Without "
      "bpf() the check reports kernel_available=false and exits 0 (no "
      "mini-verifier was built). Constant shifts >= width and locals beyond "
      "512 bytes are outside the statement's side conditions. Three known "
      "findings (atomic add into packet memory, temporaries below a full "
      "stack, Else after an unconditional exit).")

check("C23", "simos",
      "explicit-state search over interleavings of real participants on a "
      "simulated POSIX / bpf / netlink layer under a baton scheduler",
      "2-3 participants run the real ParallelEtherCat.run (start, one "
      "get_fmmu_addr, stop), get_ethertype, FMMULock, LockFile and the real "
      "XDP.attach/detach coroutines on threads under a baton; every "
      "simulated file-system / lockf / bpf / netlink call is a scheduling "
      "point (29 per participant); randrange answers (2 ethertypes, 3 FMMU "
      "slots) are choice points; a participant blocked on a lockf held by "
      "another is disabled (deadlock = nobody enabled). Quick: 2 "
      "participants with <= 2 preemptions, a restart space (3 sessions), "
      "the complete 2- and 3-participant FMMU sub-protocol (55k states, 92k "
      "executions). Thorough: complete 2-participant space with one crash, "
      "3 participants with <= 2 preemptions, 2.0M executions. Invariants at "
      "every state: at most one installer at a time, dispatcher attached "
      "and the running participants' program table pinned while anyone "
      "runs, distinct ethertypes, disjoint logical windows.",
      "lockf, rename, O_EXCL, rmdir are atomic steps of the model (as in "
      "POSIX), validated by a conformance self-test against a real "
      "directory. Two known findings (last-leaver race, stale-table "
      "joiner).")


# coverage added when seeded changes showed a gap (DESIGN.md section 10)
ADDED.update({
    "C02": "memory destinations include byte-order-prefixed integer "
           "variables (>H >I !q <I <h).",
    "C03": "trees whose atoms share an operand register, bodies ending in "
           "exit(code) (the return value is observed), else-if chains of "
           "length 2-3 (with A as Else / with Else, B as Else / with Else), "
           "nested and sequenced.",
    "C07": "locals with a byte-order prefix (>H >i !Q <h <I quick; all 24 "
           "thorough) are sources and destinations of the copies too.",
    "C08": "a further family declares byte-order-prefixed variables (>H >q "
           "<I !i >B <Q) alone, in pairs and next to plain ones.",
    "C10": "hash maps with 255/256/257 (thorough also 254/300/513) variables "
           "around the one-byte key boundary; Dict operations include the "
           "MutableMapping mix-ins popitem clear items get setdefault in.",
    "C15": "one cancellation of a task that waits for the lock per execution "
           "(its own CancelledError is accepted, nobody else may be "
           "disturbed); cross-process: two terminals with their own lock "
           "bytes and two tasks per process.",
    "C17": "gap entries (index 0) of 1/4/8/12/13/16 bits at bit positions 0, "
           "3 and 4.",
    "C19": "bits are written with 0, 1, 2, 0x10, 0x80 and 0x100 (any "
           "non-zero value sets the bit).",
    "C20": "logical addresses start at 0 or 0x100; one (thorough: two) "
           "operations per sequence hit an injected bus fault, and one (two) "
           "steps start two operations at once, in both orders; the master's "
           "slot table must hold exactly the live mappings.",
    "C21": "user-space half: the real FastSyncGroup.run / update_devices / "
           "roundtrip_packet / sendloop run on the virtual loop for every "
           "layout against all 3^6 (quick) / 3^8 answer sequences of {frame "
           "processed by the real group bytecode, frame untouched, no answer "
           "in time}; every frame handed to the transport must have all "
           "write datagrams disabled. Expected working counters are counted "
           "from the terminals, not read from SterilePacket.counters.",
    "C22": "every step is repeated with the random helper answering 0, "
           "0xffff and 0x10000: at drop rate 0 the outcome must not depend "
           "on it. Slow-path indices equal to the group number in their low "
           "8/16/31 bits are among the foreign frames (10 kinds).",
    "C25": "two allocate-first workloads (three concurrent / three "
           "sequential find_free_address calls) judge the returned addresses "
           "directly; every function of the random source used by "
           "ebpfcat.ethercat is answered by the harness (mc/seams.py).",
    "C28": "announced chunks of length 0.",
    "C29": "formats include the native-size ones l L and the padded hI BI; "
           "configurations also run after a history (plain values assigned "
           "to the variables while the device was in no group; devices that "
           "were in another group before).",
    "C30": "every terminal set also runs after a sync group of a different "
           "layout was laid out in the same process.",
})


# third round of additions (DESIGN.md section 10, third wave)
def _more(pid, text):
    ADDED[pid] = (ADDED[pid] + " " if pid in ADDED else "") + text


_more("C01", "operand registers are read back raw after every statement (an "
      "assignment changes its destination only); memory operands at "
      "addresses computed at run time (base + offset register).")
_more("C03", "every comparison of a bit field (1-5 bits wide, all positions) "
      "with every constant 0..2^bits and True/False on every field value, "
      "surrounding bits all-0 and all-1.")
_more("C04", "statements inside a Dict lookup block (body and Else) followed "
      "by member accesses of the looked-up value; histories in which the "
      "same main program class was instantiated before with other "
      "subprograms; hash-map variable <- hash-map variable.")
_more("C05", "the program kinds added to C01 C03 C04 C06 C07 C08 C09 since "
      "(computed addresses, else-if chains, exit bodies, bit-field "
      "comparisons, lookup blocks, class histories, zero amounts, "
      "multi-guard programs, two maps, prefixed formats) are loaded too; "
      "adapter signatures are checked and every re-used family must yield "
      "programs.")
_more("C06", "amount 0 (int, 0.0, register, local) next to the non-zero "
      "amounts; instances run different statements on one variable; one or "
      "two statements per program.")
_more("C07", "constants 2^k-1, 2^k, -2^k, -2^k-1 for k = 7 8 15 16 31 32 63 "
      "and their byte-swapped images for prefixed formats; forests of 1-3 "
      "packet-size guards (nested in body or Else, sequential, with and "
      "without `as p`, outer Else used after the inner guard, under "
      "minimumPacketSize) on every length within 2 of every guard value.")
_more("C08", "two maps per program (ArrayMap + PerCPUArrayMap in both orders, "
      "two of one kind), each map's bytes judged separately; two live "
      "instances of one program class with different subprograms.")
_more("C09", "operations that collect keys / items first and use them "
      "afterwards; 2-3 live instances of one program class (and closed / "
      "re-created ones) with interleaved operations, each judged against "
      "its own model; byte-order-prefixed hash-map variables and Dict "
      "members.")
_more("C10", "byte-order-prefixed hash-map variables; histories of two "
      "programs with close() in between (the simulated kernel recycles "
      "descriptor numbers lowest-first; a clean EBADF is no overrun).")
_more("C12", "an index that is free again (no copy of its frame on the wire) "
      "may be drawn again as a deviation; every function of the random "
      "source is the harness's.")
_more("C15", "exchanges the CoE model refuses (missing object / sub-index, "
      "read-only entry), after which the counter chain must go on; "
      "participants owning a second LockFile copy (second constructor call, "
      "pickle round trip) that is dropped at an explorer-chosen point; "
      "object lifetime is part of the execution (cyclic collector off while "
      "it runs, collected before its world is torn down).")
_more("C17", "the same Terminal object decoding two sync-manager categories "
      "one after the other (all pairs of sequences of <= 2 / <= 3 areas).")
_more("C18", "masters whose logical windows come from a real FMMULock (2-4 "
      "groups, also groups larger than 0x400 bytes).")
_more("C19", "every single-variable case also after a terminal of the same "
      "class with another PDO table (other widths and bit numbers) had the "
      "same variables resolved.")
_more("C20", "an input and an output mapping at the same logical address.")
_more("C21", "working counters that equal the expected one in their low 8 / "
      "15 bits; the life cycle of one or two fast groups (real run / "
      "register_sync_group / update_devices on the virtual loop, every frame "
      "through the real dispatcher and group bytecode) with loss, time-out, "
      "wrong counters, cancel() and running=False as deviations, including "
      "the passes between cancellation and unregistration.")
_more("C22", "the same life cycle with two masters sharing one program table "
      "and random group numbers from a domain of three, so that slot "
      "collisions are forced: a registered group's slot holds its own "
      "program, and the group is run again after every loss.")
_more("C24", "a second group of the same master, started before or after the "
      "group under test, keeps running and must not notice the cancellation "
      "(state requests, program table slot); the second registration of an "
      "execution first draws the number of the first.")
_more("C25", "an address reserved ahead of its use followed by a scan (and "
      "concurrently with it); a frame slower than a pending time-out is a "
      "deviation whenever a timer is pending.")
_more("C28", "two Serial devices in one sync group (both channels of one "
      "terminal, channels of two terminals), each channel judged separately; "
      "a Serial abandoned with unsent bytes followed by a fresh one.")
_more("C29", "write=True variables; the write history P a, C b, P a, C b, C "
      "b, P b, P a, C a, C b across the two processes with both sides "
      "reading after every write; rejected writes (out of range, wrong type, "
      "wrong arity, wrong only in a later member) in both processes must "
      "leave every variable as it was.")
_more("C30", "the same group object stopped (running = False) and started "
      "again; an output set between two cycles from outside update() must be "
      "in the first frame sent afterwards.")


# fourth round of additions (DESIGN.md section 10, fourth wave)
_more("C01", "destination registers aliased to a leaf that occurs on both "
      "sides of the outer operator at depth 2; unsigned constants with bit "
      "63 set under shifts and divisions.")
_more("C03", "byte-order-prefixed variables (local, packet and array-map "
      "memory) as left and right operands of all comparisons and bit tests, "
      "with values whose byte-reversed order differs from the numeric one.")
_more("C05", "minimumPacketSize 0 1 13 14 15 1500 1514 x every default exit "
      "code x programs with and without their own exit.")
_more("C06", "mixed units: integer variables += / -= fixed-point amounts "
      "(register, variable, constants, expressions) and the reverse; the "
      "expected value is the set of sums under both conversion roundings.")
_more("C08", "Python-side writes that struct refuses (after which Python and "
      "the program must still read the last accepted value); run-time "
      "indexed element access of multi-element variables through the "
      "library idiom, with the map base registers compared after every "
      "statement.")
_more("C09", "two and three HashMaps and a Dict in one program class; "
      "Structure classes that inherit from each other as Dict keys and "
      "values, partly assigned instances, a second Dict using the base "
      "classes.")
_more("C10", "the inherited-Structure Dict configurations of C09.")
_more("C11", "the same Packet / SterilePacket object assembled between "
      "appends (every probe set up to depth 3, selected ones beyond, across "
      "the 46-byte padding boundary and the datagram limits); positions "
      "{0 1 -1 -2 -3 1000 30000 32767 -32768} x offsets {0 1 0x10 0x130 "
      "0x502 0xffff} for every addressing kind.")
_more("C12", "shaped requests: heads {none, H, HB, H + read-only I, "
      "read-only I} x tails {none, bytes of length 0..8, counts 0..8}.")
_more("C13", "data of every length 0..8 and counts 0..8; histories of 2-3 "
      "requests on one EtherCat object in which earlier ones are refused at "
      "pack time: nothing is sent for them and later requests equal those "
      "on a fresh object.")
_more("C14", "two and three concurrent users (to_operational with every "
      "target, get_state) of one Terminal object, started together or "
      "staggered; per-caller and terminal-wide oracle.")
_more("C15", "several tasks of one process on the same terminal in every "
      "order an event loop can produce, next to other processes; "
      "participants that leave as the last one (remove without close) and "
      "join again; class- and module-level data of ebpfcat.lock reset "
      "before every execution.")
_more("C17", "every category walk also as the second read_eeprom / "
      "apply_eeprom on a Terminal object that read another image before; "
      "NOP categories (type 0) with 0, 1, 2 words at every position.")
_more("C18", "a second connect() of the master between the allocation of "
      "two groups; Aerotech-style terminals with a declared size of 0.")
_more("C19", "region starts are taken from the parsed frame where the "
      "datagram is addressed to the terminal.")
_more("C20", "both directions of a terminal through the sync group's own "
      "map_fmmu; mappings refused where they are requested; sync managers "
      "of size 0.")
_more("C21", "frames arriving with enabled write datagrams and arbitrary "
      "counters while output is disabled or the slot has just been taken "
      "over; a successor group registering in the slot of a cancelled one.")
_more("C22", "the ethertype of every frame returned to the bus (0x88A4) and "
      "handed to user space (data0), for data0 equal to and different from "
      "0x88A4; when a step depends on the upper bits of the counter word the "
      "space is explored again with counters above 255.")
_more("C23", "the ethertype sub-protocol among joiners of a lock directory "
      "whose default lock file is free, held by a live process or left by a "
      "dead one; simulated pids, os.kill(pid, 0), reading of lock files; a "
      "call the simulated OS does not model freezes its caller and is "
      "reported as a cap, never as 'held'.")
_more("C24", "process groups execute the real loop of the child as a second "
      "task, with the bus optionally silent for process data from the "
      "cancellation on; terminals with 1-3 FMMUs; every cleanly cancelled "
      "group is started again and must reach its next cycle.")
_more("C25", "workloads are scripts of stages: user-chosen addresses "
      "(initialize(absolute=X)) before and after a scan, pre-addressed "
      "terminals appearing later, gentle_initialize on buses with duplicate "
      "or out-of-range addresses, one Terminal object initialised at two "
      "positions; every hand-out of find_free_address is observed.")
_more("C26", "every bundled terminal a Motor can be linked to (EL7041, EL7332 "
      "channel 1 and 2, one Motor per channel) x FMMU / direct / mixed "
      "addressing x neighbours before and behind; inputs and outputs located "
      "by parsing the frame; output bytes outside the Motor's channel must "
      "not change.")
_more("C28", "accept delays of 26..300 cycles.")
_more("C29", "byte-string formats (4s, 6s) whose values end or start with "
      "zero bytes.")

# fifth wave
_more("C01", "unary minus / abs below and above one binary operator (every "
      "operator, register and memory operands of both signednesses).")
_more("C03", "comparison operands that are computed expressions (>> // % + "
      "- * & over 8-byte leaves and small constants, constant first "
      "included) against every operand kind on the other side, with leaves "
      "beyond 32 bits and compared values within.")
_more("C04", "bit-field families: every layout of 2-3 fields in one byte "
      "(packet and terminal variables; one byte per field for local and "
      "array-map variables), every field written with in-range, "
      "out-of-range and negative constants, booleans and run-time values.")
_more("C07", "guards placed after the program used r9 for something else.")
_more("C09", "life cycles of program objects: load, write from either side, "
      "close, load again, further instances of the same class, judged "
      "against the declared defaults after every load.")
_more("C12", "long histories on one master object (up to 10 / 13 requests, "
      "every subset of frames lost or datagrams not processed); bursts of "
      "up to 34 / 49 concurrent tasks of which one calls roundtrip 1-3 loop "
      "iterations later.")
_more("C13", "every placement of format strings and values in the argument "
      "list that keeps their relative orders.")
_more("C14", "AL status words with bits above the error flag set (constant "
      "and changing during the walk).")
_more("C17", "category types with bit 15 set next to their namesakes; "
      "SDO-sourced PDO assignment lists of 0-3 slots over {0, A, B, C}.")
_more("C20", "a mapping ended by an exception in its body (cancellation, "
      "error).")
_more("C16", "entries that refuse the transfer (write-only, not readable in "
      "the present state, absent subindex, read-only for downloads): a "
      "refused single-entry upload must not return a value, a refused "
      "download must not report success.")
_more("C23", "FMMU map files left behind by earlier sessions (a short one, "
      "a complete one with a window still marked).")
_more("C25", "a frame the interface refuses to send (OSError from the "
      "transport) as a deviation.")
_more("C26", "motors configured before their sync group exists; the device "
      "variables of every motor must have places of their own in the map.")
_more("C27", "a second valve of the same class, confirmed in its position "
      "and updated, or reset, right before an update of the valve under "
      "test.")
