"""C15 - mailbox exchanges with a terminal are serialised and counted.

In-process half: 2-3 asyncio tasks share one real Terminal object and perform
1-2 mailbox exchanges each (sdo_read expedited, sdo_write expedited,
read_object_entry) over the real roundtrip stack against the ESC model with
the CoE server of mc/coe.py.  Explorer choices: when each task is started,
which in-flight frame the bus delivers next, and after how many polls the
terminal answers; the lock may already have been used (warm-up exchanges), so
that the counter wraps within a run.  Lock kinds: MailboxLock (plain EtherCat)
and ParallelMailboxLock (what ParallelEtherCat hands out; its lock file lives
in the simulated OS of mc/simos.py, where record locks belong to the process
as in POSIX).

Cross-process half: 2-3 simulated processes (mc/simos.py: threads under a
baton, explicit-state search with replay) each run the real LockFile.__init__
(directly, as ParallelEtherCat.run does, or through pickle / __setstate__, as
a spawned child does), ParallelEtherCat.get_mbx_lock and the real
Terminal.sdo_read / sdo_write / read_object_entry with the real
EtherCat.roundtrip; only the datagram transport is replaced: every datagram is
applied directly to ONE shared ESC + CoE model.  Scheduling points: every
os.makedirs / open / write / pread / pwrite / fstat / ftruncate / close and
fcntl.lockf of ebpfcat.lock and every datagram; optionally one participant is
killed at a scheduling point.  The lock file may not exist yet (creation
window) or be left by an earlier session (counter 6/7: wraps within the run).

Refused exchanges (both halves): besides the three exchanges that succeed
the alphabet has five the CoE server model refuses - sdo_read of a missing
sub-index (R) / of a missing object (N), sdo_write to a read-only entry as
normal download (V) and expedited (W), read_object_entry of a missing
sub-index (O).  The server answers with an SDO abort / an SDO information
error, the library raises EtherCatError (inside the lock, for W after it left
the lock), the user catches it and goes on.  The mail went out: the exchange
has consumed its counter like any other, and the users that follow (the same
one, other tasks, other processes) must continue the chain.

Second LockFile objects (cross-process half): record locks belong to the
(process, file) pair and closing ANY descriptor of the file drops all of
them, so the lifetime of every LockFile object of a process matters.  A
participant may get the lock of each of its tasks in a pickled message of
its own (`how` = 'messages': every copy opens the file anew; the copy of a
short task dies, by reference counting, when that task completes, i.e. while
the longer exchange of another task is in flight), or own a spare LockFile
(LockFile(...) a second time, a pickle round trip of the LockFile, of a
ParallelMailboxLock) and drop it at a point the explorer chooses: before its
first exchange, inside one (before its n-th datagram), between two
exchanges, at the end.  On a tree whose LockFile has no destructor nothing
is closed.

Several tasks of one process on ONE terminal (cross-process half): three and
more users of a terminal, two or three of them tasks of the same process that
share the terminal's Terminal object (and so its lock), next to one or two
other processes.  Record locks do not keep the tasks of one process apart, so
the lock has to do that by other means, and must still hold the record lock
whenever one of its tasks is inside an exchange.  The tasks of the process
run in ALL orders an event loop can produce (`sched` = 'all', x_tasks_all): a
task runs from one point where it gives way (waiting for the answer to a
datagram, or for another task: the future an asyncio.Lock parks its waiters
on) to the next, and whenever more than one task can go on the explorer
chooses; all of that interleaved with the operations of the other processes.

Life cycles on the lock file (cross-process half): a participant may take
part several times (`sessions`), each time with a new LockFile on the same
name, as entering ParallelEtherCat.run() again does.  Whoever leaves as the
last one does what run() does then: LockFile.remove(), without closing it.
The simulated OS models unlink faithfully (the open descriptor keeps the
unlinked inode and its record locks alive, a new file of that name is another
inode, record locks are per inode; checked against the real OS by
simos.conformance, script 'unlink').  Other processes join before, in between
and afterwards.  Taking part begins with `join` and ends with `leave` (harness
steps standing for the lock directory of run(), which is C23's subject); a
participant does not join while the last one is still removing the lock file
(that race is C23's known finding).  When the last one has removed the lock
file a new session begins for the oracle: the first mail after it may carry
any counter again (a new lock file starts at 0).

Library data is owned by the harness: module-level and class-level data of
ebpfcat.lock is reset to its import-time value before every execution (both
halves), never inside one, and every simulated process has its own copy (a
process does not see what another process cached); see mc/simos.py, "Library
data".

Object lifetime is owned by the harness (see mc/simos.py, "Destructors"):
the cyclic collector is off while an execution runs, every execution destroys
what it leaves behind inside its own simulated OS, and a LockFile that
outlives its in-process execution is an INTERNAL error.

Both halves are judged on what the terminal sees in its write mailbox.  The
lock comes from a factory (`LOCKS`); the oracle (`judge_events`,
`judge_results`) only needs the terminal-side event list and the users'
results.
"""
import asyncio
import fcntl
import itertools
import os
import pickle
import struct
import weakref

from mc import bussim, coe, core, explore, simos, vloop

import ebpfcat.ebpfcat as ecat_mod
import ebpfcat.ethercat as ecmod
import ebpfcat.lock as lock_mod
from ebpfcat.ethercat import EtherCat, Terminal

# module-level and class-level data of ebpfcat.lock belongs to the (simulated)
# process: import-time value before every execution, a private copy per
# simulated process (mc/simos.py, LibraryState).  Registered here, before
# anything has used the module
simos.own_library_state(lock_mod)

PROP = "C15"
LEVEL = "model_checking"
RULE = ("in-process: multisets of 2-3 task programs (1-2 exchanges each from "
        "sdo_read / sdo_write / read_object_entry, plus configurations in "
        "which at least one exchange is refused by the terminal: read of a "
        "missing sub-index / object, normal and expedited write to a "
        "read-only entry, object entry of a missing sub-index, followed by "
        "exchanges of the same and of other users) x warm-up exchanges {0, "
        "6[, seeded]} x lock kind {MailboxLock, ParallelMailboxLock} x "
        "deviation-bounded (start of each task, delivery order of in-flight "
        "frames, response latency <= 2 polls); non-trivial = at least two "
        "users exchanged mail; distinct = distinct (configuration, choices).  "
        "cross-process: explicit-state search over all interleavings "
        "(complete, or bounded by preemptions) of the lock-file operations "
        "and datagrams of 2-3 simulated processes x optional crash x "
        "refused exchanges x (participants owning a second LockFile object "
        "on the lock file: per-task pickled lock copies that die when the "
        "task completes, or a spare copy dropped at an explorer-chosen "
        "point before / inside / between / after its exchanges) x (two or "
        "three tasks of one process sharing ONE terminal's Terminal object "
        "next to other processes, the tasks of the process in every order "
        "an event loop can produce: explorer choice wherever more than one "
        "task can go on) x (life cycles: participants that take part "
        "several times, each time with a new LockFile on the same name, the "
        "last one to leave removes the lock file and keeps its descriptor, "
        "other processes joining before / in between / afterwards); "
        "library data of ebpfcat.lock (module and class level) is reset "
        "before every execution and private to each simulated process; a "
        "state is non-trivial when a byte lock is held (or the lock file is "
        "still empty) while another participant is alive")

OUT_OFF, OUT_SZ, IN_OFF, IN_SZ = 0x1000, 48, 0x1100, 48
KINDS = "rwo"
# exchanges the terminal refuses (the CoE server answers with an abort / an
# SDO information error, the library raises EtherCatError): the mail went
# out, so the exchange has consumed its counter like any other
#   R sdo_read of a sub-index the object does not have   (raised inside the
#   N sdo_read of an object that does not exist            lock)
#   V sdo_write (6 bytes: normal download) to a read-only entry  (inside)
#   W sdo_write (2 bytes: expedited) to a read-only entry (the library looks
#     at the answer after it left the lock)
#   O read_object_entry of a sub-index that does not exist (inside)
FAILING = "RNVWO"
RO_SUB, NO_SUB = 3, 9
K = 2

# lock factories: (EtherCat object, terminal number) -> lock
LOCKS = {
    # what EtherCat.get_mbx_lock hands out
    "MailboxLock": lambda ec, no: ec.get_mbx_lock(no),
    # what ParallelEtherCat.get_mbx_lock hands out, used by several tasks of
    # ONE process (the lock file lives in a simulated OS, see lock_env)
    "ParallelMailboxLock": lambda ec, no: lock_mod.ParallelMailboxLock(
        new_lock_file(), no),
    # defect model for known-finding attribution only (never enumerated as a
    # lock kind): the same plus mutual exclusion of the tasks of the process
    "ParallelMailboxLock+task-lock": lambda ec, no: task_locked(
        new_lock_file(), no),
}
LOCK_KINDS = ("MailboxLock", "ParallelMailboxLock")
KF_SAMEPROC = "C15-parallel-lock-same-process-tasks"


def new_lock_file():
    lf = lock_mod.LockFile(X_LOCKFILE, 8, 16)
    lock_env.current.born.append(weakref.ref(lf))
    return lf


def task_locked(lock_file, no):
    """ParallelMailboxLock that additionally excludes tasks of its own
    process with an asyncio.Lock (the one modelled deviation)"""
    class TaskLocked(lock_mod.ParallelMailboxLock):
        def __init__(self, lock_file, no):
            super().__init__(lock_file, no)
            self.task_lock = asyncio.Lock()

        async def __aenter__(self):
            await self.task_lock.acquire()
            try:
                return await super().__aenter__()
            except BaseException:
                self.task_lock.release()
                raise

        async def __aexit__(self, *a):
            try:
                return await super().__aexit__(*a)
            finally:
                self.task_lock.release()
    return TaskLocked(lock_file, no)


class LoggingRuntime(simos.DirectRuntime):
    """one simulated process, no scheduling; remembers the lockf calls"""

    def syscall(self, name, args, thunk, enabled=None, fail=None):
        r = super().syscall(name, args, thunk, enabled, fail)
        if name == "lockf":
            self.log.append(args)
        return r

    def overlap(self):
        """was the byte lock granted again while it was held?"""
        held = False
        for fd, cmd, length, start in self.log:
            if cmd & fcntl.LOCK_UN:
                held = False
            elif held:
                return True
            else:
                held = True
        return False


class lock_env:
    """environment a lock kind needs while an execution runs.  The execution
    owns its objects: the cyclic collector is off while it runs, and what it
    leaves behind is destroyed on exit while its simulated OS and the seams
    are still in place (a LockFile with a destructor closes its descriptor
    in the World it was opened in, not in the next execution's)"""
    current = None

    def __init__(self, lock_name):
        self.parallel = lock_name.startswith("Parallel")
        self.rt = None
        self.born = []          # weak references to the LockFile objects

    def __enter__(self):
        lock_env.current = self
        simos.reset_library_state()     # before the execution, never inside
        if self.parallel:
            self.seams = simos.Seams()
            self.seams.set(lock_mod, "os", simos.OsFacade())
            self.seams.set(lock_mod, "fcntl", simos.FcntlFacade())
            self.rt = LoggingRuntime(simos.World(["/run"]))
            self.rt.__enter__()         # collector off
        else:
            self.garbage = simos.own_garbage().__enter__()
        return self

    def __exit__(self, *a):
        lock_env.current = None
        if self.parallel:
            self.rt.__exit__(*a)        # collects, then uninstalls
            self.seams.restore()
            if a[0] is None and any(r() is not None for r in self.born):
                raise core.Internal("a LockFile outlived its execution")
        else:
            self.garbage.__exit__(*a)


def user_index(u):
    return 0x2000 + 0x100 * u


def initial(u, j):
    return bytes([0x40 + 0x10 * u + j, 0xa0 + u])


def written(u, j):
    return bytes([0x0f - u, 0x70 + 0x10 * j + u])


def entry_name(u, j):
    return f"user{u}-entry{j}"


def missing_index(u):
    return user_index(u) + 0x80


def make_server(n_users):
    s = coe.SdoServer({(0x1000, 0): b"\x89\x13\0\0"})
    for u in range(n_users):
        for j in range(1, 3):
            s.objects[user_index(u), j] = initial(u, j)
            s.entry_meta[user_index(u), j] = (0x06, 16, 0x3f,
                                              entry_name(u, j))
        s.objects[user_index(u), RO_SUB] = initial(u, RO_SUB)
        s.readonly.add((user_index(u), RO_SUB))
    return s


ANYBODY = "anybody"


def message_user(msg):
    """which user does a CoE mail (request or response) belong to; ANYBODY
    for an SDO information error response (it names no object)"""
    m = coe.mbx_parse(msg)
    if m.type != coe.COE or len(m.payload) < 5:
        return None
    service = struct.unpack_from("<H", m.payload)[0] >> 12
    if service in (coe.SDOREQ, coe.SDORES):
        index, = struct.unpack_from("<H", m.payload, 3)
    elif service == coe.SDOINFO and m.payload[2] & 0x7f == 7:
        return ANYBODY
    elif service == coe.SDOINFO and len(m.payload) >= 8:
        index, = struct.unpack_from("<H", m.payload, 6)
    else:
        return None
    return (index - 0x2000) >> 8 if index >= 0x2000 else "warmup"


# ------------------------------------------------------------------ oracle
def judge_events(events):
    """events: ('in', mail) / ('out', mail) / ('fetch',) in terminal order.
    -> None or (what, expected, observed)"""
    return judge_counters(events) or judge_exchanges(events)


def judge_counters(events):
    """('epoch',) marks the end of a session: every participant has left and
    the last one has removed the lock file.  The next mail is a first mail
    again (the new lock file starts at 0)"""
    seen, prev = [], None
    for e in events:
        if e[0] == "epoch":
            seen, prev = seen + ["|"], None
        if e[0] != "in":
            continue
        c = coe.mbx_parse(e[1]).counter
        if prev is not None and c != prev % 7 + 1:
            what = "counter repeated" if c == prev \
                else "counter 0 after the first mail" if c == 0 \
                else "counter is not the successor"
            return (what, seen + [prev % 7 + 1], seen + [c])
        seen, prev = seen + [c], c
    return None


def judge_exchanges(events):
    open_user = None        # an exchange whose response was not fetched yet
    for n, e in enumerate(events):
        if e[0] == "in":
            u = message_user(e[1])
            if open_user is not None:
                return ("request written inside another user's exchange",
                        f"user {open_user[0]} fetches its response first",
                        f"request of user {u} at event {n}")
            open_user = [u, False]
        elif e[0] == "out":
            if open_user is None:
                return ("response without request", None, n)
            if message_user(e[1]) not in (open_user[0], ANYBODY):
                return ("response for another user", open_user[0],
                        message_user(e[1]))
            open_user[1] = True
        elif e[0] == "fetch":
            if open_user is not None and open_user[1]:
                open_user = None
    return None


def judge_results(conf, results, server, cancelled=None):
    tasks, warm = conf[:2]
    for u, prog in enumerate(tasks):
        r = results[u]
        if u == cancelled and r is not None and r[0] == "cancelled":
            continue        # its own CancelledError is what it asked for
        if r is None or r[0] != "ok":
            return (f"user {u} completes its exchanges", "ok", r)
        if server.objects[user_index(u), RO_SUB] != initial(u, RO_SUB):
            return (f"user {u}: read-only entry keeps its value",
                    initial(u, RO_SUB).hex(),
                    server.objects[user_index(u), RO_SUB].hex())
        for j, (kind, got) in enumerate(zip(prog, r[1]), 1):
            if kind in FAILING:
                continue        # refused by the terminal: nothing to compare
            if kind == "r":
                want = initial(u, j).hex()
            elif kind == "w":
                want = None
                if server.objects[user_index(u), j] != written(u, j):
                    return (f"user {u} write {j} stored", written(u, j).hex(),
                            server.objects[user_index(u), j].hex())
            else:
                want = [entry_name(u, j), j, 16]
            if got != want:
                return (f"user {u} exchange {j} ({kind}) result", want, got)
    return None


# ------------------------------------------------------------------ execution
def new_terminal(n_users, station):
    """ESC model with mailbox + CoE server; -> (terminal, server, event list
    ('in', mail) / ('out', mail) / ('fetch',) in terminal order)"""
    t = bussim.Terminal("t", station=station)
    coe.configure_mailbox(t, OUT_OFF, OUT_SZ, IN_OFF, IN_SZ)
    coe.esc_mailbox_rules(t)
    server = make_server(n_users)
    t.mbx_handler = server
    events = t.mbx_log
    orig_read = t.read

    def read(ado, n):
        full = t.mem[0x80d] & 8
        r = orig_read(ado, n)
        if full and not t.mem[0x80d] & 8:
            events.append(("fetch",))
        return r
    t.read = read
    return t, server, events


async def program(term, u, prog, pause=None):
    """the exchanges of one user; a refused exchange (FAILING) is caught, as
    a user would, and the program goes on.  pause(j) is called between
    exchange j and j + 1 (outside the lock)"""
    out = []
    for j, kind in enumerate(prog, 1):
        if pause is not None and j > 1:
            pause(j - 1)
        if kind == "r":
            out.append((await term.sdo_read(user_index(u), j)).hex())
        elif kind == "w":
            out.append(await term.sdo_write(written(u, j), user_index(u), j))
        elif kind == "o":
            oe = await term.read_object_entry(user_index(u), j)
            out.append([oe.name, oe.valueInfo, oe.bitLength])
        else:
            if kind == "R":
                op = term.sdo_read(user_index(u), NO_SUB)
            elif kind == "N":
                op = term.sdo_read(missing_index(u), j)
            elif kind == "V":
                op = term.sdo_write(written(u, j) * 3, user_index(u), RO_SUB)
            elif kind == "W":
                op = term.sdo_write(written(u, j), user_index(u), RO_SUB)
            elif kind == "O":
                op = term.read_object_entry(user_index(u), NO_SUB)
            else:
                raise core.Internal(f"unknown exchange kind {kind!r}")
            try:
                r = await op
            except ecmod.EtherCatError:
                out.append(["refused"])
            else:
                out.append(["returned", repr(r)[:40]])
    return out


def execute(ch, conf, lock_name, k=K):
    with lock_env(lock_name) as env:
        out = _execute(ch, conf, lock_name, k)
        out[0]["lock_overlap"] = bool(env.rt and env.rt.overlap())
    return out


class Observed:
    """delegates to the real lock and remembers which task is inside"""

    def __init__(self, inner):
        self.inner = inner
        self.holder = None

    async def __aenter__(self):
        r = await self.inner.__aenter__()
        self.holder = asyncio.current_task()
        return r

    async def __aexit__(self, *a):
        self.holder = None
        return await self.inner.__aexit__(*a)

    def next_counter(self):
        return self.inner.next_counter()


def _execute(ch, conf, lock_name, k):
    tasks, warm = conf[:2]
    cancel_mode = len(conf) > 2 and conf[2]
    loop = vloop.VLoop()
    with loop:
        t, server, events = new_terminal(len(tasks), 11)
        m = bussim.Master(bussim.Bus([t]), lambda: EtherCat("sim"), loop)
        term = Terminal(m.ec)
        term.position = 11
        term.mbx_lock = LOCKS[lock_name](m.ec, 11)
        if cancel_mode:
            term.mbx_lock = Observed(term.mbx_lock)
        cancelled = []      # [user, was it inside the lock]
        term.mbx_out_off, term.mbx_out_sz = OUT_OFF, OUT_SZ
        term.mbx_in_off, term.mbx_in_sz = IN_OFF, IN_SZ

        async def warmup():
            for _ in range(warm):
                await term.sdo_read(0x1000, 0)
        if warm:
            fut = asyncio.ensure_future(warmup())
            if not m.run(fut, max_frames=2000) or fut.exception():
                # the earlier exchanges are real exchanges too
                e = fut.exception() if fut.done() else None
                obs = dict(events=[(x[0],) + tuple(y.hex() for y in x[1:])
                                   for x in events],
                           results=[("raise", type(e).__name__,
                                     "earlier exchange: " + str(e)[:60])
                                    if e else ("pending",)] * len(tasks),
                           finished=False, frames=m.frames, cancelled=None,
                           errors=[list(x) for x in server.protocol_errors])
                raw = list(events)
                loop.shutdown()
                return obs, raw, server
        t.mbx_latency = lambda term_: ch.choose(k + 1, "latency",
                                               list(range(k + 1)))
        futs = [None] * len(tasks)

        held = [False] * len(tasks)

        def start(u):
            futs[u] = asyncio.ensure_future(program(term, u, tasks[u]))

        def on_idle(master):
            # a task starts at once unless the explorer holds it back (one
            # deviation) and releases it at a later idle point (another one)
            started = False
            if cancel_mode and not cancelled:
                # one task that has not completed may be cancelled (as a
                # wait_for timeout would): a deviation
                for u in range(len(tasks)):
                    f = futs[u]
                    if f is not None and not f.done() \
                            and ch.choose(2, f"cancel{u}"):
                        cancelled.extend([u, term.mbx_lock.holder is f])
                        f.cancel()
                        return True
            for u in range(len(tasks)):
                if futs[u] is not None:
                    continue
                if not held[u]:
                    if ch.choose(2, f"hold{u}"):
                        held[u] = True
                    else:
                        start(u)
                        started = True
                elif ch.choose(2, f"release{u}"):
                    start(u)
                    started = True
            if started:
                return True
            if not master.transport.inflight and any(f is None
                                                     for f in futs):
                start(futs.index(None))     # nothing else can happen
                return True
            n = len(master.transport.inflight)
            if n >= 2:
                master.deliver(ch.choose(n, "deliver"))
                return True
            return False

        class AllDone:
            def done(self):
                return all(f is not None and f.done() for f in futs)
        finished = m.run(AllDone(), max_frames=3000, on_idle=on_idle)
        results = []
        for f in futs:
            if f is None or not f.done():
                results.append(("pending",))
            elif f.cancelled():
                results.append(("cancelled",))
            elif f.exception() is not None:
                results.append(("raise", type(f.exception()).__name__,
                                str(f.exception())[:80]))
            else:
                results.append(("ok", f.result()))
        obs = dict(events=[(e[0],) + tuple(x.hex() for x in e[1:])
                           for e in events],
                   results=results, finished=finished,
                   cancelled=list(cancelled) or None,
                   errors=[list(e) for e in server.protocol_errors],
                   frames=m.frames)
        raw = list(events)
        loop.shutdown()
    return obs, raw, server


def outside_precondition(obs):
    """the cancelled task was inside the lock: its request may be on its way
    or its response outstanding, which the next user cannot know"""
    return bool(obs.get("cancelled")) and obs["cancelled"][1]


def judge(conf, out):
    obs, raw, server = out
    if outside_precondition(obs):
        return None
    v = judge_events(raw)
    if v:
        return v
    if obs["errors"]:
        return ("terminal rejects a mail", [], obs["errors"])
    c = obs.get("cancelled")
    return judge_results(conf, obs["results"], server,
                         cancelled=c[0] if c else None)


# ------------------------------------------------------------------ driving
def configurations(ctx):
    progs = [p for n in (1, 2) for p in itertools.product(KINDS, repeat=n)]
    out = []
    for tasks in itertools.combinations_with_replacement(progs, 2):
        out.append(tasks)
    three = itertools.combinations_with_replacement(
        [p for p in progs if len(p) == 1] if ctx.quick else progs, 3)
    out.extend(three)
    return out


def failing_configurations(ctx):
    """configurations in which the terminal refuses at least one exchange,
    followed / accompanied by exchanges of the same and of other users"""
    F, G = [(f,) for f in FAILING], [(g,) for g in KINDS]
    out = [(f, g) for f in F for g in G]
    if ctx.quick:
        out += [(("R", "r"), ("w",)), (("V", "o"), ("r",)),
                (("O", "w"), ("o",)), (("N", "r"), ("R",)),
                (("W", "r"), ("w",)), (("r", "R"), ("o", "V")),
                (("R",), ("r",), ("w",)), (("V",), ("O",), ("o",))]
        return out
    two = [(f, g) for f in FAILING for g in KINDS] \
        + [(g, f) for f in FAILING for g in KINDS]
    out += [(p, q) for p in two for q in G + [("r", "w")]]
    out += list(itertools.combinations_with_replacement(F, 2))
    out += [(("r", "R"), ("o", "V")), (("N", "w"), ("W", "o")),
            (("O", "O"), ("r", "N"))]
    out += [(f, g, h) for f in F
            for g, h in itertools.combinations_with_replacement(G, 2)]
    out += [(("R",), ("V",), ("o",)), (("N",), ("O",), ("W",))]
    return out


def work(item, res):
    conf, lock_name, bound, cap = item
    bad = []
    model = []

    def same_process_defect():
        """does the whole bounded space of this configuration hold once the
        tasks of the process exclude each other (the one modelled deviation
        of KF_SAMEPROC)?  Decided once per configuration"""
        if not model:
            def look(ch, out):
                if judge(conf, out):
                    raise Enough()
            try:
                explore.dfs(lambda ch: execute(
                    ch, conf, "ParallelMailboxLock+task-lock"), bound, look,
                    max_execs=cap)
                model.append(True)
            except Enough:
                model.append(False)
        return model[0]

    def on_exec(ch, out):
        obs = out[0]
        res.count("evaluations")
        res.count("transitions", obs["frames"])
        users = {message_user(bytes.fromhex(e[1])) for e in obs["events"]
                 if e[0] == "in"} - {"warmup", None}
        if len(users) >= 2:
            res.nontrivial.add(core.digest([conf, lock_name, ch.choices]))
        v = judge(conf, out)
        refused = sum(x == ["refused"] for r in obs["results"]
                      if r[0] == "ok" for x in r[1])
        if refused:
            res.count("inprocess_refused_exchanges", refused)
        if outside_precondition(obs):
            res.count("outside_precondition")
        elif obs.get("cancelled"):
            res.count("cancelled_while_waiting")
        res.outcomes.add((v[0] if v else "ok", len(obs["events"]) // 3,
                          len(ch.describe()),
                          tuple(obs["cancelled"] or ())))
        if v:
            kf = None
            if lock_name == "ParallelMailboxLock" and obs["lock_overlap"] \
                    and same_process_defect():
                kf = KF_SAMEPROC
            res.violation(dict(conf=conf, lock=lock_name,
                               choices=list(ch.choices)), v[1], v[2], kf=kf,
                          sig=core.digest([lock_name, v[0], kf]),
                          note=f"{lock_name}: {v[0]}")
            bad.append(1)
            if len(bad) >= 3:
                raise Enough()
    try:
        n, capped = explore.dfs(lambda ch: execute(ch, conf, lock_name),
                                bound, on_exec, max_execs=cap)
    except Enough:
        return
    if capped:
        res.caps_hit.append(f"{conf}: capped at {n} executions")


class Enough(Exception):
    pass


def selftest_oracle():
    """the oracle rejects what it has to reject"""
    def rq(u, c):
        return ("in", coe.mbx_pack(coe.COE, coe.coe_header(coe.SDOREQ) +
                struct.pack("<BHB4x", 0x40, user_index(u), 1), counter=c))

    def rs(u):
        return ("out", coe.mbx_pack(coe.COE, coe.coe_header(coe.SDORES) +
                struct.pack("<BHB4x", 0x4b, user_index(u), 1), counter=1))
    f = ("fetch",)
    good = [rq(0, 0), rs(0), f, rq(1, 1), rs(1), f, rq(0, 2), rs(0), f]
    assert judge_events(good) is None
    wrap = []
    c = 5
    for i in range(5):
        wrap += [rq(i % 2, c), rs(i % 2), f]
        c = c % 7 + 1
    assert judge_events(wrap) is None
    assert judge_events([rq(0, 1), rs(0), f, rq(1, 1), rs(1), f])[0] == \
        "counter repeated"
    assert judge_events([rq(0, 1), rs(0), f, rq(1, 3), rs(1), f])[0] == \
        "counter is not the successor"
    assert judge_events([rq(0, 7), rs(0), f, rq(1, 0), rs(1), f])[0] == \
        "counter 0 after the first mail"
    # a new session (the lock file was removed by the last one) starts anew
    ep = ("epoch",)
    assert judge_events([rq(0, 7), rs(0), f, ep, rq(1, 0), rs(1), f,
                         rq(0, 1), rs(0), f]) is None
    assert judge_events([rq(0, 2), rs(0), f, ep, rq(1, 5), rs(1), f]) is None
    assert judge_events([rq(0, 0), rs(0), f, ep, rq(1, 0), rs(1), f,
                         rq(0, 2), rs(0), f])[0] == \
        "counter is not the successor"
    assert judge_events([rq(0, 0), rs(0), f, ep, rq(1, 1), rs(1), f,
                         rq(0, 0), rs(0), f])[0] == \
        "counter 0 after the first mail"
    assert judge_events([rq(0, 0), rs(0), f, ep, rq(1, 0), rq(0, 1), rs(1),
                         f])[0] == \
        "request written inside another user's exchange"
    assert judge_events([rq(0, 1), rq(1, 2), rs(0), f, rs(1), f])[0] == \
        "request written inside another user's exchange"
    assert judge_events([rq(0, 1), rs(0), rq(1, 2), f, rs(1), f])[0] == \
        "request written inside another user's exchange"
    # refused exchanges: the abort names the object, the SDO information
    # error names nothing; both have consumed their counter
    ab = ("out", coe.mbx_pack(coe.COE, coe.coe_header(coe.SDOREQ) +
          struct.pack("<BHBI", 0x80, user_index(1), NO_SUB,
                      coe.AB_NO_SUBINDEX), counter=1))
    ie = ("out", coe.mbx_pack(coe.COE, coe.coe_header(coe.SDOINFO) +
          struct.pack("<BxHI", 7, 0, coe.AB_NO_SUBINDEX), counter=1))
    assert message_user(ab[1]) == 1 and message_user(ie[1]) == ANYBODY
    assert judge_events([rq(1, 1), ab, f, rq(0, 2), rs(0), f]) is None
    assert judge_events([rq(1, 1), ie, f, rq(0, 2), rs(0), f]) is None
    assert judge_events([rq(0, 1), ab, f])[0] == "response for another user"
    assert judge_events([rq(1, 1), ab, f, rq(0, 1), rs(0), f])[0] == \
        "counter repeated"
    assert judge_events([rq(1, 1), ie, rq(0, 2), f, rs(0), f])[0] == \
        "request written inside another user's exchange"


# =====================================================================
# cross-process half: participants are simulated processes (mc/simos.py)
# =====================================================================
X_IF = "eth0"
X_RANGE = (1000, 1008)          # EtherCat.terminal_addr_range: 8-byte file
X_LOCKFILE = f"/run/ebpf/{X_IF}"
KF_WINDOW = "C15-lockfile-create-init-window"


class Starved(Exception):
    """harness: the terminal did not answer within the poll budget"""


class SimFuture:
    """stands in for asyncio.Future inside ebpfcat.ethercat: the datagram is
    answered while EtherCat.roundtrip queues it; awaiting it does not suspend,
    except in a participant that runs several tasks (x_tasks): there the
    task gives way once, as it would while its frame is on the wire"""

    def __init__(self):
        self._state = None

    def set_result(self, r):
        self._state = (True, r)

    def set_exception(self, e):
        self._state = (False, e)

    def done(self):
        return self._state is not None

    def __await__(self):
        if self._state is None:
            raise simos.SimBug("datagram future awaited before it was "
                               "answered")
        rt = simos.current()
        if rt.pid() in rt.params["yielding"]:
            yield self
        ok, v = self._state
        if not ok:
            raise v
        return v
        yield       # noqa: a generator function


class TermModel:
    """one terminal: ESC + CoE server + what it saw"""

    def __init__(self, n_users, station, latency):
        self.t, self.server, self.events = new_terminal(n_users, station)
        self.station = station
        self.t.mbx_latency = lambda term: latency
        self.ev_steps = []      # scheduler step at which events[i] happened

    def digest(self):
        t = self.t
        return [[(a, d.hex()) for a, d in t.write_log],
                [(e[0],) + tuple(x.hex() for x in e[1:])
                 for e in self.events],
                bytes(t.mem[0x800:0x810]).hex(), t._mbx_wait,
                [m.hex() for m in t.mbx_out_queue]]


class Shared:
    """the terminal(s) all participants talk to"""

    def __init__(self, n_users, stations, latency):
        self.terms = [TermModel(n_users, st, latency) for st in stations]
        self.by_station = {tm.station: tm for tm in self.terms}
        self.budget = latency + 3
        self.empty_polls = {}
        # life cycle (spaces with sessions): who takes part right now, who
        # (the last one that left) is tearing the session down, how many
        # sessions have ended
        self.members = set()
        self.tearing = None
        self.epochs = 0

    def join(self, pid):
        self.members.add(pid)

    def leave(self, pid):
        """-> was it the last one (what the rmdir of the lock directory
        tells ParallelEtherCat.run)"""
        self.members.discard(pid)
        if self.members:
            return False
        self.tearing = pid
        return True

    def torn_down(self, run):
        self.tearing = None
        self.epochs += 1
        for tm in self.terms:
            tm.events.append(("epoch",))
            tm.ev_steps.append(run.nsteps)

    def access(self, run, pid, cmd, pos, offset, out):
        """one datagram; -> returned data, None = working counter 0"""
        tm = self.by_station.get(pos)
        if tm is None:
            return None
        try:
            if cmd is ecmod.ECCmd.FPRD:
                data = tm.t.read(offset, len(out))
                if data is not None and offset <= 0x80d < offset + len(out):
                    if data[0x80d - offset] & 8:
                        self.empty_polls[pid, pos] = 0
                    else:
                        n = self.empty_polls[pid, pos] = \
                            self.empty_polls.get((pid, pos), 0) + 1
                        if n > self.budget:
                            raise Starved(f"no mail after {n} polls")
                return data
            if cmd is ecmod.ECCmd.FPWR:
                return out if tm.t.write(offset, out) else None
            raise simos.SimBug(f"datagram {cmd} not modelled")
        finally:
            while len(tm.ev_steps) < len(tm.events):
                tm.ev_steps.append(run.nsteps)

    def digest(self):
        return core.digest([[tm.digest() for tm in self.terms],
                            sorted(self.empty_polls.items()),
                            sorted(self.members), self.tearing, self.epochs])


class BusQueue:
    """stands in for EtherCat.send_queue: the real EtherCat.roundtrip packs
    the datagram and unpacks the answer, the access itself happens on the
    shared terminal model and is one scheduling point"""

    def __init__(self, shared):
        self.shared = shared
        self.count = 0          # datagrams of this participant so far
        self.at = None          # before which datagram to call `drop`
        self.drop = None

    def put_nowait(self, item):
        cmd, out, idx, pos, offset, future = item
        rt = simos.current()
        pid = rt.pid()
        n, self.count = self.count, self.count + 1
        if n == self.at:
            self.drop()
        try:
            data = rt.syscall(
                "bus", (cmd.name, pos, offset, bytes(out)),
                lambda: self.shared.access(rt, pid, cmd, pos, offset,
                                           bytes(out)))
        except Starved as e:
            future.set_exception(e)
            return
        if data is None:
            future.set_exception(
                ecmod.EtherCatError("datagram was not processed"))
        else:
            future.set_result(data)


class XRun(simos.Run):
    """the shared terminal is part of the state"""

    def key_and_renaming(self):
        k, r = super().key_and_renaming()
        return core.digest([k, self.params["shared"].digest()]), r


def _where(e):
    """innermost ebpfcat frame of a traceback: 'file.py:function'"""
    tb, out = e.__traceback__, "?"
    while tb is not None:
        fn = tb.tb_frame.f_code.co_filename
        if os.sep + "ebpfcat" + os.sep in fn:
            out = f"{os.path.basename(fn)}:{tb.tb_frame.f_code.co_name}"
        tb = tb.tb_next
    return out


def x_session_tasks(p):
    """one session of a participant: either the exchanges of its only task
    on terminal 0 ('rw', ['r', 'w']) or a list of [terminal, exchanges]
    pairs, one per task -> [(terminal, kinds), ...]"""
    multi = len(p) > 0 and not isinstance(p, str) \
        and not isinstance(p[0], str)
    return [(t, tuple(k)) for t, k in p] if multi else [(0, tuple(p))]


def x_sessions(p):
    """progs[u] is one session (see x_session_tasks) or {'sessions': [...]}:
    the participant joins, runs the tasks of the session, leaves, and joins
    again for the next one -> [[(terminal, kinds), ...], ...]"""
    if isinstance(p, dict):
        return [x_session_tasks(q) for q in p["sessions"]]
    return [x_session_tasks(p)]


def x_plan(progs):
    """-> [[(terminal, kinds, user number), ...] per participant], all
    sessions of a participant one after the other; users (one per task and
    session) are numbered in this order"""
    plan, n = [], 0
    for p in progs:
        tasks = [tk for ses in x_sessions(p) for tk in ses]
        plan.append([(t, k, n + i) for i, (t, k) in enumerate(tasks)])
        n += len(tasks)
    return plan


def x_layout(progs):
    """-> [[number of tasks of each session] per participant]"""
    return [[len(ses) for ses in x_sessions(p)] for p in progs]


def x_tasks(coros, failed):
    """the tasks of one process in ONE order ('nested'): task i+1 is started
    when task i waits for its first datagram, and completes before task i
    goes on (the schedule an event loop produces when the first task's frame
    is slow)"""
    results = [None] * len(coros)

    def run(i):
        first = True
        while True:
            try:
                y = coros[i].send(None)
            except StopIteration as stop:
                results[i] = ["ok", stop.value]
                return
            except Exception as e:
                results[i] = failed(e)
                return
            if not isinstance(y, SimFuture):
                raise simos.SimBug(
                    f"task {i} waits for {y!r}: tasks that wait for each "
                    "other need the task schedule 'all'")
            if first and i + 1 < len(coros):
                run(i + 1)
            first = False
    try:
        run(0)
    except BaseException:       # killed / abandoned: unwind in this context
        for c in coros:
            try:
                c.close()
            except BaseException:
                pass
        raise
    return results


class TaskLoop:
    """what asyncio.Lock needs of the event loop of a simulated process: the
    futures its waiters sleep on.  Nothing is ever scheduled on it: the task
    scheduler (x_tasks_all) looks at the futures itself"""

    def get_debug(self):
        return False

    def create_future(self):
        return asyncio.Future(loop=self)

    def call_soon(self, callback, *args, context=None):
        raise simos.SimBug("a callback was scheduled on the event loop of a "
                           f"simulated process: {callback!r}")

    call_soon_threadsafe = call_soon

    def call_exception_handler(self, context):
        pass

    def is_closed(self):
        return False


class TasksStuck(Exception):
    """all tasks of a process wait for each other"""


def x_tasks_all(rt, coros, failed):
    """the tasks of one process in ALL orders ('all'): a task runs from one
    point where it gives way (it waits for the answer to a datagram, or for
    another task of its process: an asyncio future, e.g. the waiter of an
    asyncio.Lock) to the next; whenever more than one task can go on - not
    started yet, datagram answered, future done - the explorer chooses which
    one does.  An event loop produces every one of these orders for some
    timing of the frames (a task whose frame is slow goes on later), and no
    other"""
    n = len(coros)
    results = [None] * n
    waits = [None] * n          # what the task waits for (None: not started)
    alive = list(range(n))
    k = 0
    try:
        while alive:
            ready = [i for i in alive if waits[i] is None or waits[i].done()]
            if not ready:
                e = TasksStuck("tasks " + ", ".join(map(str, alive)) +
                               " of the process wait for each other")
                for i in alive:
                    results[i] = ["raise", "TasksStuck", "?", str(e)]
                    coros[i].close()
                break
            i = ready[0]
            if len(ready) > 1:
                i = rt.choose(f"task@{k}", ready)
                k += 1
            w = waits[i]
            if w is not None and not isinstance(w, SimFuture):
                w._asyncio_future_blocking = False
            try:
                y = coros[i].send(None)
            except StopIteration as stop:
                results[i] = ["ok", stop.value]
                alive.remove(i)
                continue
            except Exception as e:
                results[i] = failed(e)
                alive.remove(i)
                continue
            if not isinstance(y, SimFuture) \
                    and not getattr(y, "_asyncio_future_blocking", False):
                raise simos.SimBug(f"task {i} gives way with {y!r}")
            waits[i] = y
    except BaseException:       # killed / abandoned: unwind in this context
        for c in coros:
            try:
                c.close()
            except BaseException:
                pass
        raise
    return results


def x_body(rt):
    """one participant (see x_sessions).  Python objects die where their
    last reference is dropped (simos keeps the cyclic collector off): a
    task's Terminal and lock are referenced by the coroutines of its session
    only and die when the last of them completes; a spare LockFile dies at
    the point the explorer chose; the LockFile of a session when the next
    session has made its own (what rebinding `self.mbx_lock_file` in
    ParallelEtherCat.run does) - the library does not close it, so its
    descriptor stays open; everything else when this function returns, i.e.
    before the process exits"""
    tasks_all = rt.params["sched"][rt.pid()] == "all"
    if tasks_all:
        asyncio.events._set_running_loop(TaskLoop())
    try:
        return x_participant(rt, tasks_all)
    finally:
        if tasks_all:
            asyncio.events._set_running_loop(None)


def x_participant(rt, tasks_all):
    prm = rt.params
    pid = rt.pid()
    mine = prm["plan"][pid]
    sh = prm["shared"]

    def failed(e):
        return ["raise", type(e).__name__, _where(e), str(e)[:80]]
    try:
        ec = ecat_mod.ParallelEtherCat(X_IF)
        ec.terminal_addr_range = X_RANGE
        queue = ec.send_queue = BusQueue(sh)
    except Exception as e:
        return [failed(e)] * len(mine)
    results, n = [], 0
    for ses, ntasks in enumerate(prm["layout"][pid]):
        if prm["gate"]:
            # taking part begins.  Not while the last one of the session
            # before is still tearing it down: that race is C23's
            rt.syscall("join", (), lambda: sh.join(pid),
                       enabled=lambda: sh.tearing is None)
        made, r = x_session(rt, ec, queue, mine[n:n + ntasks], ses == 0,
                            tasks_all, failed)
        results += r
        n += ntasks
        if prm["gate"]:
            try:
                if rt.syscall("leave", (), lambda: sh.leave(pid)):
                    # the last one: ParallelEtherCat.run removes the lock
                    # file (and does not close it)
                    try:
                        if made:
                            ec.mbx_lock_file.remove()
                    finally:
                        rt.syscall("torn-down", (),
                                   lambda: sh.torn_down(rt))
            except Exception as e:
                results.append(failed(e))
    return results


def x_session(rt, ec, queue, mine, first, tasks_all, failed):
    """-> (was the LockFile made, [result per task])"""
    prm = rt.params
    sh = prm["shared"]
    how = prm["how"][rt.pid()]
    spare_kind = prm["spare"][rt.pid()] if first else None
    spare, point = [], [None]
    made = False

    def drop():
        del spare[:]

    def pause(j):
        if point[0] == ["after", j]:
            drop()
    coros = []
    try:
        if how == "unpickle":
            # a spawned child receives the pickled LockFile: __setstate__
            ec.mbx_lock_file = pickle.loads(prm["blob"])
        else:
            # the statement in ParallelEtherCat.run that creates it
            ec.mbx_lock_file = lock_mod.LockFile(
                f'/run/ebpf/{ec.addr[0]}', *ec.terminal_addr_range)
        made = True
        terms = {}
        for t, kinds, user in mine:
            term = terms.get(t)
            if term is None:
                term = Terminal(ec)
                term.position = sh.terms[t].station
                # as Terminal.initialize / gentle_initialize do
                term.mbx_lock = ec.get_mbx_lock(term.position)
                if how == "messages":
                    # every task got its lock in a pickled message of its
                    # own (what LockFile is picklable for): each copy opens
                    # the lock file anew
                    term.mbx_lock = pickle.loads(pickle.dumps(term.mbx_lock))
                else:
                    # the tasks of a process that talk to one terminal share
                    # its Terminal object
                    terms[t] = term
                term.mbx_out_off, term.mbx_out_sz = OUT_OFF, OUT_SZ
                term.mbx_in_off, term.mbx_in_sz = IN_OFF, IN_SZ
            coros.append(program(term, user, kinds, pause))
        del term, terms
        if spare_kind:
            # a second LockFile object of this process on the same file, made
            # the ways the library allows, and dropped at one of the points
            if spare_kind == "init":
                spare.append(lock_mod.LockFile(
                    f'/run/ebpf/{ec.addr[0]}', *ec.terminal_addr_range))
            elif spare_kind == "pickle":
                spare.append(pickle.loads(pickle.dumps(ec.mbx_lock_file)))
            elif spare_kind == "lock":
                spare.append(pickle.loads(pickle.dumps(
                    ec.get_mbx_lock(sh.terms[mine[0][0]].station))))
            else:
                raise simos.SimBug(f"spare kind {spare_kind!r}")
            points = prm["drops"]
            point[0] = points[rt.choose("drop", list(range(len(points))))]
            if point[0] == ["pre"]:
                drop()
            elif point[0][0] == "dg":
                queue.at, queue.drop = queue.count + point[0][1], drop
    except BaseException as e:
        for c in coros:         # not started: nothing to unwind
            c.close()
        if not isinstance(e, Exception):
            raise               # killed / abandoned
        return made, [failed(e)] * len(mine)
    if len(coros) == 1 and rt.pid() not in prm["yielding"]:
        try:
            return made, [["ok", simos.drive(coros[0])]]
        except Exception as e:
            return made, [failed(e)]
    if tasks_all:
        return made, x_tasks_all(rt, coros, failed)
    return made, x_tasks(coros, failed)


def _good(ev):
    r = ev[-1]
    return not (isinstance(r, list) and r[:1] == ["!"])


def _kf_window(log, pid, step=None):
    """the documented window of LockFile.__init__: a process created the lock
    file with O_EXCL at step i and writes its initial content at step k (or
    never: it crashed); this participant's pread of the counter at step j,
    i < j < k, returned nothing"""
    j = None
    for ev in log:
        if ev[1] == pid and ev[2] == "pread" and ev[4] == "b:":
            j = ev[0]
    if j is None:
        return None
    created = {}
    for ev in log:
        st, q, name, args = ev[:4]
        if q == pid or not _good(ev) or st > j:
            continue
        if name == "open" and args[0] == X_LOCKFILE \
                and isinstance(args[1], int) and args[1] & os.O_EXCL:
            created[q] = ev[4]
        elif name == "write" and q in created and args[0] == created[q]:
            del created[q]
    return KF_WINDOW if created else None


def _void_users(run):
    """{user: step} of participants that crashed inside an exchange before
    writing the counter back: their mails since `step` do not count"""
    out = {}
    for p in run.procs:
        if p.status != "crashed":
            continue
        s0 = committed = None
        for st, name, args, r in p.events:
            good = not (isinstance(r, list) and r[:1] == ["!"])
            if name == "lockf" and good:
                if args[1] & fcntl.LOCK_UN:
                    s0 = None
                else:
                    s0, committed = st, False
            elif name == "pwrite" and good and s0 is not None:
                committed = True
        if s0 is not None and not committed:
            out[p.pid] = s0
    return out


def x_monitor(run):
    prm = run.params
    sh = prm["shared"]
    out = []
    void = _void_users(run)         # only in spaces where user == process
    any_void = False

    def is_void(e, st):
        return e[0] == "in" and message_user(e[1]) in void \
            and st > void[message_user(e[1])]
    for k, tm in enumerate(sh.terms):
        if any(is_void(e, st) for e, st in zip(tm.events, tm.ev_steps)):
            # a participant crashed inside an exchange after sending mail:
            # that exchange is void; only the counters of the other mails
            # are judged
            any_void = True
            v = judge_counters([e for e, st in zip(tm.events, tm.ev_steps)
                                if not is_void(e, st)])
        else:
            v = judge_events(tm.events)
        if v:
            out.append(dict(inv="exchange", kind=v[0], who=[],
                            expected=v[1], observed=v[2],
                            note=f"terminal {k} (station {tm.station})"))
    # every byte of the lock file except the terminals' own keeps its value
    node = None
    try:
        node = run.world._walk(X_LOCKFILE)[2]
    except OSError:
        pass
    if node is not None:
        own = {tm.station - X_RANGE[0] for tm in sh.terms}
        init = bytes(X_RANGE[1] - X_RANGE[0])
        if not sh.epochs:       # still the file the space began with
            init = prm["content"] or init
        bad = [i for i, b in enumerate(node.data)
               if i not in own and (i >= len(init) or b != init[i])]
        if bad:
            out.append(dict(inv="neighbours", kind="counter of another "
                            "terminal changed", who=[],
                            expected=init.hex(),
                            observed=bytes(node.data).hex()))
    # every participant that starts obtains a valid counter / completes
    for p in run.procs:
        o = p.outcome
        if o is None or o[0] != "ok":
            if o is not None and o[0] == "exc":
                raise core.Internal(f"participant body raised {o}")
            continue
        for val in o[1]:
            if val[0] != "raise":
                continue
            inlock = val[2].startswith("lock.py")
            if any_void and not inlock:
                continue    # consequence of the crashed participant's mail
            out.append(dict(
                inv="participant", who=[p.pid],
                kind=f"{val[1]} out of {val[2]}",
                expected="every participant obtains a valid counter and "
                         "completes its exchanges",
                observed=f"participant {p.pid}: {val[1]}: {val[3]} "
                         f"(in {val[2]})",
                kf=_kf_window(run.log, p.pid)
                if val[1] == "ValueError" and val[2] == "lock.py:__aenter__"
                else None))
    if run.terminal() and not out and not any(
            p.status == "crashed" for p in run.procs):
        n = sum(len(m) for m in prm["plan"])
        for p in run.procs:
            for (t, kinds, user), val in zip(prm["plan"][p.pid],
                                             p.outcome[1]):
                tasks = [()] * n
                tasks[user] = kinds
                results = [("ok", [])] * n
                results[user] = tuple(val)
                server = sh.terms[t].server
                v = judge_results((tasks, 0), results, server)
                if v is None and server.protocol_errors:
                    v = ("terminal rejects a mail", [],
                         [list(e) for e in server.protocol_errors])
                if v:
                    out.append(dict(inv="results", kind=v[0], who=[p.pid],
                                    expected=v[1], observed=v[2]))
    return out


def x_describe(run):
    alive = run.parked()
    node = None
    try:
        node = run.world._walk(X_LOCKFILE)[2]
    except OSError:
        pass
    return dict(nontrivial=len(alive) >= 2 and (
        bool(run.world.locks) or (node is not None and not node.data)))


def x_space(name, progs, how, initial, latency, preempt, crashes, seed,
            cap=None, spare=None, drops=None, sched=None):
    """progs[u]: exchanges of participant u (see x_sessions); how[u]: 'init' |
    'unpickle' | 'messages' (created as 'init', but every task's lock is a
    pickled copy with a LockFile of its own); initial: None (no lock file
    yet) or the counter an earlier session left in the file; latency: polls
    before a terminal answers; spare[u]: None or how participant u gets a
    second LockFile object ('init' | 'pickle' | 'lock'); drops: the points
    at which it may drop it (one is chosen by the explorer): ['pre'] before
    its first exchange, ['dg', n] inside an exchange, before its n-th
    datagram, ['after', j] between exchange j and j + 1, ['end'] when it is
    done; sched[u]: how the tasks of participant u are interleaved with each
    other: 'nested' (one order, see x_tasks) or 'all' (see x_tasks_all)"""
    size = X_RANGE[1] - X_RANGE[0]
    plan = x_plan(progs)
    layout = x_layout(progs)
    n_users = sum(len(m) for m in plan)
    n_terms = 1 + max(t for m in plan for t, _, _ in m)
    stations = [X_RANGE[0] + (5 + seed + 3 * k) % size
                for k in range(n_terms)]
    station = stations[0]
    gate = any(len(l) > 1 for l in layout)
    sched = [c or "nested" for c in sched or [None] * len(plan)]
    spare = list(spare) if spare else [None] * len(plan)
    if crashes and (n_users != len(plan) or gate):
        raise core.Internal("crash spaces need one task per participant")
    if gate and any(spare):
        raise core.Internal("spare LockFile objects and sessions are not "
                            "combined")

    def norm(ses):
        return [[t, "".join(k)] for t, k in ses] if len(ses) > 1 \
            or ses[0][0] else list(ses[0][1])
    for u, p in enumerate(progs):
        for ses in x_sessions(p):
            if len({t for t, _ in ses}) < len(ses) and (
                    sched[u] != "all" or how[u] == "messages"):
                raise core.Internal(
                    "two tasks of a process on one terminal share its "
                    "Terminal object and wait for each other: schedule "
                    "'all', not 'messages'")
    progs = [dict(sessions=[norm(ses) for ses in x_sessions(p)])
             if len(x_sessions(p)) > 1 else norm(x_sessions(p)[0])
             for p in progs]
    content = None
    if initial is not None:
        content = bytearray((i + seed) % 7 + 1
                            for i in range(X_RANGE[1] - X_RANGE[0]))
        for st in stations:
            content[st - X_RANGE[0]] = initial
        content = bytes(content)
    drops = [list(d) for d in drops or [["end"]]]
    params = dict(progs=progs, how=list(how), initial=initial,
                  latency=latency, preempt=preempt, crashes=crashes,
                  seed=seed, station=station, stations=stations)
    if any(spare):
        params.update(spare=spare, drops=drops)
    if "all" in sched:
        params.update(sched=sched)
    lf = lock_mod.LockFile.__new__(lock_mod.LockFile)
    lf.filename, lf.minimum, lf.maximum = X_LOCKFILE, *X_RANGE
    blob = pickle.dumps(lf)

    def factory():
        w = simos.World(["/run"])
        if content is not None:
            w.makedirs(9, "/run/ebpf", exist_ok=True)
            fd = w.open(9, X_LOCKFILE, os.O_CREAT | os.O_RDWR)
            w.write(9, fd, content)
            w.exit_process(9)
        sh = Shared(n_users, stations, latency)
        return XRun(w, [x_body] * len(plan),
                    params=dict(shared=sh, plan=plan, layout=layout,
                                gate=gate, sched=sched, how=list(how),
                                blob=blob, content=content, spare=spare,
                                drops=drops,
                                yielding={u for u, l in enumerate(layout)
                                          if max(l) > 1}))
    return simos.Space(name, factory, x_monitor, preempt=preempt,
                       crashes=crashes, params=params, describe=x_describe,
                       state_cap=cap)


def x_space_from_params(name, p):
    return x_space(name, p["progs"], p["how"], p["initial"], p["latency"],
                   p["preempt"], p["crashes"], p["seed"],
                   spare=p.get("spare"), drops=p.get("drops"),
                   sched=p.get("sched"))


def x_spaces(ctx):
    s = ctx.seed
    I, U, M, A = "init", "unpickle", "messages", "all"
    inside = [["dg", 0], ["dg", 2], ["dg", 4]]
    if ctx.quick:
        sp = [x_space("x2-fresh-1ex", ["r", "w"], [I, I], None, 0, None, 0,
                      s),
              x_space("x2-existing7-1ex", ["o", "r"], [I, U], 7, 1, None, 0,
                      s),
              # process 0 talks to two terminals from two tasks (the second
              # exchange runs inside the first), process 1 to one of them;
              # the tasks of process 0 got their locks in two messages: the
              # copy of the second task dies inside the first one's exchange
              x_space("x2-two-terminals-messages",
                      [[[1, "r"], [0, "w"]], [[1, "o"]]],
                      [M, I], None, 0, None, 0, s),
              # process 0 owns a second LockFile and drops it somewhere
              x_space("x2-spare-dropped", ["r", "w"], [I, U], 6, 0, None, 0,
                      s, spare=["pickle", None],
                      drops=[["pre"]] + inside[1:] + [["end"]]),
              # the terminal refuses exchanges; others follow
              x_space("x2-refused", ["Rr", "w"], [I, U], 7, 0, None, 0, s),
              x_space("x2-refused-both", ["V", "O"], [I, I], 5, 0, None, 0,
                      s),
              # THREE users of one terminal: two tasks of process 0 (they
              # share its Terminal object, in every order an event loop can
              # produce) and process 1
              x_space("x2-same-terminal", [[[0, "r"], [0, "w"]], "o"],
                      [I, U], 6, 0, None, 0, s, sched=[A, None]),
              # life cycle: process 0 takes part twice; whoever leaves as
              # the last one removes the lock file (and keeps its
              # descriptor); process 1 takes part once, at any time
              x_space("x2-rejoin", [dict(sessions=["r", "w"]), "o"], [I, I],
                      6, 0, None, 0, s)]
    else:
        sp = [x_space("x2-fresh-2ex", ["rw", "or"], [I, I], None, 1, None,
                      0, s),
              x_space("x2-existing6-2ex", ["wr", "ro"], [I, U], 6, 0, None,
                      0, s),
              x_space("x2-fresh-1ex-crash1", ["r", "w"], [I, I], None, 0,
                      None, 1, s),
              x_space("x2-existing7-2ex-crash1", ["rw", "wr"], [U, I], 7, 0,
                      None, 1, s),
              x_space("x3-fresh-1ex", ["r", "w", "o"], [I, I, U], None, 0,
                      None, 0, s),
              x_space("x3-existing-1ex-preempt2-crash1", ["r", "w", "r"],
                      [I, U, I], 1 + (4 + s) % 7, 0, 2, 1, s),
              x_space("x2-two-terminals-2ex",
                      [[[1, "rw"], [0, "wo"]], [[1, "or"]]], [I, U], 6, 1,
                      None, 0, s),
              x_space("x3-two-terminals",
                      [[[1, "r"], [0, "w"]], [[1, "o"]], [[0, "r"]]],
                      [I, I, I], None, 0, None, 0, s),
              # second LockFile objects in one process
              x_space("x2-two-terminals-messages",
                      [[[1, "r"], [0, "w"]], [[1, "o"]]],
                      [M, I], None, 0, None, 0, s),
              x_space("x3-two-terminals-messages",
                      [[[1, "o"], [0, "r"]], [[1, "w"]], [[0, "o"]]],
                      [M, U, M], 7, 0, None, 0, s),
              x_space("x2-spare-dropped-2ex", ["rw", "o"], [I, I], 6, 0,
                      None, 0, s, spare=["init", None],
                      drops=[["pre"]] + inside + [["after", 1], ["dg", 7],
                                                  ["end"]]),
              x_space("x2-spare-lock-dropped", ["o", "r"], [U, I], None, 1,
                      None, 0, s, spare=["lock", None],
                      drops=[["pre"], ["dg", 1], ["dg", 3], ["dg", 5],
                             ["end"]]),
              x_space("x3-spares-dropped", ["w", "r", "o"], [I, U, I], 7, 0,
                      None, 0, s, spare=["pickle", "init", None],
                      drops=[["pre"], ["dg", 2], ["end"]]),
              # exchanges the terminal refuses
              x_space("x2-refused-2ex", ["Rw", "Or"], [I, U], 6, 0, None, 0,
                      s),
              x_space("x2-refused-fresh-2ex", ["Vr", "Nw"], [I, I], None, 1,
                      None, 0, s),
              x_space("x2-refused-after-lock", ["Wr", "Wo"], [U, I], 7, 0,
                      None, 0, s),
              x_space("x3-refused", ["R", "w", "O"], [I, I, U], 7, 0, None,
                      0, s),
              x_space("x2-refused-crash1", ["Rr", "V"], [I, I], 5, 0, None,
                      1, s),
              # several tasks of one process on ONE terminal, the tasks in
              # all orders; complete, or bounded by preemptions between the
              # processes (the choice among the tasks of a process is free)
              x_space("x2-same-terminal", [[[0, "r"], [0, "w"]], "o"],
                      [I, U], 6, 0, None, 0, s, sched=[A, None]),
              x_space("x2-same-terminal-fresh",
                      [[[0, "o"], [0, "r"]], "w"], [I, I], None, 1, None, 0,
                      s, sched=[A, None]),
              x_space("x2-same-terminal-2ex-preempt2",
                      [[[0, "rw"], [0, "o"]], "wr"], [I, I], 6, 0, 2, 0,
                      s, sched=[A, None]),
              x_space("x2-same-terminal-both-preempt1",
                      [[[0, "r"], [0, "o"]], [[0, "w"], [0, "r"]]], [U, I],
                      7, 0, 1, 0, s, sched=[A, A]),
              x_space("x3-same-terminal-preempt1",
                      [[[0, "r"], [0, "w"]], "o", "r"], [I, U, I], 7, 0,
                      1, 0, s, sched=[A, None, None]),
              x_space("x2-same-terminal-refused",
                      [[[0, "R"], [0, "w"]], "Or"], [I, I], 6, 0, None, 0,
                      s, sched=[A, None]),
              # life cycles on the lock file
              x_space("x2-rejoin", [dict(sessions=["r", "w"]), "o"], [I, I],
                      6, 0, None, 0, s),
              x_space("x2-rejoin-fresh", [dict(sessions=["w", "o"]), "r"],
                      [I, U], None, 0, None, 0, s),
              x_space("x2-rejoin-both",
                      [dict(sessions=["r", "w"]), dict(sessions=["o", "r"])],
                      [I, U], 6, 0, None, 0, s),
              x_space("x2-rejoin-thrice",
                      [dict(sessions=["r", "w", "o"]), "w"], [I, I], None, 0,
                      None, 0, s),
              x_space("x2-rejoin-2ex-preempt3",
                      [dict(sessions=["rw", "o"]), "wr"], [U, I], None, 1,
                      3, 0, s),
              x_space("x3-rejoin-preempt1",
                      [dict(sessions=["r", "w"]), "o", "w"], [I, I, U], None,
                      0, 1, 0, s),
              x_space("x2-rejoin-same-terminal-preempt2",
                      [dict(sessions=[[[0, "r"], [0, "w"]], "o"]), "r"],
                      [I, I], 6, 0, 2, 0, s, sched=[A, None])]
    only = os.environ.get("C15_SPACES")       # development aid
    if only:
        sp = [x for x in sp if x.name in only.split(",")]
    return sp


_SEAMS = None


def x_install():
    global _SEAMS
    if _SEAMS is None:
        _SEAMS = simos.Seams()
        simos.install_ebpfcat(_SEAMS, ebpfcat_mod=False)
        _SEAMS.set(ecmod, "Future", SimFuture)


def x_uninstall():
    global _SEAMS
    if _SEAMS is not None:
        _SEAMS.restore()
        _SEAMS = None


def run_cross(ctx, res):
    diffs = simos.conformance()
    if diffs:
        raise core.Internal("simos does not conform to the real OS: "
                            + "; ".join(diffs[:5]))
    bad = simos.selftest_library_state()
    if bad:
        raise core.Internal("simos does not own the library's module / class "
                            "data: " + "; ".join(bad[:3]))
    if "ebpfcat.lock" not in simos.owned_library_modules():
        raise core.Internal("ebpfcat.lock is not registered with simos")
    x_install()
    try:
        per = {}
        tot = dict(states=0, transitions=0, executions=0)
        for sp in x_spaces(ctx):
            a = simos.execute(sp, [])
            b = simos.execute(sp, [])
            if a["digest"] != b["digest"]:
                raise core.Internal(f"{sp.name}: initial state is not "
                                    "deterministic")
            st = simos.explore(ctx, sp, res)
            st["confirmed_replays"] = simos.confirm(sp, res)
            per[sp.name] = st
            for k in tot:
                tot[k] += st[k]
        res.cov["crossprocess_states"] = tot["states"]
        res.cov["crossprocess_transitions"] = tot["transitions"]
        res.cov["crossprocess_executions"] = tot["executions"]
        res.cov["crossprocess_spaces"] = per
        res.cov["crossprocess_bound_completed"] = {
            sp.name: dict(
                participants=len(sp.params["progs"]),
                exchanges=[p if isinstance(p, dict)
                           or p and isinstance(p[0], list) else "".join(p)
                           for p in sp.params["progs"]],
                tasks_of_a_process_interleaved=sp.params.get("sched"),
                terminals=len(sp.params["stations"]),
                lock_file=("created by the participants"
                           if sp.params["initial"] is None else
                           f"exists, counter {sp.params['initial']}"),
                obtained=sp.params["how"], latency=sp.params["latency"],
                second_lockfile=sp.params.get("spare"),
                dropped_at=sp.params.get("drops"),
                preemptions=("unbounded (all interleavings)"
                             if sp.preempt is None else sp.preempt),
                crashes=sp.crashes, completed=per[sp.name]["complete"])
            for sp in x_spaces(ctx)}
        res.cov["simos_conformance"] = "passed"
        res.cov["library_data_owned"] = simos.owned_library_modules()
    finally:
        x_uninstall()
    return tot


def run(ctx):
    try:
        stats = coe.selftest(os.path.dirname(os.path.dirname(ecmod.__file__)))
        selftest_oracle()
    except AssertionError as e:
        raise core.Internal(f"self-test failed: {e!r}")
    bound = 2 if ctx.quick else 3
    cap = 4000 if ctx.quick else 60000
    items = []
    for lock_name in LOCK_KINDS:
        warms = (0, 6) if ctx.quick else \
            sorted({0, 6, 1 + (3 + ctx.seed) % 5})
        for tasks in configurations(ctx):
            for warm in warms:
                b = bound if len(tasks) == 2 or ctx.quick else bound - 1
                items.append(((tasks, warm), lock_name, b, cap))
        for tasks in failing_configurations(ctx):
            for warm in warms[:2]:
                b = bound if len(tasks) == 2 or ctx.quick else bound - 1
                items.append(((tasks, warm), lock_name, b, cap))
        # a task that has not completed may be cancelled (one more kind of
        # deviation, so these configurations are enumerated separately)
        R, W, O = ("r",), ("w",), ("o",)
        cconfs = [((R, W, O), 0), ((("r", "w"), O), 6)]
        if not ctx.quick:
            cconfs += [((R, R, R), 6), ((W, O, R), 0), ((("o",), ("r", "w")),
                                                      0),
                       ((("w", "r"), ("r", "o")), 0)]
        for tasks, warm in cconfs:
            items.append(((tasks, warm, True), lock_name,
                          1 if ctx.quick else 2, cap))
    probe = ((("r", "w"), ("o",)), 6)
    a = execute(explore.Chooser((0, 1, 1, 2)), probe, "MailboxLock")[0]
    b = execute(explore.Chooser((0, 1, 1, 2)), probe, "MailboxLock")[0]
    if a != b:
        raise core.Internal("non-deterministic execution")
    items = [items[i] for i in sorted(range(len(items)),
                                      key=lambda i: (i % 31, i))]
    if os.environ.get("C15_PART") == "cross":     # development aid
        items = items[:1]
    with simos.frozen_heap():   # cheap per-execution collection (workers too)
        res = core.pmap(ctx, work, items, chunk=1)
    res.cov["inprocess_executions"] = res.cov.get("evaluations", 0)
    res.cov["inprocess_frames"] = res.cov.get("transitions", 0)
    res.cov["inprocess_distinct_nontrivial"] = len(res.nontrivial)
    cross = run_cross(ctx, res)
    res.cov["states"] = res.cov["inprocess_distinct_nontrivial"] \
        + cross["states"]
    res.cov["transitions"] = res.cov["inprocess_frames"] \
        + cross["transitions"]
    res.cov["evaluations"] = res.cov["inprocess_executions"] \
        + cross["executions"]
    res.cov["traces_validated_against_impl"] = res.cov["evaluations"]
    res.cov["configurations"] = len(items)
    res.cov["bound_completed"] = bound
    res.cov["lock_kinds"] = list(LOCK_KINDS)
    res.cov["model_selftest"] = stats
    res.sample(dict(space="x2-fresh-1ex", schedule="all interleavings",
                    meaning="cross-process: two processes create/open the "
                            "lock file, one sdo_read and one sdo_write"))
    res.sample(dict(tasks=[["r", "w"], ["o"]], warm=6,
                    meaning="user 0: sdo_read then sdo_write, user 1: "
                            "read_object_entry, after 6 earlier exchanges "
                            "(the counter wraps from 7 to 1 during the run)"))
    res.assumptions += [
        "in-process lock kinds: MailboxLock (EtherCat.get_mbx_lock) and "
        "ParallelMailboxLock on a LockFile in the simulated OS (one process: "
        "lockf never refuses); a ParallelMailboxLock violation is attributed "
        "to the known finding only if the byte lock was granted twice AND "
        "the configuration's whole bounded space holds once the tasks also "
        "exclude each other with an asyncio.Lock",
        "cross-process: every participant uses the same terminal_addr_range "
        "(8 bytes) and the same station address; a datagram is applied to "
        "the terminal atomically at its scheduling point (frames of "
        "different processes are not merged, lost or reordered); "
        "makedirs and each file operation are atomic steps; a participant "
        "spinning on a held byte lock is disabled until it is released",
        "cross-process, crash: a participant killed inside an exchange "
        "before it wrote the counter back leaves a void exchange: its mails "
        "of that exchange are not counted when the successor relation is "
        "judged, interleaving with it is not judged, and survivors that "
        "fail inside ebpfcat/ethercat.py on the stale response are not "
        "blamed; failures inside ebpfcat/lock.py always are",
        "cross-process: bytes of the lock file other than the terminal's own "
        "must keep their value (they are other terminals' counters)",
        "not covered here: the last leaver's LockFile.remove() racing with a "
        "new session (the dispatcher race of C23)",
        "life cycles (spaces with sessions): a participant takes part "
        "several times in the same process; each time it makes a new "
        "LockFile on the same name (directly or by unpickling) and new "
        "Terminal / lock objects, the LockFile of the time before is dropped "
        "when the new one is bound (as `self.mbx_lock_file = LockFile(...)` "
        "in ParallelEtherCat.run does) and is not closed by anybody.  "
        "Taking part begins with a harness step `join` and ends with "
        "`leave`, which tells the participant whether it was the last one "
        "(what the rmdir of the lock directory tells run()); the last one "
        "calls LockFile.remove() and does not close it.  Nobody joins while "
        "the last one is between `leave` and the end of remove() (the race "
        "of a new session with the tear-down of the old one is the known "
        "finding C23-last-leaver-race).  A participant that joins before "
        "the last one leaves keeps the session alive: nothing is removed",
        "life cycles, oracle: once everybody has left and the last one has "
        "removed the lock file, a new session begins: its first mail may "
        "carry any counter (a new lock file starts at 0), from there on the "
        "successor relation holds again; exclusion is judged over the whole "
        "execution; bytes of other terminals must be 0 in a lock file made "
        "after a removal",
        "simulated unlink: an open descriptor keeps the unlinked inode "
        "(content and record locks) alive, a new file of the same name is "
        "another inode, record locks are per (process, inode); checked "
        "against the real OS (simos.conformance, script 'unlink')",
        "library data: module-level and class-level data of ebpfcat.lock "
        "(dict / list / set / bytearray / deque restored in place, numbers / "
        "strings / tuples / None rebound, other deep-copyable non-callable "
        "objects rebound to a copy, attributes that did not exist at import "
        "removed; names rebound by the harness's seams excepted) is reset to "
        "its import-time value before every execution of either half - "
        "never inside one - and every simulated process owns a private copy "
        "that starts from the import-time value (a process that was started "
        "on its own, or spawned; a forked child inheriting used library "
        "data is not modelled).  Data kept elsewhere (closures, "
        "function attributes, other modules) is not owned",
        "the first mail the terminal sees may carry any counter; every "
        "later one must carry the successor in the cycle 1..7",
        "an exchange is open from the request until its response has been "
        "fetched from the read mailbox; responses fit one mail",
        "frames are not lost; response latency <= 2 polls",
        "in-process cancellation (separate configurations, at most one per "
        "execution, one deviation): any started, unfinished task may be "
        "cancelled at a loop-idle point; the cancelled task's own "
        "CancelledError is accepted, every other user must still get its "
        "own result and the counter chain / exclusion must hold.  If the "
        "cancelled task was inside the lock (its request may be on the wire "
        "or its response outstanding, which no later user can know) the "
        "execution is counted as outside_precondition and not judged",
        "cross-process, several terminals, task schedule 'nested': a "
        "participant with two tasks "
        "runs them in one fixed order an event loop can produce (task 2 "
        "starts when task 1 waits for its first datagram, i.e. after it "
        "took its lock, and completes before task 1 goes on); all "
        "interleavings with the other processes are explored",
        "cross-process, task schedule 'all' (every space in which two tasks "
        "of a process use the same terminal): the tasks of a process that "
        "talk to one terminal share its Terminal object and its mbx_lock "
        "(as tasks of one program do; two Terminal objects for one terminal "
        "in one process are not claimed to exclude each other).  A task "
        "runs without giving way between two awaits that really suspend: "
        "waiting for a datagram's answer, waiting for a future (asyncio.Lock "
        "waiters; the futures are real asyncio futures on a loop object "
        "that never schedules anything).  Whenever more than one task can "
        "go on (not started, answer there, future done) the explorer "
        "chooses which; a datagram's answer is there at once, so 'the frame "
        "of this task is slower than everything the other tasks do' is one "
        "of the orders.  A task that spins on a byte lock held by another "
        "process (await sleep(0)) keeps its whole process waiting until the "
        "lock is free.  If all tasks of a process wait for each other the "
        "participant fails (TasksStuck) and is reported",
        "3 tasks: bound reduced by one in thorough; quick: 3 tasks do one "
        "exchange each",
        "refused exchanges (R N V W O, see the module docstring): the CoE "
        "server model answers with an abort / an SDO information error; the "
        "user catches the EtherCatError and goes on.  The refused exchange "
        "sent a mail and has consumed its counter: the counter chain and "
        "the exclusion are judged as for any other exchange.  What the "
        "library returns or raises for a refused exchange is not judged "
        "(only that the read-only entry keeps its value); an SDO "
        "information error response names no object and is accepted as the "
        "response of whichever exchange is open",
        "second LockFile objects: a participant's tasks may each hold a "
        "pickled copy of their lock (own descriptor), referenced by the "
        "task only, or the participant holds one spare LockFile (second "
        "LockFile(...), pickle round trip of the LockFile or of a "
        "ParallelMailboxLock) and drops its only reference at one point "
        "chosen by the explorer from the space's list (before the first "
        "exchange, before its n-th datagram, between two exchanges, at the "
        "end).  Objects die by reference counting at the step that drops "
        "them, with whatever scheduling points their destructor has; "
        "objects in reference cycles die when the execution is over "
        "(CPython gives no earlier guarantee).  Closing a descriptor drops "
        "all record locks of the process on that file (checked against the "
        "real OS by simos.conformance)",
        "the cyclic garbage collector is off while an execution runs; each "
        "execution's garbage is destroyed before its simulated OS is "
        "uninstalled"]
    return res


def replay_cross(ctx, rep):
    c = rep["case"]
    x_install()
    try:
        sp = x_space_from_params(c["space"], c["params"])
        out = simos.execute(sp, c["schedule"])
        again = simos.execute(sp, c["schedule"])
        if out["digest"] != again["digest"]:
            raise core.Internal("replay is not deterministic")
    finally:
        x_uninstall()
    print(f"space {c['space']} {c['params']}")
    for st, pid, name, args, r in out["trace"]:
        print(f"  step {st:3} process {pid}: {name}{tuple(args)!r} -> {r!r}")
    print("  final:", out["pending"], "outcomes", out["outcomes"])
    res = core.Result()
    for v in out["violations"]:
        simos._report(sp, res, v, c["schedule"][:v["at_choice"]])
    return res.violations


def replay(ctx, rep):
    if "space" in rep["case"]:
        return replay_cross(ctx, rep)
    res = core.Result()
    c = rep["case"]
    conf = (tuple(tuple(p) for p in c["conf"][0]),) + tuple(c["conf"][1:])
    out = execute(explore.Chooser(tuple(c["choices"])), conf, c["lock"])
    for e in out[0]["events"]:
        print("  ", e[0], (e[1][:44] if len(e) > 1 else ""))
    print("results", out[0]["results"])
    v = judge(conf, out)
    if v:
        res.violation(c, v[1], v[2], note=v[0])
    return res.violations
