#!/venv/bin/python
"""Mutation self-test helper.

  mut.py [--tests] [--tier T] PROP[,PROP..] FILE OLD NEW      (string replacement)
  mut.py [--tests] [--tier T] PROP[,PROP..] --patch P.diff    (git-style patch)

Copies /repo to a scratch directory outside /repo and /verif, applies the
change, optionally runs the repository's test suite there, runs the checks
with EBPFCAT_SRC pointing at the copy (no evidence written), reports, and
removes the copy.
"""
import argparse
import os
import shutil
import subprocess
import sys
import tempfile

HERE = os.path.dirname(os.path.abspath(__file__))
VERIF = os.path.dirname(HERE)


def main():
    ap = argparse.ArgumentParser()
    ap.add_argument("--tests", action="store_true")
    ap.add_argument("--tier", default="quick")
    ap.add_argument("--patch")
    ap.add_argument("props")
    ap.add_argument("rest", nargs="*")
    a = ap.parse_args()
    tmp = tempfile.mkdtemp(prefix="ebpfcat-mut-")
    try:
        dst = os.path.join(tmp, "repo")
        shutil.copytree("/repo", dst, ignore=shutil.ignore_patterns(
            ".git", "__pycache__", ".benchmarks"))
        if a.patch:
            subprocess.run(["patch", "-p1", "-s", "-d", dst, "-i",
                            os.path.abspath(a.patch)], check=True)
        else:
            fn, old, new = a.rest
            path = os.path.join(dst, fn)
            src = open(path).read()
            if src.count(old) != 1:
                print(f"MUT-ERROR: {src.count(old)} occurrences of OLD in {fn}")
                return 3
            open(path, "w").write(src.replace(old, new))
        if a.tests:
            r = subprocess.run(
                ["/venv/bin/python", "-m", "pytest", "-q", "-x", "-p",
                 "no:cacheprovider", "--timeout=900", "-q",
                 "--deselect", "ebpfcat/ebpf_test.py::KernelTests::test_hashtable",
                 "--deselect", "ebpfcat/ethercat_test.py::Tests",
                 "--deselect", "ebpfcat/ethercat_test.py::UnitTests"],
                cwd=dst, capture_output=True, text=True,
                env=dict(os.environ, PYTHONPATH=dst,
                         PYTHONDONTWRITEBYTECODE="1"))
            tail = r.stdout.strip().splitlines()[-1:] if r.stdout else []
            print("TESTS:", "pass" if r.returncode == 0 else "FAIL", tail)
        rc_all = 0
        for prop in a.props.split(","):
            r = subprocess.run(
                [os.path.join(VERIF, "check"), prop, "--tier", a.tier,
                 "--no-evidence"],
                cwd=VERIF, capture_output=True, text=True,
                env=dict(os.environ, EBPFCAT_SRC=dst))
            lines = r.stdout.strip().splitlines()
            viol = [l for l in lines if l.startswith("VIOLATION")]
            print(f"{prop}: exit={r.returncode} violations={len(viol)} "
                  f"| {lines[-1] if lines else r.stderr[-300:]}")
            for v in viol[:3]:
                path = v.split("replay=")[1]
                try:
                    import json
                    rep = json.load(open(path))
                    print("   ", rep.get("note"), "| exp:",
                          str(rep.get("expected"))[:100], "| obs:",
                          str(rep.get("observed"))[:100])
                except Exception:
                    pass
            if r.returncode == 2:
                print(r.stdout[-1500:], r.stderr[-1500:])
            rc_all = max(rc_all, r.returncode)
        return rc_all
    finally:
        shutil.rmtree(tmp, ignore_errors=True)


if __name__ == "__main__":
    sys.exit(main())
