"""An independent eBPF interpreter with typed memory regions and traps.

No ebpfcat import.  Programs are decoded from the assembled bytes.
Registers hold a scalar (int, 0..2**64-1), a Ptr, a MapRef or None (never
written).  All memory lives in named regions; every out-of-region access, read
of an unwritten register, bad jump or unknown opcode is a Trap with a reason.
"""
import struct

M64 = (1 << 64) - 1
M32 = (1 << 32) - 1

XDP_ABORTED, XDP_DROP, XDP_PASS, XDP_TX, XDP_REDIRECT = range(5)


class Trap(Exception):
    pass


class Ptr:
    __slots__ = ("region", "off")

    def __init__(self, region, off):
        self.region = region
        self.off = off

    def __repr__(self):
        return f"Ptr({self.region!r},{self.off})"

    def __eq__(self, o):
        return isinstance(o, Ptr) and o.region == self.region \
            and o.off == self.off

    def __hash__(self):
        return hash((self.region, self.off))


class MapRef:
    __slots__ = ("fd",)

    def __init__(self, fd):
        self.fd = fd

    def __repr__(self):
        return f"MapRef({self.fd})"

    def __eq__(self, o):
        return isinstance(o, MapRef) and o.fd == self.fd

    def __hash__(self):
        return hash(("map", self.fd))


def sx(v, bits):
    v &= (1 << bits) - 1
    return v - (1 << bits) if v >> (bits - 1) else v


def decode(code):
    """bytes -> list of (opcode, dst, src, off, imm); LD_IMM64 keeps its
    second slot as a ('pad',) entry so that jump offsets stay slot based"""
    if len(code) % 8:
        raise Trap("program length not a multiple of 8")
    out = []
    n = len(code) // 8
    i = 0
    while i < n:
        op, regs, off, imm = struct.unpack_from("<BBhi", code, i * 8)
        dst, src = regs & 15, regs >> 4
        if op == 0x18:
            if i + 1 >= n:
                raise Trap("truncated LD_IMM64")
            op2, regs2, off2, imm2 = struct.unpack_from("<BBhi", code,
                                                        (i + 1) * 8)
            if op2 or regs2 or off2:
                raise Trap("malformed LD_IMM64 second slot")
            out.append((op, dst, src, off,
                        (imm & M32) | ((imm2 & M32) << 32)))
            out.append(None)
            i += 2
        else:
            out.append((op, dst, src, off, imm))
            i += 1
    return out


class BpfMap:
    """kernel map semantics (array, percpu array, hash, lru hash, prog array)"""
    HASH, ARRAY, PROG_ARRAY, PERCPU_ARRAY, LRU_HASH = 1, 2, 3, 6, 9

    def __init__(self, mtype, key_size, value_size, max_entries, ncpu=1,
                 flags=0):
        self.type = mtype
        self.key_size = key_size
        self.value_size = value_size
        self.max_entries = max_entries
        self.flags = flags
        self.ncpu = ncpu
        self.stride = (value_size + 7) // 8 * 8
        if mtype == self.ARRAY:
            # one contiguous area like the kernel (mmap sees all elements)
            self.area = bytearray(self.stride * max_entries)
        elif mtype == self.PERCPU_ARRAY:
            self.area = [bytearray(self.stride * max_entries)
                         for _ in range(ncpu)]
        elif mtype == self.PROG_ARRAY:
            self.progs = {}
        else:
            self.entries = {}   # key bytes -> bytearray; insertion = LRU order

    def snapshot(self):
        if self.type == self.ARRAY:
            return bytes(self.area)
        if self.type == self.PERCPU_ARRAY:
            return tuple(bytes(a) for a in self.area)
        if self.type == self.PROG_ARRAY:
            return tuple(sorted(self.progs.items()))
        return tuple(sorted((k, bytes(v)) for k, v in self.entries.items()))


class Kernel:
    """what is shared between program instances: maps and loaded programs"""

    def __init__(self):
        self.maps = {}     # fd -> BpfMap
        self.progs = {}    # fd -> decoded instruction list
        self.ktime = 1_000_000
        self.ktime_step = 1000
        self.prandom = [0x12345678]
        self.prandom_i = 0

    def next_ktime(self):
        self.ktime += self.ktime_step
        return self.ktime

    def next_prandom(self):
        v = self.prandom[self.prandom_i % len(self.prandom)]
        self.prandom_i += 1
        return v & M32


class VM:
    """one program instance (registers, stack, pc) on a Kernel"""
    MAX_STEPS = 100000

    def __init__(self, kernel, insns, packet=None, cpu=0, ctx_kind="xdp"):
        self.k = kernel
        self.insns = insns
        self.cpu = cpu
        self.packet = packet if packet is not None else bytearray()
        self.reset()

    def reset(self):
        self.regs = [None] * 11
        self.regs[1] = Ptr("ctx", 0)
        self.regs[10] = Ptr("stack", 512)
        self.stack = bytearray(b"\xa5" * 512)
        self.stack_init = bytearray(512)
        self.stack_ptrs = {}
        self.pc = 0
        self.steps = 0
        self.done = False
        self.retval = None
        self.uninit_stack_reads = []
        self.tail_calls = 0
        self.trace_pcs = None

    # ------------------------------------------------------------ memory
    def _region(self, ptr, size, write):
        r = ptr.region
        if r == "stack":
            if ptr.off < 0 or ptr.off + size > 512:
                raise Trap(f"stack access out of bounds at r10{ptr.off - 512:+d} "
                           f"size {size}")
            return self.stack, ptr.off
        if r == "pkt":
            if ptr.off < 0 or ptr.off + size > len(self.packet):
                raise Trap(f"packet access out of bounds: offset {ptr.off} "
                           f"size {size} packet length {len(self.packet)}")
            return self.packet, ptr.off
        if r == "ctx":
            raise Trap("direct ctx access of unsupported shape")
        if isinstance(r, tuple) and r[0] == "map":
            m = self.k.maps[r[1]]
            if ptr.off < 0 or ptr.off + size > m.value_size:
                raise Trap(f"map value access out of bounds: offset {ptr.off} "
                           f"size {size} value_size {m.value_size}")
            if m.type == BpfMap.ARRAY:
                return m.area, r[2] * m.stride + ptr.off
            if m.type == BpfMap.PERCPU_ARRAY:
                return m.area[self.cpu], r[2] * m.stride + ptr.off
            v = m.entries.get(r[2])
            if v is None:
                raise Trap("access to deleted hash map element")
            return v, ptr.off
        raise Trap(f"dereference of unknown region {r!r}")

    def load(self, ptr, size):
        if not isinstance(ptr, Ptr):
            raise Trap(f"load through non-pointer {ptr!r}")
        if ptr.region == "ctx":
            if size != 4 or ptr.off not in (0, 4, 8):
                raise Trap(f"unsupported xdp_md read off={ptr.off} size={size}")
            return [Ptr("pkt", 0), Ptr("pkt", len(self.packet)),
                    Ptr("pkt", 0)][ptr.off // 4]
        buf, o = self._region(ptr, size, False)
        if ptr.region == "stack":
            if size == 8 and o in self.stack_ptrs:
                return self.stack_ptrs[o]
            if not all(self.stack_init[o:o + size]):
                self.uninit_stack_reads.append((o - 512, size, self.pc))
        return int.from_bytes(buf[o:o + size], "little")

    def store(self, ptr, size, value):
        if not isinstance(ptr, Ptr):
            raise Trap(f"store through non-pointer {ptr!r}")
        buf, o = self._region(ptr, size, True)
        if ptr.region == "stack":
            for a in [a for a in self.stack_ptrs if a < o + size and o < a + 8]:
                del self.stack_ptrs[a]
            self.stack_init[o:o + size] = b"\1" * size
            if isinstance(value, (Ptr, MapRef)):
                if size != 8 or o % 8:
                    raise Trap("partial/unaligned pointer spill")
                self.stack_ptrs[o] = value
                buf[o:o + 8] = b"\xee" * 8
                return
        elif isinstance(value, (Ptr, MapRef)):
            raise Trap("pointer leaked into map/packet memory")
        buf[o:o + size] = (value & ((1 << (8 * size)) - 1)).to_bytes(
            size, "little")

    # ------------------------------------------------------------ registers
    def rd(self, r):
        v = self.regs[r]
        if v is None:
            raise Trap(f"read of uninitialised register r{r} at pc {self.pc}")
        return v

    def scalar(self, r):
        v = self.rd(r)
        if not isinstance(v, int):
            raise Trap(f"pointer r{r}={v!r} used as scalar at pc {self.pc}")
        return v

    # ------------------------------------------------------------ execution
    def run(self):
        while not self.done:
            self.step()
        return self.retval

    def step(self):
        if self.done:
            return
        self.steps += 1
        if self.steps > self.MAX_STEPS:
            raise Trap("instruction budget exceeded (loop?)")
        if not 0 <= self.pc < len(self.insns):
            raise Trap(f"pc {self.pc} outside program (missing EXIT or bad jump)")
        ins = self.insns[self.pc]
        if ins is None:
            raise Trap(f"jump into the middle of LD_IMM64 at {self.pc}")
        if self.trace_pcs is not None:
            self.trace_pcs.append(self.pc)
        op, dst, src, off, imm = ins
        cls = op & 7
        if dst > 10 or src > 10:
            raise Trap(f"invalid register in instruction at {self.pc}")
        nxt = self.pc + 1
        if cls == 7 or cls == 4:
            self._alu(op, dst, src, off, imm, cls == 7)
        elif cls == 5 or cls == 6:
            nxt = self._jmp(op, dst, src, off, imm, cls == 5, nxt)
        elif cls == 1:     # LDX
            mode = op & 0xe0
            size = {0x00: 4, 0x08: 2, 0x10: 1, 0x18: 8}[op & 0x18]
            if mode not in (0x60, 0x80):
                raise Trap(f"unsupported LDX mode {op:#x}")
            base = self.rd(src)
            if not isinstance(base, Ptr):
                raise Trap(f"load through non-pointer r{src}={base!r} "
                           f"at pc {self.pc}")
            v = self.load(Ptr(base.region, base.off + off), size)
            if mode == 0x80 and isinstance(v, int):
                v = sx(v, size * 8) & M64
            self._wr(dst, v)
        elif cls == 2 or cls == 3:   # ST / STX
            mode = op & 0xe0
            size = {0x00: 4, 0x08: 2, 0x10: 1, 0x18: 8}[op & 0x18]
            base = self.rd(dst)
            if not isinstance(base, Ptr):
                raise Trap(f"store through non-pointer r{dst}={base!r} "
                           f"at pc {self.pc}")
            p = Ptr(base.region, base.off + off)
            if mode == 0x60:
                v = (imm & M64) if cls == 2 else self.rd(src)
                if cls == 2:
                    v = sx(imm, 32) & M64
                self.store(p, size, v)
            elif mode == 0xc0 and cls == 3:
                if size not in (4, 8):
                    raise Trap("atomic op of invalid size")
                if imm != 0:
                    raise Trap(f"unsupported atomic operation imm={imm:#x}")
                if p.region == "stack" and False:
                    pass
                add = self.scalar(src)
                old = self.load(p, size)
                if not isinstance(old, int):
                    raise Trap("atomic add on a spilled pointer")
                self.store(p, size, old + add)
            else:
                raise Trap(f"unsupported store mode {op:#x}")
        elif cls == 0:
            if op != 0x18:
                raise Trap(f"unsupported LD opcode {op:#x}")
            if src == 0:
                self._wr(dst, imm & M64)
            elif src == 1:
                fd = imm & M32
                if fd not in self.k.maps:
                    raise Trap(f"LD_IMM64 of unknown map fd {fd}")
                self._wr(dst, MapRef(fd))
            else:
                raise Trap(f"unsupported LD_IMM64 src={src}")
            nxt = self.pc + 2
        else:
            raise Trap(f"unknown instruction class {op:#x}")
        self.pc = nxt

    def _wr(self, r, v):
        if r == 10:
            raise Trap(f"write to frame pointer r10 at pc {self.pc}")
        self.regs[r] = v

    def _alu(self, op, dst, src, off, imm, is64):
        code = op & 0xf0
        bits = 64 if is64 else 32
        mask = M64 if is64 else M32
        if code == 0xd0:    # endianness
            if op & 7 == 4:
                v = self.scalar(dst)
                if imm not in (16, 32, 64):
                    raise Trap(f"invalid endian width {imm}")
                v &= (1 << imm) - 1
                if op & 8:  # to big endian: swap
                    v = int.from_bytes(v.to_bytes(imm // 8, "little"), "big")
                self._wr(dst, v)
                return
            if op == 0xd7:  # bswap (v4)
                v = self.scalar(dst) & ((1 << imm) - 1)
                self._wr(dst, int.from_bytes(v.to_bytes(imm // 8, "little"),
                                             "big"))
                return
            raise Trap(f"unknown opcode {op:#x}")
        if code == 0x80:    # NEG
            v = self.scalar(dst)
            self._wr(dst, (-v) & mask)
            return
        if op & 8:
            b = self.rd(src)
        else:
            b = sx(imm, 32) & M64
        if code == 0xb0:    # MOV
            if off and op & 8:      # MOVSX
                if off not in (8, 16, 32) or not isinstance(b, int):
                    raise Trap("bad MOVSX")
                self._wr(dst, sx(b, off) & mask)
                return
            if isinstance(b, int):
                self._wr(dst, b & mask)
            elif is64:
                self._wr(dst, b)
            else:
                raise Trap(f"32-bit move of a pointer at pc {self.pc}")
            return
        a = self.rd(dst)
        if isinstance(a, Ptr) or isinstance(b, Ptr):
            if not is64:
                raise Trap(f"32-bit arithmetic on a pointer at pc {self.pc}")
            if code == 0x00 and isinstance(a, Ptr) and isinstance(b, int):
                self._wr(dst, Ptr(a.region, a.off + sx(b, 64)))
            elif code == 0x00 and isinstance(b, Ptr) and isinstance(a, int):
                self._wr(dst, Ptr(b.region, b.off + sx(a, 64)))
            elif code == 0x10 and isinstance(a, Ptr) and isinstance(b, int):
                self._wr(dst, Ptr(a.region, a.off - sx(b, 64)))
            elif code == 0x10 and isinstance(a, Ptr) and isinstance(b, Ptr) \
                    and a.region == b.region:
                self._wr(dst, (a.off - b.off) & M64)
            else:
                raise Trap(f"invalid pointer arithmetic op {op:#x} "
                           f"at pc {self.pc}")
            return
        if not isinstance(a, int) or not isinstance(b, int):
            raise Trap(f"arithmetic on map reference at pc {self.pc}")
        a &= mask
        b &= mask
        if code == 0x00:
            r = a + b
        elif code == 0x10:
            r = a - b
        elif code == 0x20:
            r = a * b
        elif code == 0x30:
            if off == 1:
                sa, sb = sx(a, bits), sx(b, bits)
                if sb == 0:
                    r = 0
                else:
                    q = abs(sa) // abs(sb)
                    r = q if (sa < 0) == (sb < 0) else -q
            elif off == 0:
                r = a // b if b else 0
            else:
                raise Trap("bad DIV off")
        elif code == 0x90:
            if off == 1:
                sa, sb = sx(a, bits), sx(b, bits)
                if sb == 0:
                    r = sa
                else:
                    m = abs(sa) % abs(sb)
                    r = -m if sa < 0 else m
            elif off == 0:
                r = a % b if b else a
            else:
                raise Trap("bad MOD off")
        elif code == 0x40:
            r = a | b
        elif code == 0x50:
            r = a & b
        elif code == 0x60:
            if not op & 8 and not 0 <= imm < bits:
                raise Trap(f"invalid shift {imm}")
            r = a << (b & (bits - 1))
        elif code == 0x70:
            if not op & 8 and not 0 <= imm < bits:
                raise Trap(f"invalid shift {imm}")
            r = a >> (b & (bits - 1))
        elif code == 0xc0:
            if not op & 8 and not 0 <= imm < bits:
                raise Trap(f"invalid shift {imm}")
            r = sx(a, bits) >> (b & (bits - 1))
        elif code == 0xa0:
            r = a ^ b
        else:
            raise Trap(f"unknown ALU opcode {op:#x}")
        self._wr(dst, r & mask)

    def _cmpval(self, v):
        if isinstance(v, Ptr):
            return v
        if isinstance(v, MapRef):
            raise Trap("comparison of a map reference")
        return v

    def _jmp(self, op, dst, src, off, imm, is64, nxt):
        code = op & 0xf0
        if code == 0x00:
            if op == 0x05:
                return nxt + off
            if op == 0x06:
                return nxt + imm
            raise Trap(f"unknown jump opcode {op:#x}")
        if op == 0x85:
            self._call(imm, src)
            return self.pc + 1 if not self._tailcalled else 0
        if op == 0x95:
            v = self.rd(0)
            if not isinstance(v, int):
                raise Trap("pointer returned in r0 at EXIT")
            self.retval = v & M32 if True else v
            self.done = True
            return self.pc
        a = self.rd(dst)
        b = self.rd(src) if op & 8 else (sx(imm, 32) & M64)
        if isinstance(a, Ptr) or isinstance(b, Ptr):
            if not is64:
                raise Trap("32-bit comparison of a pointer")
            if isinstance(a, Ptr) and isinstance(b, Ptr):
                if a.region != b.region:
                    raise Trap("comparison of pointers into different regions")
                a, b = a.off, b.off
            elif isinstance(b, int) and b == 0 and code in (0x10, 0x50):
                a, b = 1, 0     # pointer vs NULL
            elif isinstance(a, int) and a == 0 and code in (0x10, 0x50):
                a, b = 0, 1
            else:
                raise Trap(f"comparison of pointer with scalar at pc {self.pc}")
            bits = 64
        else:
            if not isinstance(a, int) or not isinstance(b, int):
                raise Trap("comparison of a map reference")
            bits = 64 if is64 else 32
            a &= (1 << bits) - 1
            b &= (1 << bits) - 1
        if code == 0x10:
            t = a == b
        elif code == 0x20:
            t = a > b
        elif code == 0x30:
            t = a >= b
        elif code == 0x40:
            t = bool(a & b)
        elif code == 0x50:
            t = a != b
        elif code == 0x60:
            t = sx(a, bits) > sx(b, bits)
        elif code == 0x70:
            t = sx(a, bits) >= sx(b, bits)
        elif code == 0xa0:
            t = a < b
        elif code == 0xb0:
            t = a <= b
        elif code == 0xc0:
            t = sx(a, bits) < sx(b, bits)
        elif code == 0xd0:
            t = sx(a, bits) <= sx(b, bits)
        else:
            raise Trap(f"unknown jump opcode {op:#x}")
        return nxt + off if t else nxt

    # ------------------------------------------------------------ helpers
    _tailcalled = False

    def _key(self, m, ptr):
        if not isinstance(ptr, Ptr):
            raise Trap(f"helper key argument is not a pointer: {ptr!r}")
        buf, o = self._region(ptr, m.key_size, False)
        if ptr.region == "stack" and \
                not all(self.stack_init[o:o + m.key_size]):
            raise Trap("helper reads uninitialised stack as key")
        return bytes(buf[o:o + m.key_size])

    def _call(self, func, src):
        self._tailcalled = False
        if src != 0:
            raise Trap("bpf-to-bpf / kfunc calls unsupported")
        k = self.k
        if func == 1:       # map_lookup_elem
            m = self._maparg()
            ret = self._lookup(m, self.regs[1].fd, self._key(m, self.rd(2)))
        elif func == 2:     # map_update_elem
            m = self._maparg()
            key = self._key(m, self.rd(2))
            vp = self.rd(3)
            if not isinstance(vp, Ptr):
                raise Trap("map_update_elem value is not a pointer")
            buf, o = self._region(vp, m.value_size, False)
            if vp.region == "stack" and \
                    not all(self.stack_init[o:o + m.value_size]):
                raise Trap("helper reads uninitialised stack as value")
            flags = self.scalar(4)
            ret = self._update(m, key, bytes(buf[o:o + m.value_size]), flags,
                               self.cpu)
        elif func == 3:
            m = self._maparg()
            ret = self._delete(m, self._key(m, self.rd(2)))
        elif func == 5:
            ret = k.next_ktime() & M64
        elif func == 7:
            ret = k.next_prandom()
        elif func == 8:
            ret = self.cpu
        elif func == 12:    # tail_call(ctx, prog_array, index)
            ctx = self.rd(1)
            if ctx != Ptr("ctx", 0):
                raise Trap("tail_call without ctx in r1")
            mref = self.rd(2)
            if not isinstance(mref, MapRef):
                raise Trap("tail_call without map in r2")
            m = k.maps[mref.fd]
            if m.type != BpfMap.PROG_ARRAY:
                raise Trap("tail_call on a non prog-array map")
            idx = self.scalar(3) & M32
            prog = m.progs.get(idx) if idx < m.max_entries else None
            if prog is not None and self.tail_calls < 33:
                self.tail_calls += 1
                self.insns = k.progs[prog]
                regs = [None] * 11
                regs[1] = ctx
                regs[10] = Ptr("stack", 512)
                self.regs = regs
                self.stack_init = bytearray(512)
                self.stack_ptrs = {}
                self._tailcalled = True
                return
            ret = (-2) & M64
        else:
            raise Trap(f"unsupported helper {func}")
        for r in range(1, 6):
            self.regs[r] = None
        self.regs[0] = ret

    def _maparg(self):
        mref = self.rd(1)
        if not isinstance(mref, MapRef):
            raise Trap(f"helper called without a map in r1 ({mref!r})")
        return self.k.maps[mref.fd]

    def _lookup(self, m, fd, key):
        if m.type in (BpfMap.ARRAY, BpfMap.PERCPU_ARRAY):
            idx = int.from_bytes(key[:4], "little")
            if idx >= m.max_entries:
                return 0
            return Ptr(("map", fd, idx), 0)
        if m.type in (BpfMap.HASH, BpfMap.LRU_HASH):
            if key not in m.entries:
                return 0
            if m.type == BpfMap.LRU_HASH:
                m.entries[key] = m.entries.pop(key)
            return Ptr(("map", fd, key), 0)
        raise Trap("map_lookup_elem on unsupported map type")

    def _update(self, m, key, value, flags, cpu):
        return map_update(m, key, value, flags, cpu) & M64

    def _delete(self, m, key):
        return map_delete(m, key) & M64


# errno values
ENOENT, E2BIG, EEXIST, EINVAL = 2, 7, 17, 22


def map_update(m, key, value, flags, cpu=0):
    """kernel semantics of map update; returns 0 or -errno"""
    if flags & ~7 or (flags & 3) == 3:
        return -EINVAL
    if m.type in (BpfMap.ARRAY, BpfMap.PERCPU_ARRAY):
        idx = int.from_bytes(key[:4], "little")
        if idx >= m.max_entries:
            return -E2BIG
        if flags & 1:
            return -EEXIST
        area = m.area if m.type == BpfMap.ARRAY else m.area[cpu]
        area[idx * m.stride:idx * m.stride + m.value_size] = value
        return 0
    if m.type in (BpfMap.HASH, BpfMap.LRU_HASH):
        if key in m.entries:
            if flags & 1:
                return -EEXIST
            m.entries[key][:] = value
            if m.type == BpfMap.LRU_HASH:
                m.entries[key] = m.entries.pop(key)
            return 0
        if flags & 2:
            return -ENOENT
        if len(m.entries) >= m.max_entries:
            if m.type == BpfMap.LRU_HASH:
                m.entries.pop(next(iter(m.entries)))
            else:
                return -E2BIG
        m.entries[key] = bytearray(value)
        return 0
    return -EINVAL


def map_delete(m, key):
    if m.type in (BpfMap.ARRAY, BpfMap.PERCPU_ARRAY):
        return -EINVAL
    if m.type == BpfMap.PROG_ARRAY:
        idx = int.from_bytes(key[:4], "little")
        if idx >= m.max_entries:
            return -E2BIG
        if idx not in m.progs:
            return -ENOENT
        del m.progs[idx]
        return 0
    if key in m.entries:
        del m.entries[key]
        return 0
    return -ENOENT


def run_program(code, packet=None, kernel=None, cpu=0, insns=None):
    """convenience: run to completion; returns (retval, vm)"""
    k = kernel or Kernel()
    vm = VM(k, insns if insns is not None else decode(code), packet, cpu)
    vm.run()
    return vm.retval, vm


def disasm(insns):
    out = []
    for i, ins in enumerate(insns):
        if ins is None:
            continue
        op, dst, src, off, imm = ins
        out.append(f"{i:3}: op={op:#04x} dst=r{dst} src=r{src} "
                   f"off={off} imm={imm:#x}")
    return "\n".join(out)
