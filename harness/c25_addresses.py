"""C25 - terminal addresses assigned by the master are unique.

Real EtherCat.find_free_address / assigned_address / scan_serial_numbers and
Terminal.initialize / gentle_initialize run on the virtual loop against a ring
of ESC models.  The address range is shrunk to a handful of addresses and
every randint answer is an explorer choice (so collisions are forced); frame
delivery order deviations are bounded.

A workload is a script: stages run one after the other, the operations of a
stage concurrently ("a+b/c" = a and b together, then c).  Operations:
  init     Terminal.initialize(relative=-i), a fresh object per terminal
  rest     the same for all terminals but the first
  scan     EtherCat.scan_serial_numbers()
  alloc    EtherCat.find_free_address()
  gentle   Terminal.gentle_initialize(relative=-i) for every terminal
  user     Terminal.initialize(relative=0, absolute=X), X chosen by the user:
           an address of the range at which nobody answers and which the
           master never had anything to do with
  gabs     Terminal.gentle_initialize(absolute=A), A the address the first
           terminal carries (if it carries one from the range)
  plug     a terminal whose station address is already set (to such an X)
           appears at the end of the bus; plug0: an unaddressed one
  reinit   the Terminal object of the first terminal is initialised once
           more, at the second terminal's position
"""
import asyncio
import contextlib
import itertools
import struct

from mc import seams, bussim, core, explore, vloop

import ebpfcat.ethercat as ecmod
from ebpfcat.ethercat import EtherCat, Terminal

PROP = "C25"
LEVEL = "model_checking"
RULE = ("buses of 2-4 terminals (pre-assigned inside/outside the range, "
        "unaddressed, or - for gentle_initialize - two with the same "
        "address) x workloads (scripts of concurrent / consecutive "
        "initialize, gentle_initialize, serial-number scans and "
        "find_free_address calls; user-chosen addresses via "
        "initialize(relative, absolute=X) / gentle_initialize(absolute=X) "
        "and terminals plugged in pre-addressed, before and after a "
        "completed scan; one Terminal object initialised at two positions) "
        "x every randint answer from the shrunk range x bounded (a frame "
        "the interface refuses to send counts as one deviation) "
        "delivery-order deviations; non-trivial = at least one address was "
        "written or handed out; distinct = distinct (bus, workload, choices)")

LO, HI = 1000, 1004     # randint is inclusive: 5 addresses
INSIDE, OUTSIDE = 1002, 50

# the names the workloads had before they became scripts
ALIASES = {
    "both": "init+scan",
    "alloc": "alloc+alloc+alloc",
    "alloc-seq": "alloc/alloc/alloc",
    "alloc-scan-alloc": "alloc/scan/alloc",
    "alloc+scan": "alloc+scan+alloc",
}


def sii_image(serial):
    img = bytearray(0x80)
    struct.pack_into("<IIII", img, 16, 2, 0x1234, 1, serial)
    img += b"\xff\xff\xff\xff" + b"\xff" * 12
    return bytes(img)


class Exhausted(Exception):
    """raised into the code under test when every address of the range has
    been drawn: the caller's task fails, which C25 does not judge"""


def execute(ch, conf):
    pre, workload = conf
    script = [stage.split("+")
              for stage in ALIASES.get(workload, workload).split("/")]
    loop = vloop.VLoop()
    with contextlib.ExitStack() as stack, loop:
        terms = [bussim.Terminal(f"t{i}", station=a, sii=sii_image(100 + i))
                 for i, a in enumerate(pre)]
        n = len(terms)
        bus = bussim.Bus(terms)
        terms = bus.terminals       # the list the bus walks: plug appends
        m = bussim.Master(bus, lambda: EtherCat("sim"), loop)
        ec = m.ec
        ec.terminal_addr_range = (LO, HI)
        repeats = [0]

        drawn = []

        def randint(a, b):
            if (a, b) != (LO, HI):
                # not the configured range: no choice point, but never the
                # same answer twice (a caller that rejects the answer and
                # draws again must get on)
                v = a + (7 * len(m.transport.sent)) % (b - a + 1)
                while v in drawn or v in ec.used_addresses:
                    v = v + 1 if v < b else a
                    if len(drawn) > b - a:
                        raise Exhausted("foreign range exhausted")
                drawn.append(v)
                return v
            dom = list(range(a, b + 1))
            # the harness remembers its own answers: an answer given before
            # (or known to the master as used) may be repeated once in a
            # row, then a new one has to come - whatever the code under
            # test remembers
            old = [d for d in dom if d in ec.used_addresses or d in drawn]
            new = [d for d in dom if d not in old]
            opts = new + (old if repeats[0] < 1 else [])
            if not opts:
                raise Exhausted("no address left in the shrunk range")
            v = opts[ch.choose(len(opts), "randint", [0] * len(opts))]
            repeats[0] = repeats[0] + 1 if v in old else 0
            drawn.append(v)
            return v
        # every function of the random source is the harness's: randint
        # as above, randrange / choice as free explorer choices
        handlers = seams.default_handlers(
            lambda n: ch.choose(n, "randint", [0] * n))
        handlers["randint"] = randint
        stack.enter_context(seams.own_random([ecmod], handlers))
        try:
            # (terminal index, address, others' addresses, chosen by user)
            writes = []
            user_writes = set()

            def watch(t):
                orig = t.write

                def write(ado, data, t=t, orig=orig):
                    ok = orig(ado, data)
                    if ado <= 0x10 and ado + len(data) >= 0x12:
                        i = terms.index(t)
                        writes.append((i, t.station,
                                       [o.station for o in terms
                                        if o is not t],
                                       (i, t.station) in user_writes))
                    return ok
                t.write = write
            for t in terms:
                watch(t)
            # every address the master hands out, and who answered where at
            # that moment
            handouts = []
            find_free_address = ec.find_free_address

            async def observed_find_free_address():
                a = await find_free_address()
                handouts.append((a, [t.station for t in terms]))
                return a
            ec.find_free_address = observed_find_free_address
            given = []
            skipped = []
            tobjs = {}

            def tobj(i):
                if i not in tobjs:
                    tobjs[i] = Terminal(ec)
                return tobjs[i]

            def fresh():
                """an address of the range nobody answers at and the master
                never drew, handed out or wrote"""
                known = {t.station for t in terms} | set(drawn) | \
                    {a for a, _ in handouts} | {w[1] for w in writes}
                for a in range(LO, HI + 1):
                    if a not in known:
                        return a
                return None

            async def alloc():
                a = await ec.find_free_address()
                given.append((a, [t.station for t in terms]))
                return a

            def operations(name):
                """-> coroutines of one operation of a stage"""
                if name == "init":
                    return [tobj(i).initialize(relative=-i)
                            for i in range(n)]
                if name == "rest":
                    return [tobj(i).initialize(relative=-i)
                            for i in range(1, n)]
                if name == "gentle":
                    return [tobj(i).gentle_initialize(relative=-i)
                            for i in range(n)]
                if name == "scan":
                    return [ec.scan_serial_numbers()]
                if name == "alloc":
                    return [alloc()]
                if name == "reinit":
                    return [tobj(0).initialize(relative=-1)]
                if name == "user":
                    x = fresh()
                    if x is None:
                        skipped.append(name)
                        return []
                    user_writes.add((0, x))
                    return [tobj(0).initialize(relative=0, absolute=x)]
                if name == "gabs":
                    a = terms[0].station
                    if not LO <= a <= HI:
                        skipped.append(name)
                        return []
                    return [tobj(0).gentle_initialize(absolute=a)]
                if name in ("plug", "plug0"):
                    x = fresh() if name == "plug" else 0
                    if x is None:
                        skipped.append(name)
                        return []
                    t = bussim.Terminal(f"t{len(terms)}", station=x,
                                        sii=sii_image(100 + len(terms)))
                    watch(t)
                    terms.append(t)
                    return []
                raise core.Internal(f"unknown operation {name!r}")
            scans = []

            async def main():
                results = []
                for stage in script:
                    coros = []
                    for name in stage:
                        ops = operations(name)
                        if name == "scan":
                            scans.append(len(results) + len(coros))
                        coros += ops
                    if coros:
                        results += await asyncio.gather(
                            *coros, return_exceptions=True)
                return results
            fut = asyncio.ensure_future(main())
            plain_send = m.transport.sendto

            def sendto(data, addr=None):
                # deviation: the interface refuses the frame
                # (it uses up the whole deviation budget of the execution:
                # one refused frame, everything else as by default)
                if ch.choose(2, "send fails", [0, execute.fault_cost]):
                    raise OSError(105, "No buffer space available")
                return plain_send(data, addr)
            m.transport.sendto = sendto

            def on_idle(master):
                n = len(master.transport.inflight)
                if n and loop.next_timer() is not None:
                    # somebody waits with a time-out: the frame may be
                    # slower than that
                    if ch.choose(2, "late"):
                        loop.advance()
                        return True
                if n >= 2:
                    c = ch.choose(n, "deliver")
                    master.deliver(c)
                    return True
                return False
            done = m.run(fut, max_frames=400, on_idle=on_idle)
            results = None
            scan = None
            if done:
                rs = fut.result()
                results = [type(r).__name__ if isinstance(r, BaseException)
                           else "ok" for r in rs]
                good = [rs[i] for i in scans
                        if not isinstance(rs[i], BaseException)]
                if good:
                    scan = sorted(good[-1].items())
            final = [t.station for t in terms]
            positions = [getattr(tobjs[i], "position", None)
                         for i in sorted(tobjs)]
        finally:
            loop.shutdown()
    return dict(done=done, results=results, writes=writes, final=final,
                scan=scan, positions=positions, given=given,
                handouts=handouts, skipped=skipped)


execute.fault_cost = 1


def judge(conf, ch, obs, res):
    pre, workload = conf
    case = dict(conf=conf, choices=list(ch.choices))

    def bad(exp, seen, what):
        res.violation(case, exp, seen, sig=core.digest([what]), note=what)
    # whether the workload completes or raises is not C25's business (two
    # concurrent users re-addressing one terminal legitimately disturb each
    # other); only the addresses are judged
    clean = obs["done"] and all(r == "ok" for r in obs["results"])
    handed = {}
    for i, addr, others, user in obs["writes"]:
        if user:
            # the user's own choice (made so that it is in the range and
            # free): not an address the master assigned
            continue
        if not LO <= addr <= HI:
            bad(f"address in [{LO}, {HI}]", addr, "address outside the range")
        if addr in handed and handed[addr] != i:
            bad("each address handed out once", (addr, handed[addr], i),
                "address handed out twice")
        handed.setdefault(addr, i)
        if addr in others:
            bad("address not in use by another terminal", (addr, others),
                "assigned an address at which a terminal already answers")
    for what in ("given", "handouts"):
        seen = []
        for addr, stations in obs[what]:
            if not LO <= addr <= HI:
                bad(f"address in [{LO}, {HI}]", addr,
                    "address outside the range")
            if addr in stations:
                bad("address not in use by a terminal", (addr, stations),
                    "handed out an address at which a terminal already "
                    "answers")
            if addr in seen:
                bad("each address handed out once",
                    [a for a, _ in obs[what]], "address handed out twice")
            seen.append(addr)
    for addr, _ in obs["given"]:
        if addr in handed:
            bad("an address given to a caller is not also written to a "
                "terminal", (addr, handed[addr]),
                "address handed out twice")
    # two terminals answering at one address in the end: the master's doing
    # if it wrote that address
    nz = [a for a in obs["final"] if a]
    for addr in sorted(set(nz)):
        if nz.count(addr) > 1 and addr in handed:
            bad("distinct station addresses", obs["final"],
                "two terminals end with the same address")
    if workload == "init" and clean and 0 in obs["final"]:
        bad("all terminals addressed", obs["final"], "terminal left at 0")


def distinct(pre):
    nz = [a for a in pre if a]
    return len(set(nz)) == len(nz)


def configs(ctx):
    out = []
    alphabet = [0, INSIDE, OUTSIDE]   # unaddressed, inside the range, outside
    for n in (2, 3) if ctx.quick else (2, 3, 4):
        for pre in itertools.product(alphabet, repeat=n):
            if not distinct(pre):
                continue
            for workload in ("init", "scan", "both"):
                out.append((pre, workload))
            if n == 2:
                out += [(pre, "alloc"), (pre, "alloc-seq"),
                        (pre, "alloc-scan-alloc"), (pre, "alloc+scan")]
    # addresses chosen by the user, terminals that turn up with an address:
    # nothing, or a completed scan, before; then the master has to find
    # free addresses.  The quick tier thins the buses, not the workloads.
    q = ctx.quick
    for n in (2, 3):
        for pre in itertools.product(alphabet, repeat=n):
            if not distinct(pre):
                continue
            if n == 3 and (pre[1:] != (0, 0) if q else 0 not in pre[1:]):
                continue
            for before in ("", "scan/"):
                if 0 in pre[1:]:
                    if not (q and before and n == 3 and pre[0]):
                        out.append((pre, before + "user/rest"))
                    out.append((pre, before + "user/scan"))
                if n == 2:
                    out.append((pre, before + "user/alloc"))
                    if pre[0] == INSIDE:
                        out.append((pre, before + "gabs/rest"))
                        out.append((pre, before + "gabs/alloc"))
                    out.append((pre, before + "plug/alloc"))
                    out.append((pre, before + "plug0+plug/scan"))
                    if not q or pre == (0, 0) or \
                            not before and pre in ((0, INSIDE), (OUTSIDE, 0)):
                        out.append((pre, before + "plug/init"))
            if n == 2:
                out.append((pre, "scan/user"))
                out.append((pre, "user/scan/alloc"))
                out.append((pre, "scan/plug/scan/alloc"))
    # gentle_initialize meets whatever is on the bus, including two
    # terminals with the same address; a Terminal object used twice
    a, b = INSIDE, OUTSIDE
    for n in (2, 3):
        for pre in itertools.product(alphabet, repeat=n):
            if n == 3 and q and pre not in (
                    (a, a, 0), (a, 0, a), (0, a, a), (a, a, b), (b, a, a),
                    (a, b, a), (b, b, 0), (a, a, a)):
                continue
            out.append((pre, "gentle"))
            if n == 2:
                if not q or not distinct(pre) or b in pre:
                    out.append((pre, "scan/gentle"))
                if not q or pre in ((0, 0), (0, a), (a, 0), (b, 0), (a, a)):
                    out.append((pre, "init/reinit"))
                if not q or pre in ((a, 0), (b, 0), (a, a)):
                    out.append((pre, "gentle/reinit"))
                if not q:
                    out.append((pre, "gentle/init"))
    return out


def work(item, res):
    conf, bound, cap = item
    execute.fault_cost = max(1, bound)

    def on_exec(ch, obs):
        res.count("evaluations")
        res.count("transitions", len(ch.trace))
        if obs["writes"] or obs["given"] or obs["handouts"]:
            res.nontrivial.add(core.digest([conf, ch.choices]))
        res.outcomes.add((tuple(obs["final"]), obs["done"]))
        if not obs["done"]:
            res.count("horizon_reached")
        if obs["skipped"]:
            res.count("operations_skipped_range_used_up")
        if any(w[3] for w in obs["writes"]):
            res.count("executions_with_user_chosen_address")
        judge(conf, ch, obs, res)
    n, capped = explore.dfs(lambda ch: execute(ch, conf), bound, on_exec,
                            max_execs=cap)
    if capped:
        res.caps_hit.append(f"{conf}: capped at {n} executions")
    a = execute(explore.Chooser(()), conf)
    b = execute(explore.Chooser(()), conf)
    if a != b:
        raise core.Internal("non-deterministic execution")


def run(ctx):
    bound = 1 if ctx.quick else 2
    cap = 3000 if ctx.quick else 15000
    items = [(c, bound, cap) for c in configs(ctx)]
    res = core.pmap(ctx, work, items, chunk=1)
    res.cov["states"] = len(res.nontrivial)
    res.cov["traces_validated_against_impl"] = res.cov.get("evaluations", 0)
    res.cov["bound_completed"] = bound
    if not res.cov.get("executions_with_user_chosen_address") and \
            not res.violations:
        raise core.Internal("no user-chosen address reached a terminal")
    res.sample(dict(pre=[0, 1002, 0], workload="both",
                    meaning="three terminals, the middle one pre-assigned "
                            "inside the range; initialize all concurrently "
                            "with a serial-number scan"))
    res.sample(dict(pre=[0, 0], workload="scan/user/rest",
                    meaning="after a completed scan the first terminal is "
                            "initialised with an address the user chose, "
                            "then the second one with one the master has "
                            "to find"))
    res.sample(dict(pre=[1002, 1002, 0], workload="gentle",
                    meaning="gentle_initialize of three INIT-state "
                            "terminals, two of which answer at the same "
                            "address"))
    res.assumptions += [
        "randint answers are free choices (cost 0) over the shrunk range "
        "1000..1004; an already used address is answered at most once in a "
        "row (the real loop retries without awaiting)",
        "frames are not lost (a lost frame only makes the workload pend)",
        "an address the user chooses (initialize(relative, absolute=X)) or "
        "a terminal brings along when it is plugged in is one of the range "
        "at which nobody answers and which the master never drew, handed "
        "out or wrote; it appears between two stages of the workload, never "
        "while an allocation is under way; it is not judged itself, but "
        "from then on the master must not hand it out",
        "gentle_initialize takes relative or absolute, not both (its own "
        "assertion): with absolute=A nothing is written, A is the address "
        "the terminal carries",
        "two terminals that answer at the same address from the outset, or "
        "end at one the master never wrote, are not the master's fault; a "
        "write of an address to a terminal that carries it already counts "
        "as a write",
        "hand-outs are observed by wrapping the EtherCat object's "
        "find_free_address; 'answers at that moment' is the station "
        "register of the bus model when the call returns / when the write "
        "passes the terminal"]
    return res


def replay(ctx, rep):
    res = core.Result()
    c = rep["case"]
    conf = (tuple(c["conf"][0]), c["conf"][1])
    ch = explore.Chooser(tuple(c["choices"]))
    obs = execute(ch, conf)
    print(obs)
    judge(conf, ch, obs, res)
    return res.violations
