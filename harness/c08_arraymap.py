"""C08 - array-map variables read back the same on both sides.

Exhaustive enumeration of declaration sets (multisets of (format, place))
over a class hierarchy: base class, derived class, a derived-class
re-declaration of a base-class name, a SubProgram class instantiated twice,
a second SubProgram class.  For every declaration set the real classes are
built with type(), the real `EBPF.__init__` / `ArrayMap.collect` lay the map
out, a program emitted through the real DSL copies every variable to the
packet and the packet to every variable, `EBPF.load()` goes through the
simulated bpf(), the program runs in the independent interpreter and the
Python side reads and writes through the (simulated) mmap.  A deterministic
subset of the same declaration sets runs unpatched on the real kernel and
must give the same observations.

Programs with TWO array-type maps: the declarations of a set are distributed
over an ArrayMap and a PerCPUArrayMap of one program in every way that gives
each map a variable (both declaration orders of the maps; also one of the
maps left without variables), the same program copies all variables of both
maps, Python writes the array-map variables and reads everything, and after
every step *all bytes of each map* (per-CPU: of every CPU) are compared with
a reference image: the variables at their positions, every other byte zero -
so an access that lands in the other map, or anywhere else, is seen.  Two
maps of the same class (two ArrayMaps, two PerCPUArrayMaps) are enumerated
over a smaller alphabet.

Two live instances: a second instance of the same program class with fewer
or more subprograms (hence another value size) is created and loaded before
the first one is used.

Writes that struct refuses: after every vector of Python-side writes (and
again after the program stored its values) Python attempts, for every
variable, values that cannot be values of its format - out of range, of a
wrong type, of a wrong arity, for multi-element formats tuples that are wrong
in one (the last, a middle, the first) element only, for 'x' decimals whose
scaled value does not fit 64 bits.  The exception is the accepted answer; a
refused write writes nothing, so Python and the program must go on reading
the value written last by a write that succeeded.

Single elements at run-time indices: programs that go through the library's
own idiom (EtherXDP.program does it with its 64I counters)
`with var.get_address(None, False, False) as (dst, _), e.r3 < n:
e.r[dst] += size * e.r3; ... e.mI[e.r[dst]] ...` for every multi-element
variable of a declaration set, the index coming from the packet (all indices
inside, two outside that the guard keeps out), reading and / or storing or
incrementing the one element, each followed by reads and stores of the other
variables; judged statement by statement on reference images of the maps, and
all bytes of every map are compared after every run.  Right after the
prologue raw instructions put the maps' base registers (r7, r6) on the
stack; after every statement raw instructions compare them with what is
there.
"""
import contextlib
import itertools
import os
import random
import struct

from mc import core, dsl, kern, simkernel
from ebpfcat.arraymap import ArrayMap, PerCPUArrayMap
from ebpfcat.ebpf import EBPF, MemoryMap, SubProgram

PROP = "C08"
LEVEL = "model_checking"
RULE = ("cases = all multisets of (format, place) declarations up to the "
        "size bound, formats {B H I Q b h i q x 2H 3B 5I 64I} (plus, in "
        "sets of <= 2, the byte-order-prefixed >H >q <I !i >B <Q), places {base "
        "class, derived class, derived re-declaration of a base name, "
        "subprogram class A (two instances), subprogram class B}; each is "
        "laid out by the real collect(), checked for disjointness and run "
        "with 3+ value vectors in both directions; per-CPU maps additionally "
        "over n_possible x CPU schedules; programs with two maps: every pair "
        "of declarations (and every triple over a smaller format alphabet) x "
        "every distribution over the two maps x {ArrayMap first, "
        "PerCPUArrayMap first}, all bytes of both maps compared after every "
        "step; pairs over {B I x 3B} in two maps of the same class; sets of "
        "<= 2 with a second live instance of the program class that has "
        "fewer / more subprograms; in every array-map case, after each "
        "write vector and after each program run, per variable two values "
        "struct refuses (the first time all: range / type / arity, tuples "
        "wrong in the last / a middle / the first element only, 'x' out of "
        "64 bits), after which both sides must read the last value written "
        "successfully; element access by the library's idiom "
        "`get_address(None, False, False)` + `r[dst] += size * index`: "
        "multi-element formats {2H 3B 5I 64I} x places alone and next to "
        "every other declaration (and to two others over a smaller "
        "alphabet, and to one in a map of the other kind, and to the "
        "byte-order-prefixed formats), array and per-CPU map, modes "
        "{read+store, increment+read; thorough also read, store}, run-time "
        "indices 0..n-1 (64I: both ends and the middle; thorough all 64) and "
        "n, 255, each element access followed by reads and stores of the "
        "single-element variables, all bytes of the maps compared after "
        "every run and the base registers compared with their value after "
        "the prologue after every statement; a case is non-trivial when the "
        "library accepted the declarations and at least one variable was "
        "transferred in each direction; distinct = distinct declaration set "
        "(x map kind(s) and distribution x n_possible)")

FORMATS = ["B", "H", "I", "Q", "b", "h", "i", "q", "x",
           "2H", "3B", "5I", "64I"]
PLACES = ["base", "derived", "redecl", "subA", "subB"]
PAIRS = [(f, p) for p in PLACES for f in FORMATS]
# formats carrying their own byte order: a smaller family of its own
XFORMATS = [">H", ">q", "<I", "!i", ">B", "<Q"]

KF_REDECL = "C08-redeclared-name-allocated-twice"
MAPNAMES = ["amap", "bmap"]
# programs with two maps of the same class (two ArrayMaps, two
# PerCPUArrayMaps) are part of the enumeration
SAME_KIND = True
# a second instance of the same program class with other subprograms is alive
# while the first one is used
TWIN_INSTANCES = True
HDR = 16        # packet bytes before the in/out areas (XDP needs >= 14)


def sfmt(fmt):
    """struct format: formats with their own byte-order prefix keep it"""
    return fmt if fmt[0] in "<>!" else "<" + fmt


def fsize(fmt):
    return 8 if fmt == "x" else struct.calcsize(sfmt(fmt))


def elems(fmt):
    """-> (count, element format) of a format"""
    if fmt == "x":
        return 1, "q"
    n = fmt.lstrip("<>!")[:-1]
    return (int(n) if n else 1), fmt[-1]


def encode(fmt, value):
    """reference encoding of a Python-side value: little endian, packed;
    'x' = value * 100000 as a signed 64-bit integer"""
    if fmt == "x":
        return struct.pack("<q", round(value * 100000))
    if not isinstance(value, tuple):
        value = (value,)
    return struct.pack(sfmt(fmt), *value)


def decode(fmt, raw):
    """reference decoding: scalar -> int, multi-element -> tuple,
    'x' -> decimal (integer / 100000)"""
    if fmt == "x":
        return struct.unpack("<q", raw)[0] / 100000
    v = struct.unpack(sfmt(fmt), raw)
    return v[0] if len(v) == 1 else v


def same(fmt, a, b):
    if fmt == "x":
        try:
            return abs(a - b) <= 1e-9 * max(1.0, abs(b))
        except TypeError:
            return False
    return a == b


# ------------------------------------------------------------------ layouts
def valid(layout):
    return sum(p == "redecl" for _, p in layout) <= \
        sum(p == "base" for _, p in layout)


def layouts_with_prefix(k, prefix, pairs=None):
    """all multisets of size k (as non-decreasing index tuples) that start
    with `prefix`"""
    pairs = PAIRS if pairs is None else pairs
    rest = k - len(prefix)
    lo = prefix[-1] if prefix else 0
    for tail in itertools.combinations_with_replacement(
            range(lo, len(pairs)), rest):
        lay = tuple(pairs[i] for i in tuple(prefix) + tail)
        if valid(lay):
            yield lay


class Slot:
    __slots__ = ("owner", "oname", "name", "fmt", "place", "size", "pos",
                 "mi")

    def __init__(self, owner, oname, name, fmt, place):
        self.owner, self.oname, self.name = owner, oname, name
        self.fmt, self.place = fmt, place
        self.size = fsize(fmt)
        self.pos = None
        self.mi = 0         # index of the map the variable is declared in


class Case:
    """the real classes and program for one declaration set"""

    def __init__(self, layout, percpu=False, map_in_base=True,
                 map_in_derived=True, kinds=None, assign=None, extra_in=0,
                 extra_out=0):
        """kinds: the array-type maps of the program in declaration order
        ("array" / "percpu"; default: one map); assign: for every
        declaration of `layout` the index of the map it is declared in;
        extra_in / extra_out: further 8-byte words of the packet behind
        the in / out copies of the variables"""
        self.layout = layout
        if kinds is None:
            kinds = ("percpu" if percpu else "array",)
        if assign is None:
            assign = (0,) * len(layout)
        self.kinds, self.assign = tuple(kinds), tuple(assign)
        self.maps = [PerCPUArrayMap() if k == "percpu" else ArrayMap()
                     for k in self.kinds]
        self.mapnames = MAPNAMES[:len(self.maps)]
        self.M = self.maps[0]
        battrs, dattrs, aattrs, tattrs = {}, {}, {}, {}
        # the class dictionary's order is the order in which EBPF.__init__
        # initialises the maps
        for mname, M in zip(self.mapnames, self.maps):
            if map_in_base:
                battrs[mname] = M
            if map_in_derived:
                dattrs[mname] = M
        bnames, main, suba, subb = [], {}, [], []
        self.shadowed = {}        # name -> format of the shadowed base decl
        self.mapof = {}           # (place group, name) -> map index
        self.shadowed_map = {}    # name -> map of the shadowed base decl
        for (f, p), a in zip(layout, self.assign):
            if p == "base":
                n = f"b{len(bnames)}"
                bnames.append(n)
                battrs[n] = self.maps[a].globalVar(f)
                main[n] = (f, "base")
                self.mapof["e", n] = a
        nre = 0
        for (f, p), a in zip(layout, self.assign):
            M = self.maps[a]
            if p == "derived":
                n = f"d{sum(k[0] == 'd' for k in dattrs)}"
                dattrs[n] = M.globalVar(f)
                main[n] = (f, "derived")
                self.mapof["e", n] = a
            elif p == "redecl":
                n = bnames[nre]
                nre += 1
                self.shadowed[n] = main[n][0]
                self.shadowed_map[n] = self.mapof["e", n]
                dattrs[n] = M.globalVar(f)
                main[n] = (f, "redecl")
                self.mapof["e", n] = a
            elif p == "subA":
                n = f"s{len(suba)}"
                suba.append((n, f))
                aattrs[n] = M.globalVar(f)
                self.mapof["a", n] = a
            elif p == "subB":
                n = f"t{len(subb)}"
                subb.append((n, f))
                tattrs[n] = M.globalVar(f)
                self.mapof["b", n] = a
        self.Base = type("Base", (EBPF,), battrs)
        subs = []
        self.subs = {}
        if suba:
            A = type("SubA", (SubProgram,), aattrs)
            self.subs["a1"], self.subs["a2"] = A(), A()
            subs += [self.subs["a1"], self.subs["a2"]]
        if subb:
            T = type("SubB", (SubProgram,), tattrs)
            self.subs["b1"] = T()
            subs.append(self.subs["b1"])
        # packet areas
        self.slots = []
        total = 0
        plan = [("e", n, f, p) for n, (f, p) in main.items()]
        for o in ("a1", "a2"):
            plan += [(o, n, f, "subA") for n, f in suba] if suba else []
        plan += [("b1", n, f, "subB") for n, f in subb]
        total = sum((fsize(f) + 7) // 8 * 8 for _, _, f, _ in plan)
        self.total = total
        b = self.b = dsl.Builder(dattrs, n_in=total // 8 + extra_in,
                                 n_out=total // 8 + extra_out,
                                 bases=(self.Base,), subprograms=subs,
                                 pv_area=HDR)
        self.e = b.e
        owners = dict(self.subs, e=b.e)
        off = 0
        self.off = {}
        for o, n, f, p in plan:
            s = Slot(owners[o], o, n, f, p)
            s.mi = self.mapof[o[0], n]
            self.slots.append(s)
            self.off[(o, n)] = off
            off += (s.size + 7) // 8 * 8
        self.pkt_len = b.pkt_len

    # ---- layout as the library decided it
    def read_positions(self):
        for s in self.slots:
            s.pos = s.owner.__dict__.get(s.name)
        return [(s.oname, s.name, s.fmt, s.pos) for s in self.slots]

    def emit(self, copy_out=True, copy_in=True, finish=True):
        e, b = self.e, self.b
        for direction in ("out", "in"):
            if (direction == "out" and not copy_out) or \
                    (direction == "in" and not copy_in):
                continue
            base = b.out_off if direction == "out" else b.in_off
            for s in self.slots:
                off = base + self.off[(s.oname, s.name)]
                n, ef = elems(s.fmt)
                if n == 1:
                    # the packet copy is declared with the same format, so
                    # packet bytes and map bytes are the same encoding
                    mm = MemoryMap(e, s.fmt) if s.fmt[0] in "<>!" \
                        else getattr(e, "m" + s.fmt)
                    if direction == "out":
                        mm[e.r9 + off] = getattr(s.owner, s.name)
                    else:
                        setattr(s.owner, s.name, mm[e.r9 + off])
                    continue
                esz = struct.calcsize(ef)
                var = getattr(s.owner, s.name)
                with var.get_address(None, True) as (reg, _), \
                        e.get_free_register(None) as tmp:
                    for i in range(n):
                        if direction == "out":
                            b.raw(dsl.SZ_LDX[esz], tmp, reg, i * esz, 0)
                            b.raw(dsl.SZ_STX[esz], 9, tmp, off + i * esz, 0)
                        else:
                            b.raw(dsl.SZ_LDX[esz], tmp, 9, off + i * esz, 0)
                            b.raw(dsl.SZ_STX[esz], reg, tmp, i * esz, 0)
        if finish:
            b.finish(2)

    def packet(self, invals):
        pkt = bytearray(self.pkt_len)
        for s, raw in zip(self.slots, invals):
            o = self.b.in_off + self.off[(s.oname, s.name)]
            pkt[o:o + s.size] = raw
        return pkt

    def outs(self, pkt):
        out = []
        for s in self.slots:
            o = self.b.out_off + self.off[(s.oname, s.name)]
            out.append(bytes(pkt[o:o + s.size]))
        return out


# ------------------------------------------------------------------ values
X_SAFE = [150000, -225000, 50000, 2147450000, -75000, 25000, 922337203650000]


def pattern(fmt, s, t, seed):
    """raw bytes for slot s in vector t"""
    size = fsize(fmt)
    if t == 0:
        raw = b"\xff" * size
    elif t == 1:
        n, ef = elems(fmt)
        esz = size // n
        raw = (b"\x00" * (esz - 1) + b"\x80") * n
    elif t == 2:
        raw = bytes((0x11 * (s + 1) + 7 * i + 1) & 0xff for i in range(size))
    else:
        rnd = random.Random(seed * 7919 + 131 * s + t)
        raw = bytes(rnd.getrandbits(8) for _ in range(size))
    return raw


def py_value(fmt, s, t, seed):
    """value written from Python for slot s in vector t (and its encoding)"""
    if fmt == "x":
        # decimals whose product with 100000 is exact in binary floating point
        n = X_SAFE[(s + 2 * t) % len(X_SAFE)] * (1 + (s + t) % 3)
        return n / 100000, struct.pack("<q", n)
    raw = pattern(fmt, s, t, seed)
    return decode(fmt, raw), raw


def vectors(seed):
    return [0, 1, 2] + ([3] if seed else [])


# ---------------------------------------------------- writes struct refuses
REFUSED_WRITES = True


def elem_range(ef):
    bits = 8 * struct.calcsize(ef)
    if ef.islower():
        return -(1 << (bits - 1)), (1 << (bits - 1)) - 1
    return 0, (1 << bits) - 1


def refused_values(fmt):
    """values that cannot be a value of a variable of this format: out of
    range, of a wrong type, of a wrong arity; for multi-element formats
    tuples that are wrong only in one (the last, a middle, the first)
    element; for 'x' decimals whose scaled value does not fit 64 bits.
    The first entry is always a range error as late in the value as
    possible.  -> [(kind, value)]"""
    if fmt == "x":
        return [("range", 1e15), ("range-neg", -1e15), ("type-str", "7"),
                ("type-none", None)]
    n, ef = elems(fmt)
    lo, hi = elem_range(ef)
    if n == 1:
        return [("range", hi + 1), ("range-neg", lo - 1), ("type-str", "7"),
                ("type-float", 1.5), ("type-none", None),
                ("arity-2", (1, 2)), ("arity-0", ())]
    good = [(3 + 5 * i) & 0x7f for i in range(n)]

    def but(j, v):
        t = list(good)
        t[j] = v
        return tuple(t)
    out = [("range-last", but(n - 1, hi + 1)),
           ("range-neg-last", but(n - 1, lo - 1)),
           ("range-mid", but(n // 2, hi + 1)),
           ("type-last", but(n - 1, "7")),
           ("type-mid", but(n // 2, None)),
           ("range-first", but(0, hi + 1)),
           ("arity-less", tuple(good[:-1])),
           ("arity-more", tuple(good) + (1,)),
           ("arity-scalar", 1)]
    return out


def refused_note(obs, t, phase, i):
    """the refused writes to slot i in (vector, phase), for a report"""
    for ent in obs:
        if ent[0] == "pyrefuse" and ent[1:3] == (t, phase):
            return [k for j, k, r in ent[3] if j == i]
    return []


def refuse_writes(case, t, phase, obs):
    """Attempt, for every variable of a plain array map, writes from Python
    that struct refuses: the first of `refused_values` (a range error in
    the last element) and one more, rotating with the vector and the slot
    (the very first time: all of them).  An exception is the accepted
    answer.  -> the slots where the library accepted such a value instead
    (what they hold then is left open; the caller writes them again or
    leaves them out of its verdict).  What is read afterwards is judged by
    the caller."""
    accepted = []
    if not REFUSED_WRITES:
        return accepted
    log = []
    for i, s in enumerate(case.slots):
        if case.kinds[s.mi] != "array":
            continue
        rv = refused_values(s.fmt)
        pick = rv if phase == 0 and t == 0 else \
            [rv[0], rv[1 + (t + i + phase) % (len(rv) - 1)]]
        for kind, v in pick:
            try:
                setattr(s.owner, s.name, v)
            except Exception as ex:
                if isinstance(ex, simkernel.SimTrap):
                    raise
                # (which exception is the business of the buffer's type)
                log.append((i, kind, "refused"))
                continue
            log.append((i, kind, "accepted"))
            if i not in accepted:
                accepted.append(i)
    obs.append(("pyrefuse", t, phase, log))
    return accepted


# ------------------------------------------------------------------ oracle
def check_positions(case, value_size):
    """positions pairwise disjoint and inside the map
    -> (list of problems, indices of the slots involved)"""
    probs, involved = [], set()
    iv = []
    for i, s in enumerate(case.slots):
        if not isinstance(s.pos, int):
            probs.append(f"{s.oname}.{s.name}: no position")
            involved.add(i)
            continue
        if s.pos < 0 or s.pos + s.size > value_size:
            probs.append(f"{s.oname}.{s.name} [{s.pos},{s.pos + s.size}) "
                         f"outside the map of {value_size} bytes")
            involved.add(i)
        iv.append((s.pos, s.pos + s.size, i, s))
    iv.sort(key=lambda t: (t[0], t[1], t[2]))
    for (a0, a1, ia, sa), (b0, b1, ib, sb) in itertools.combinations(iv, 2):
        if b0 < a1 and a0 < b1:
            probs.append(f"{sa.oname}.{sa.name} [{a0},{a1}) overlaps "
                         f"{sb.oname}.{sb.name} [{b0},{b1})")
            involved |= {ia, ib}
    return probs, involved


def model_double_allocation(case):
    """defect model for KF_REDECL: collect() lists a re-declared name once
    per class of the MRO (each with its own size); the position assigned
    last (stable sort by size, descending) is used with the derived format.
    -> predicted positions per slot"""
    coll = []
    e = case.e
    for oname, prog in [("e", e)] + list(case.subs.items()):
        for cls in type(prog).__mro__:
            for k, v in cls.__dict__.items():
                if getattr(v, "map", None) is case.M and hasattr(v, "fmt"):
                    coll.append((fsize(v.fmt), oname, k))
    coll.sort(key=lambda t: -t[0])
    pos, out = 0, {}
    for size, oname, k in coll:
        out[(oname, k)] = pos
        pos += size
    return out


def is_redecl_defect(case):
    """the case re-declares a base name with a larger format and the observed
    positions are exactly those of the double-allocation model"""
    if not any(fsize(s.fmt) > fsize(case.shadowed[s.name])
               for s in case.slots if s.place == "redecl"):
        return False
    pred = model_double_allocation(case)
    return all(pred.get((s.oname, s.name)) == s.pos for s in case.slots)


class Sink:
    """collects violations of one case; caps what is stored per signature"""
    def __init__(self, res, defer=False):
        self.res = res
        self.n = 0
        self.pending = [] if defer else None

    def flush(self, kf=None):
        """deferred mode: store what was collected, attributed to `kf` if
        the whole case matched that defect model"""
        todo, self.pending = self.pending or [], None
        for cj, expected, observed, kind, kf0, note in todo:
            self.n -= 1
            self.add(cj, expected, observed, kind, kf=kf or kf0, note=note)

    def add(self, cj, expected, observed, kind, kf=None, note=""):
        self.n += 1
        if self.pending is not None:
            self.pending.append((cj, expected, observed, kind, kf, note))
            return
        places = sorted({p for _, p in cj["layout"]})
        sig = core.digest([kind, places, cj.get("kind"), str(kf)])
        n = self.res.cov.setdefault("_sigs", {})
        n[sig] = n.get(sig, 0) + 1
        if n[sig] <= 3 or getattr(self.res, "nocap", False):
            self.res.violation(cj, expected, observed, kf=kf, sig=sig,
                               note=note or kind)
        else:
            self.res.count("violations_not_stored")


@contextlib.contextmanager
def real_kernel():
    """ebpfcat unpatched; only records the descriptors it obtains so that
    they can be closed afterwards"""
    import ebpfcat.bpf as B
    orig, fds = B.bpf, []

    def recording_bpf(cmd, fmt, *args):
        r = orig(cmd, fmt, *args)
        if cmd in (0, 5, 7):
            fds.append(r[0])
        return r
    B.bpf = recording_bpf
    try:
        yield fds
    finally:
        B.bpf = orig
        for fd in fds:
            try:
                os.close(fd)
            except OSError:
                pass


def make_twin(case, mode):
    """a second, loaded instance of the case's program class: without
    subprograms ("fewer") or with one more instance of every subprogram
    class ("more"); its program just returns"""
    subs = []
    if mode == "more":
        for key, n in (("a1", 3), ("b1", 2)):
            if key in case.subs:
                subs += [type(case.subs[key])() for _ in range(n)]
    elif mode != "fewer":
        raise core.Internal(f"C08: twin mode {mode}")
    twin = case.b.cls(prog_type=case.e.prog_type, license="GPL",
                      subprograms=subs)
    twin.r0 = 2
    twin.exit()
    twin.load()
    return twin


def model_shared_size(case, ref, s1, s2, n_possible):
    """defect model for KF_SHARED_SIZE: read() and the indexing of per-CPU
    variables take the value size from the map descriptor, an attribute of
    the program *class* that the instance created last has set (s2), while
    this instance's map has values of s1 bytes: the buffer has s2 bytes
    per CPU (the kernel's s1 * n bytes are cut off or followed by zeros)
    and CPU c is looked for at c * s2.
    -> the table of Python reads"""
    flat = bytearray()
    for c in range(n_possible):
        img = bytearray(s1)
        for s, raw in zip(case.slots, ref.get(c) or
                          [bytes(x.size) for x in case.slots]):
            img[s.pos:s.pos + s.size] = raw
        flat += img
    data = bytes(flat[:s2 * n_possible]).ljust(s2 * n_possible, b"\0")
    table = []
    for s in case.slots:
        row = []
        for c in range(n_possible):
            raw = data[c * s2 + s.pos:c * s2 + s.pos + s.size]
            row.append(decode(s.fmt, raw) if len(raw) == s.size
                       else "error")
        table.append(row)
    return table


def run_array(layout, seed, backend, res=None, variant=()):
    """one declaration set on an array map.  backend 'sim' or 'real'.
    -> (status, observations); violations go to res (sim only)"""
    cj = dict(kind="array", layout=[list(p) for p in layout],
              variant=list(variant))
    sink = Sink(res) if res is not None else None
    obs = []
    sk = simkernel.SimKernel(n_possible=1) if backend == "sim" else None
    ctx = sk.installed() if sk else real_kernel()
    try:
        with ctx:
            try:
                case = Case(layout, map_in_derived="mapbase" not in variant)
                case.read_positions()
                case.emit()
                case.e.load()
            except Exception as ex:
                if sk is None:
                    return "rejected:" + type(ex).__name__, obs
                if isinstance(ex, simkernel.SimTrap):
                    raise
                return "rejected:" + type(ex).__name__, obs
            e = case.e
            mapsize = case.M.size
            if sk:
                maps = [m for m in sk.kernel.maps.values()]
                twin = [make_twin(case, v[5:]) for v in variant
                        if v.startswith("twin-")]
                if len(maps) != 1:
                    sink.add(cj, "one array map holding the variables",
                             f"{len(maps)} maps created", "no-map")
                    return "violated", obs
                value_size = maps[0].value_size
            else:
                value_size = mapsize
            obs.append(("positions", case.read_positions(), value_size))
            kf = None
            probs, involved = check_positions(case, value_size)
            if res is not None and len(layout) == 3 and \
                    len({p for _, p in layout}) == 3:
                res.sample(dict(cj, positions=obs[-1][1],
                                map_size=value_size), limit=4)
            if probs and sink:
                kf = KF_REDECL if is_redecl_defect(case) else None
                sink.add(cj, "positions pairwise disjoint and inside the "
                         f"map ({value_size} bytes)", probs[:4],
                         "layout", kf=kf)
            for t in vectors(seed):
                # ---- Python writes, Python reads back, program copies out
                want = []
                for i, s in enumerate(case.slots):
                    v, raw = py_value(s.fmt, i, t, seed)
                    want.append((v, raw))
                    try:
                        setattr(s.owner, s.name, v)
                    except Exception as ex:
                        obs.append(("pyset-exc", i, type(ex).__name__))
                        if sink and not probs:
                            sink.add(cj, "Python write accepted",
                                     f"{type(ex).__name__}: {ex}",
                                     "python-write", note=f"slot {i}")
                # writes struct refuses: nothing is written
                for i in refuse_writes(case, t, 0, obs):
                    if res is not None:
                        res.count("refused_value_accepted")
                    with contextlib.suppress(Exception):
                        setattr(case.slots[i].owner, case.slots[i].name,
                                want[i][0])
                back = []
                for i, s in enumerate(case.slots):
                    try:
                        back.append(getattr(s.owner, s.name))
                    except Exception as ex:
                        back.append(f"{type(ex).__name__}")
                obs.append(("pyback", t, back))
                invals = [pattern(s.fmt, i, t + 1, seed + 1)
                          for i, s in enumerate(case.slots)]
                pkt = case.packet(invals)
                if sk:
                    try:
                        ret, vm = sk.run_prog(e.file_descriptor, pkt)
                    except simkernel.SimTrap as trap:
                        obs.append(("trap", t, str(trap)))
                        sink.add(cj, "the program runs", str(trap), "trap",
                                 kf=kf)
                        break
                    out = pkt
                    res.count("transitions", vm.steps)
                else:
                    ret, out = kern.test_run(e.file_descriptor, pkt)
                outs = case.outs(out)
                obs.append(("run", t, ret, outs))
                # ... whoever wrote the value that is there
                open1 = refuse_writes(case, t, 1, obs)
                got = []
                for i, s in enumerate(case.slots):
                    try:
                        got.append(getattr(s.owner, s.name))
                    except Exception as ex:
                        got.append(f"{type(ex).__name__}")
                obs.append(("pyread", t, got))
                if not sink:
                    continue
                for i, s in enumerate(case.slots):
                    v, raw = want[i]
                    where = f"{s.oname}.{s.name} ({s.fmt}, {s.place})"
                    kfi = kf if i in involved else None
                    if not same(s.fmt, back[i], v):
                        sink.add(cj, v, back[i], "py-py", kf=kfi,
                                 note=f"{where}: Python read after all "
                                 f"Python writes and the refused ones "
                                 f"{refused_note(obs, t, 0, i)}, vector {t}")
                    if ret != 2:
                        sink.add(cj, 2, ret, "retval", kf=kf)
                    elif outs[i] != raw:
                        sink.add(cj, raw, outs[i], "py-to-program", kf=kfi,
                                 note=f"{where}: program read of the value "
                                 f"{v!r} written by Python (refused "
                                 f"afterwards: {refused_note(obs, t, 0, i)}), "
                                 f"vector {t}")
                    exp = decode(s.fmt, invals[i])
                    if ret == 2 and i not in open1 and \
                            not same(s.fmt, got[i], exp):
                        sink.add(cj, exp, got[i], "program-to-py", kf=kfi,
                                 note=f"{where}: Python read of bytes "
                                 f"{invals[i].hex()} stored by the program "
                                 f"(refused afterwards: "
                                 f"{refused_note(obs, t, 1, i)}), vector {t}")
            for m in [e.__dict__.get("amap")]:
                if hasattr(m, "close"):
                    m.close()
            del case, e
    finally:
        if sk:
            sk.close_all()
    return ("ok" if not (sink and sink.n) else "violated"), obs


def run_percpu(layout, seed, backend, n_possible, n_online, schedule,
               res=None, twin=None):
    """per-CPU map: the program (packet -> variables, variables -> packet)
    runs on the CPUs of `schedule`; Python reads after every run.
    twin ("fewer" / "more", simulated kernel only): a second instance of
    the same program class with other subprograms is created and loaded
    before the first one is used"""
    cj = dict(kind="percpu", layout=[list(p) for p in layout],
              n_possible=n_possible, n_online=n_online,
              schedule=list(schedule))
    if twin:
        cj["twin"] = twin
        if backend != "sim":
            raise core.Internal("C08: twin instances on the real kernel")
    sink = Sink(res, defer=bool(twin)) if res is not None else None
    tables = []
    obs = []
    sk = simkernel.SimKernel(n_possible=n_possible, n_online=n_online) \
        if backend == "sim" else None
    ctx = sk.installed() if sk else real_kernel()
    aff = None
    try:
        with ctx:
            try:
                case = Case(layout, percpu=True)
                case.read_positions()
                case.emit()
                case.e.load()
            except Exception as ex:
                if isinstance(ex, simkernel.SimTrap):
                    raise
                return "rejected:" + type(ex).__name__, obs
            e = case.e
            if sk:
                if len(sk.kernel.maps) != 1:
                    sink.add(cj, "one per-CPU map holding the variables",
                             f"{len(sk.kernel.maps)} maps created", "no-map")
                    return "violated", obs
                value_size = list(sk.kernel.maps.values())[0].value_size
                other = make_twin(case, twin) if twin else None
            else:
                value_size = case.M.size
                aff = os.sched_getaffinity(0)
            obs.append(("positions", case.read_positions(), value_size))
            probs, involved = check_positions(case, value_size)
            kf = None
            if probs and sink:
                kf = KF_REDECL if is_redecl_defect(case) else None
                sink.add(cj, "positions pairwise disjoint and inside the "
                         f"map ({value_size} bytes)", probs[:4], "layout",
                         kf=kf)
            ncpu_py = None
            ref = {}        # cpu -> list of raw bytes per slot
            zero = [bytes(s.size) for s in case.slots]
            for t, cpu in enumerate(schedule):
                invals = [pattern(s.fmt, i, 2 + t, seed + t)
                          for i, s in enumerate(case.slots)]
                pkt = case.packet(invals)
                if sk:
                    try:
                        ret, vm = sk.run_prog(e.file_descriptor, pkt, cpu=cpu)
                    except simkernel.SimTrap as trap:
                        obs.append(("trap", t, str(trap)))
                        sink.add(cj, "the program runs", str(trap), "trap",
                                 kf=kf)
                        break
                    out = pkt
                    res.count("transitions", vm.steps)
                else:
                    os.sched_setaffinity(0, {cpu})
                    ret, out = kern.test_run(e.file_descriptor, pkt)
                outs = case.outs(out)
                obs.append(("run", t, cpu, ret, outs))
                before = ref.get(cpu, zero)
                if sink:
                    if ret != 2:
                        sink.add(cj, 2, ret, "retval", kf=kf)
                    for i, s in enumerate(case.slots):
                        if ret == 2 and outs[i] != before[i]:
                            sink.add(cj, before[i], outs[i],
                                     "percpu-program-read",
                                     kf=kf if i in involved else None,
                                     note=f"{s.oname}.{s.name} on CPU {cpu}")
                if ret == 2:
                    ref[cpu] = invals
                try:
                    e.amap.read()
                except Exception as ex:
                    obs.append(("read-exc", type(ex).__name__))
                    if sink:
                        sink.add(cj, "read() works",
                                 f"{type(ex).__name__}: {ex}", "percpu-read")
                    break
                table = []
                for i, s in enumerate(case.slots):
                    var = getattr(s.owner, s.name)
                    ncpu_py = len(var)
                    row = []
                    for c in range(ncpu_py):
                        try:
                            row.append(var[c])
                        except Exception as ex:
                            row.append(type(ex).__name__)
                    table.append(row)
                    if not sink:
                        continue
                    for c in range(ncpu_py):
                        exp = decode(s.fmt, ref.get(c, zero)[i])
                        if not same(s.fmt, row[c], exp):
                            sink.add(cj, exp, row[c], "percpu-py-read",
                                     kf=kf if i in involved else None,
                                     note=f"{s.oname}.{s.name}[{c}] after "
                                     f"runs on CPUs {list(schedule[:t + 1])}")
                obs.append(("pyread", t, table))
                tables.append((table, dict(ref)))
            if sink and ncpu_py is not None and \
                    ncpu_py not in (n_online, n_possible):
                sink.add(cj, [n_online, n_possible], ncpu_py, "percpu-len",
                         note="len() of a per-CPU variable is neither the "
                         "online nor the possible number of CPUs")
            if sink and twin:
                kft = None
                if sink.n and not probs and len(tables) == len(schedule) \
                        and case.M.size != value_size and all(
                            tab == model_shared_size(case, r, value_size,
                                                     case.M.size, n_possible)
                            for tab, r in tables):
                    kft = KF_SHARED_SIZE
                elif sink.n and not probs and case.M.size == 0 and \
                        value_size and not tables and \
                        all(p[3] == "percpu-read" for p in sink.pending):
                    kft = KF_SHARED_SIZE    # a buffer of 0 bytes: read() fails
                sink.flush(kft)
            del case, e
    finally:
        if aff is not None:
            os.sched_setaffinity(0, aff)
        if sk:
            sk.close_all()
    return ("ok" if not (sink and sink.n) else "violated"), obs


# ------------------------------------------------------- several maps at once
KINDS_MIXED = [("array", "percpu"), ("percpu", "array")]
KINDS_SAME = [("array", "array"), ("percpu", "percpu")]
KF_SAMEKIND = "C08-two-maps-of-one-kind-share-base-register"
KF_OTHERMAP = "C08-name-redeclared-in-other-map-offset-clobbered"
KF_SHARED_SIZE = "C08-percpu-value-size-shared-between-instances"
# formats of the three-declaration family over two maps
TRI_FORMATS_QUICK = ["B", "Q", "3B"]
TRI_FORMATS = ["B", "H", "Q", "x", "3B", "5I", "64I"]
SAME_FORMATS = ["B", "I", "x", "3B"]


def py_view(case, mi):
    """the bytes of map `mi` as Python sees them (per-CPU: after read())"""
    obj = case.e.__dict__[case.mapnames[mi]]
    if case.kinds[mi] == "array":
        return bytes(obj[:case.maps[mi].size])
    obj.read()
    return bytes(obj.data)


def observe_multi(layout, assign, kinds, seed, backend, n_possible, n_online,
                  schedule):
    """one declaration set distributed over the maps `kinds` of one program.
    In every step Python writes a value vector into the variables of the
    plain array maps and reads it back, the program (run on the CPU the
    schedule names) copies every variable of every map to the packet and
    then the packet to every variable, Python reads every variable (per-CPU
    ones for every CPU) and the complete bytes of every map.
    -> (status, observations, interpreter steps, problems seen by the
    simulated kernel only)"""
    obs, steps, simprobs = [], 0, []
    sk = simkernel.SimKernel(n_possible=n_possible, n_online=n_online) \
        if backend == "sim" else None
    ctx = sk.installed() if sk else real_kernel()
    aff = None
    try:
        with ctx:
            try:
                case = Case(layout, kinds=kinds, assign=assign)
                case.read_positions()
                case.emit()
                case.e.load()
            except Exception as ex:
                if isinstance(ex, simkernel.SimTrap):
                    raise
                return "rejected:" + type(ex).__name__, obs, steps, simprobs
            e = case.e
            used = [mi for mi in range(len(kinds))
                    if any(s.mi == mi for s in case.slots)]
            # a map without variables is not created (size 0)
            vsizes = [case.maps[mi].size for mi in range(len(kinds))]
            made = [mi for mi in range(len(kinds)) if vsizes[mi]]
            if sk:
                # a map all of whose declarations are shadowed by
                # re-declarations in the other map may or may not exist
                want = [(BPF_ARRAY if kinds[mi] == "array" else BPF_PERCPU,
                         case.maps[mi].size if mi in used else None)
                        for mi in range(len(kinds))
                        if mi in used or mi in case.assign]
                have = [(m.type, m.value_size)
                        for m in sk.kernel.maps.values()]
                opt = [i for i, w in enumerate(want) if w[1] is None]
                rest = True
                for r in range(len(opt) + 1):
                    for drop in itertools.combinations(opt, r):
                        cand = [w for i, w in enumerate(want)
                                if i not in drop]
                        if len(cand) == len(have) and all(
                                w[0] == h[0] and w[1] in (None, h[1])
                                for w, h in zip(cand, have)):
                            rest = False
                if rest:
                    simprobs.append(("no-map", [w for w in want if w[1]],
                                     have))
                    return "violated", obs, steps, simprobs
            else:
                aff = os.sched_getaffinity(0)
            obs.append(("maps", vsizes))
            case.read_positions()
            obs.append(("positions", [(s.oname, s.name, s.fmt, s.place,
                                       s.mi, s.pos) for s in case.slots]))
            if layout_problems(obs[-1][1], vsizes):
                # the values are not looked at: the layout is the violation
                if is_other_map_redecl_defect(case, vsizes):
                    simprobs.append(("kf", KF_OTHERMAP, None))
                return "ok", obs, steps, simprobs
            run = list(schedule) + ([schedule[0]] if seed else [])
            lens = {}
            for t, cpu in enumerate(run):
                for i, s in enumerate(case.slots):
                    if kinds[s.mi] != "array":
                        continue
                    v, raw = py_value(s.fmt, i, t, seed)
                    try:
                        setattr(s.owner, s.name, v)
                    except Exception as ex:
                        obs.append(("pyset-exc", t, i, type(ex).__name__))
                for i in refuse_writes(case, t, 0, obs):
                    with contextlib.suppress(Exception):
                        setattr(case.slots[i].owner, case.slots[i].name,
                                py_value(case.slots[i].fmt, i, t, seed)[0])
                back = []
                for i, s in enumerate(case.slots):
                    if kinds[s.mi] != "array":
                        back.append(None)
                        continue
                    try:
                        back.append(getattr(s.owner, s.name))
                    except Exception as ex:
                        back.append(type(ex).__name__)
                obs.append(("pyback", t, back))
                invals = [multi_inval(s.fmt, i, t, seed)
                          for i, s in enumerate(case.slots)]
                pkt = case.packet(invals)
                if sk:
                    try:
                        ret, vm = sk.run_prog(e.file_descriptor, pkt, cpu=cpu)
                    except simkernel.SimTrap as trap:
                        obs.append(("trap", t, cpu, str(trap)))
                        break
                    out = pkt
                    steps += vm.steps
                else:
                    os.sched_setaffinity(0, {cpu})
                    ret, out = kern.test_run(e.file_descriptor, pkt)
                obs.append(("run", t, cpu, ret, case.outs(out)))
                views = []
                try:
                    for mi in range(len(kinds)):
                        views.append(py_view(case, mi) if mi in made else b"")
                except Exception as ex:
                    obs.append(("read-exc", t, len(views),
                                f"{type(ex).__name__}: {ex}"))
                    break
                got = []
                for i, s in enumerate(case.slots):
                    try:
                        var = getattr(s.owner, s.name)
                        if kinds[s.mi] == "array":
                            got.append(var)
                            continue
                        lens[s.mi] = len(var)
                        row = []
                        for c in range(len(var)):
                            try:
                                row.append(var[c])
                            except Exception as ex:
                                row.append(type(ex).__name__)
                        got.append(row)
                    except Exception as ex:
                        got.append(type(ex).__name__)
                obs.append(("pyread", t, got))
                obs.append(("image", t, views))
            obs.append(("len", sorted(lens.items())))
            for mi in made:
                m = e.__dict__.get(case.mapnames[mi])
                if hasattr(m, "close"):
                    m.close()
            del case, e
    finally:
        if aff is not None:
            os.sched_setaffinity(0, aff)
        if sk:
            sk.close_all()
    return "ok", obs, steps, simprobs


BPF_ARRAY, BPF_PERCPU = 2, 6


def multi_inval(fmt, i, t, seed):
    """packet bytes the program stores into slot i in step t"""
    return pattern(fmt, i, t + 1, seed + 1)


def layout_problems(slots, vsizes):
    """per map: positions pairwise disjoint and inside the map"""
    probs = []
    for mi, vs in enumerate(vsizes):
        iv = []
        for o, n, f, p, m, pos in slots:
            if m != mi:
                continue
            size = fsize(f)
            if not isinstance(pos, int):
                probs.append(f"{o}.{n}: no position")
                continue
            if pos < 0 or pos + size > vs:
                probs.append(f"{o}.{n} [{pos},{pos + size}) outside map "
                             f"{mi} of {vs} bytes")
            iv.append((pos, pos + size, f"{o}.{n}"))
        iv.sort()
        for (a0, a1, an), (b0, b1, bn) in itertools.combinations(iv, 2):
            if b0 < a1 and a0 < b1:
                probs.append(f"map {mi}: {an} [{a0},{a1}) overlaps "
                             f"{bn} [{b0},{b1})")
    return probs


def slot_name(slots, kinds, i):
    o, n, f, p, m, pos = slots[i]
    return f"{o}.{n} ({f}, {p}, map {m} {kinds[m]})"


def judge_pyread(out, slots, kinds, imgs, reads, n_possible, t):
    """what Python reads of every variable against the reference images"""
    for i, (o, n, f, p, m, pos) in enumerate(slots):
        got = reads[i]
        name = slot_name(slots, kinds, i)
        if kinds[m] == "array":
            exp = decode(f, bytes(imgs[m][pos:pos + fsize(f)]))
            if not same(f, got, exp):
                out.append(("program-to-py", exp, got,
                            f"{name}: Python read after the "
                            f"program stored, step {t}"))
            continue
        if not isinstance(got, list):
            out.append(("percpu-py-read", "a sequence", got, name))
            continue
        for c in range(min(len(got), n_possible)):
            exp = decode(f, bytes(imgs[m][c][pos:pos + fsize(f)]))
            if not same(f, got[c], exp):
                out.append(("percpu-py-read", exp, got[c],
                            f"{name}[{c}] after step {t}"))


def judge_image(out, kinds, vsizes, imgs, views, n_possible, t):
    """all bytes of every map as Python sees them against the reference"""
    for mi, view in enumerate(views):
        vs = vsizes[mi]
        if not vs:
            continue
        if kinds[mi] == "array":
            exp = bytes(imgs[mi])
            if view != exp:
                out.append(("map-bytes", exp, view,
                            f"all bytes of map {mi} (array) after "
                            f"step {t}: {diff_at(exp, view)}"))
            continue
        for c in range(min(len(view) // vs, n_possible)):
            exp = bytes(imgs[mi][c])
            got = view[c * vs:(c + 1) * vs]
            if got != exp:
                out.append(("map-bytes", exp, got,
                            f"all bytes of map {mi} (per-CPU) for "
                            f"CPU {c} after step {t}: "
                            f"{diff_at(exp, got)}"))


def judge_multi(obs, kinds, n_possible, n_online, seed, alias=None):
    """Reference: every map is an array of bytes (per-CPU maps: one per
    possible CPU), all zero at first; every variable is the bytes
    [pos, pos + size) of its own map, the positions (pairwise disjoint,
    checked first) being the ones the library chose.  Python and the program
    read and write exactly those bytes; nothing else ever changes.

    `alias` (a defect model, never the specification): {map index: index of
    the map whose value pointer the program uses instead}; Python still
    accesses the real map.
    -> list of (kind, expected, observed, note)"""
    out = []
    if not obs or obs[0][0] != "maps":
        raise core.Internal("C08: observations without maps")
    vsizes = obs[0][1]
    slots = obs[1][1]
    probs = layout_problems(slots, vsizes)
    if probs:
        return [("layout", "positions pairwise disjoint and inside their "
                 f"map (value sizes {vsizes})", probs[:4], "layout")]
    tgt = [mi if alias is None else alias.get(mi, mi)
           for mi in range(len(kinds))]
    imgs = [bytearray(vs) if kinds[mi] == "array"
            else [bytearray(vs) for _ in range(n_possible)]
            for mi, vs in enumerate(vsizes)]

    def region(mi, cpu):
        return imgs[mi] if kinds[mi] == "array" else imgs[mi][cpu]

    def name(i):
        o, n, f, p, m, pos = slots[i]
        return f"{o}.{n} ({f}, {p}, map {m} {kinds[m]})"

    oob = [i for i, (o, n, f, p, m, pos) in enumerate(slots)
           if pos + fsize(f) > vsizes[tgt[m]]]
    seen_len = False
    for ent in obs[2:]:
        tag, t = ent[0], ent[1]
        if tag == "pyset-exc":
            out.append(("python-write", "Python write accepted", ent[3],
                        f"{name(ent[2])}, vector {t}"))
        elif tag == "pyback":
            for i, (o, n, f, p, m, pos) in enumerate(slots):
                if kinds[m] == "array":
                    raw = py_value(f, i, t, seed)[1]
                    imgs[m][pos:pos + len(raw)] = raw
            for i, (o, n, f, p, m, pos) in enumerate(slots):
                if kinds[m] != "array":
                    continue
                exp = decode(f, bytes(imgs[m][pos:pos + fsize(f)]))
                if not same(f, ent[2][i], exp):
                    out.append(("py-py", exp, ent[2][i],
                                f"{name(i)}: Python read after all Python "
                                f"writes, vector {t}"))
        elif tag == "trap":
            if not oob:
                out.append(("trap", "the program runs", ent[3],
                            f"step {t} on CPU {ent[2]}"))
            return out
        elif tag == "run":
            _, _, cpu, ret, outs = ent
            if oob:
                out.append(("no-trap", "out-of-bounds access", ret, ""))
                return out
            if ret != 2:
                out.append(("retval", 2, ret, f"step {t} on CPU {cpu}"))
                return out
            for i, (o, n, f, p, m, pos) in enumerate(slots):
                exp = bytes(region(tgt[m], cpu)[pos:pos + fsize(f)])
                if outs[i] != exp:
                    what = "the value written by Python" \
                        if kinds[m] == "array" else \
                        f"what was last stored on CPU {cpu}"
                    out.append(("program-read", exp, outs[i],
                                f"{name(i)}: program read of {what}, "
                                f"step {t}"))
            for i, (o, n, f, p, m, pos) in enumerate(slots):
                raw = multi_inval(f, i, t, seed)
                region(tgt[m], cpu)[pos:pos + len(raw)] = raw
        elif tag == "read-exc":
            out.append(("map-read", "the map can be read from Python",
                        ent[3], f"map {ent[2]} {kinds[ent[2]]}, step {t}"))
            return out
        elif tag == "pyread":
            judge_pyread(out, slots, kinds, imgs, ent[2], n_possible, t)
        elif tag == "image":
            judge_image(out, kinds, vsizes, imgs, ent[2], n_possible, t)
        elif tag == "pyrefuse":
            pass        # nothing was written; accepted ones were rewritten
        elif tag == "len":
            seen_len = True
            for mi, n in ent[1]:
                if n not in (n_online, n_possible):
                    out.append(("percpu-len", [n_online, n_possible], n,
                                "len() of a per-CPU variable is neither the "
                                "online nor the possible number of CPUs"))
        else:
            raise core.Internal(f"C08: unknown observation {tag}")
    if not seen_len:
        raise core.Internal("C08: observations end early")
    return out


def diff_at(exp, got):
    d = [i for i, (a, b) in enumerate(zip(exp, got)) if a != b]
    if len(exp) != len(got):
        return f"lengths {len(exp)} / {len(got)}"
    return f"bytes {d[:8]} differ"


def is_other_map_redecl_defect(case, vsizes):
    """defect model for KF_OTHERMAP: a map's collect() skips a base-class
    declaration only if the declaration shadowing it is in the same map, so
    the map a shadowed declaration belonged to still allocates it and
    stores its offset under the name - over the offset of the live variable
    if that map is initialised later.  Recognised without assuming anything
    about how collect() orders variables: the case re-declares a name in
    another map, and letting the real collect() of the maps that own such
    re-declarations run once more (i.e. last) changes the offsets of these
    names only, leaves the map sizes alone and gives a sound layout.
    Changes the offsets in the instances: the case is over afterwards."""
    moved = {(s.oname, s.name): s.mi for s in case.slots
             if s.place == "redecl" and case.shadowed_map[s.name] != s.mi}
    if not moved:
        return False
    before = {(s.oname, s.name): s.pos for s in case.slots}
    for mi in sorted(set(moved.values())):
        if case.maps[mi].collect(case.e) != vsizes[mi]:
            return False
    case.read_positions()
    if any(before[s.oname, s.name] != s.pos and (s.oname, s.name)
           not in moved for s in case.slots):
        return False
    return not layout_problems(
        [(s.oname, s.name, s.fmt, s.place, s.mi, s.pos)
         for s in case.slots], vsizes)


def same_kind_alias(kinds):
    """defect model for KF_SAMEKIND: maps of one class share the class's
    base register, which holds the value pointer of the map initialised
    last; the program reaches the variables of every map of that class
    through it"""
    last = {k: mi for mi, k in enumerate(kinds)}
    alias = {mi: last[k] for mi, k in enumerate(kinds) if last[k] != mi}
    return alias


def run_multi(layout, assign, kinds, seed, backend, n_possible, n_online,
              schedule, res=None):
    cj = dict(kind="multi", layout=[list(p) for p in layout],
              assign=list(assign), kinds=list(kinds), n_possible=n_possible,
              n_online=n_online, schedule=list(schedule))
    st, obs, steps, simprobs = observe_multi(
        layout, assign, kinds, seed, backend, n_possible, n_online, schedule)
    if res is None or st.startswith("rejected"):
        return st, obs
    res.count("transitions", steps)
    sink = Sink(res)
    kf = None
    for kind, want, have in simprobs:
        if kind == "kf":
            kf = want
            continue
        sink.add(cj, want, have, kind, note="maps created in the kernel "
                 "(type, value size) in declaration order")
    if sink.n:
        return "violated", obs
    viol = judge_multi(obs, kinds, n_possible, n_online, seed)
    if viol:
        alias = same_kind_alias(kinds)
        if not kf and alias and viol[0][0] != "layout" and \
                not judge_multi(obs, kinds, n_possible, n_online, seed,
                                alias):
            kf = KF_SAMEKIND
        for kind, exp, got, note in viol[:6]:
            sink.add(cj, exp, got, kind, kf=kf, note=note or kind)
        res.count("violating_cases")
    if len(layout) == 3 and len({p for _, p in layout}) == 3:
        res.sample(dict(cj, positions=obs[1][1], map_sizes=obs[0][1]),
                   limit=4)
    return ("violated" if viol else "ok"), obs


def assignments(layout, nmaps=2):
    """the ways of distributing the declarations over the maps such that
    every map gets one; declarations that are equal are interchangeable"""
    seen, out = set(), []
    for a in itertools.product(range(nmaps), repeat=len(layout)):
        if len(set(a)) != nmaps:
            continue
        key = tuple(sorted(zip(layout, a)))
        if key not in seen:
            seen.add(key)
            out.append(a)
    return out


def multi_family(pairs, k):
    return [(lay, a) for lay in layouts_with_prefix(k, (), pairs)
            for a in assignments(lay)]


# ------------------------------------- single elements, run-time indices
# The library's own way of indexing a multi-element variable at run time
# (EtherXDP.program does it with its "64I" counters):
#     with var.get_address(None, False, False) as (dst, _), e.r3 < n:
#         e.r[dst] += size * e.r3
#         ... e.mI[e.r[dst]] ...
# i.e. the register the address comes in is modified in place.
ELEM_ACCESS = True
ELEM_MODES = ("rw", "inc", "r", "w")
SPILL = -512    # stack bytes far below anything the generator allots
MULTI_FORMATS = [f for f in FORMATS if f != "x" and elems(f)[0] > 1]


def is_multi(fmt):
    return fmt != "x" and elems(fmt)[0] > 1


def pad8(n):
    return (n + 7) // 8 * 8


def elem_indices(n, full):
    """the run-time indices a multi-element variable of n elements is
    accessed with: all of them (n > 5 and not `full`: both ends and the
    middle), then two that the guard `index < n` has to keep out"""
    if n <= 5 or full:
        inside = list(range(1, n)) + [0]
    else:
        inside = [1, n - 1, 0, n // 2, n - 2]
    return inside + [n, 255]


def elem_plan(slots, full):
    """-> (indices of the multi-element slots, of the others, number of
    runs, index of multi-element slot number j in run t)"""
    multis = [i for i, sl in enumerate(slots) if is_multi(sl[2])]
    others = [i for i, sl in enumerate(slots) if not is_multi(sl[2])]
    lists = [elem_indices(elems(slots[i][2])[0], full) for i in multis]
    runs = max([len(x) for x in lists] or [1])

    def index(j, t):
        return lists[j][(t + j) % len(lists[j])]
    return multis, others, runs, index


def elem_inval(ef, j, t, seed):
    """packet bytes the program stores into the indexed element"""
    return pattern(ef, 7 + j, t + 2, seed + 3)


class ElemCase:
    """A Case whose program goes, for every multi-element variable in turn,
    through the library's idiom with an index taken from the packet: reads
    the element into the packet and / or stores packet bytes into it
    (mode "rw", "r", "w"; "inc": `+= 1` and read), then copies every
    single-element variable to the packet and the packet to it; at the end
    every variable is copied whole to the packet.  Right after the prologue
    the base register of every map is put on the stack by a raw instruction,
    and after every statement raw instructions compare it with what is
    there and leave a mark in the packet if it moved."""

    def __init__(self, layout, kinds, assign, mode):
        cnt = [2 if p == "subA" else 1 for f, p in layout]
        nm = sum(c for (f, p), c in zip(layout, cnt) if is_multi(f))
        no = sum(c for (f, p), c in zip(layout, cnt) if not is_multi(f))
        wa = sum(c * pad8(fsize(f)) // 8 for (f, p), c in zip(layout, cnt)
                 if not is_multi(f))
        fw = (2 + nm * (1 + no) + 7) // 8
        self.mode = mode
        c = self.case = Case(layout, kinds=kinds, assign=assign,
                             extra_in=2 * nm, extra_out=nm * (1 + wa) + fw)
        b = c.b
        self.multis = [i for i, s in enumerate(c.slots) if is_multi(s.fmt)]
        self.others = [i for i, s in enumerate(c.slots)
                       if not is_multi(s.fmt)]
        self.off_a, o = {}, 0
        for i in self.others:
            self.off_a[i] = o
            o += pad8(c.slots[i].size)
        self.blk = 8 + o
        self.xin = b.in_off + c.total
        self.xout = b.out_off + c.total
        self.flags = self.xout + len(self.multis) * self.blk
        self.nflags = b.pkt_len - self.flags
        self.ncheck = 0
        if len(self.multis) > nm or o > 8 * wa or self.nflags < 8 * fw:
            raise core.Internal("C08: packet areas of an ElemCase")

    # ---- packet offsets
    def idx_off(self, j):
        return self.xin + 16 * j

    def ein_off(self, j):
        return self.xin + 16 * j + 8

    def eout_off(self, j):
        return self.xout + j * self.blk

    def outa_off(self, j, i):
        return self.xout + j * self.blk + 8 + self.off_a[i]

    def in_off(self, i):
        s = self.case.slots[i]
        return self.case.b.in_off + self.case.off[(s.oname, s.name)]

    # ---- program
    def checkpoint(self):
        c, b, e = self.case, self.case.b, self.case.e
        k = self.ncheck
        self.ncheck += 1
        if k >= self.nflags:
            raise core.Internal("C08: too many checkpoints")
        with e.get_free_register(None) as tmp:
            for j, (mi, reg) in enumerate(self.bases):
                b.raw(0x79, tmp, 10, SPILL + 8 * j, 0)  # what was put there
                b.raw(0x1d, tmp, reg, 2, 0)             # same: skip
                b.raw(0xb7, tmp, 0, 0, 1 + mi)
                b.raw(0x73, 9, tmp, self.flags + k, 0)

    def emit(self):
        c, b, e = self.case, self.case.b, self.case.e
        self.bases = [(mi, M.base_register) for mi, M in enumerate(c.maps)
                      if getattr(M, "size", 0)]
        for j, (mi, reg) in enumerate(self.bases):
            b.raw(0x7b, 10, reg, SPILL + 8 * j, 0)
        self.checkpoint()
        mode = self.mode
        for j, i in enumerate(self.multis):
            s = c.slots[i]
            n, ef = elems(s.fmt)
            esz = struct.calcsize(ef)
            mm = getattr(e, "m" + ef)
            var = getattr(s.owner, s.name)
            b.raw(0x71, 3, 9, self.idx_off(j), 0)
            e.owners.add(3)
            with var.get_address(None, False, False) as (dst, _), e.r3 < n:
                if esz > 1:
                    e.r[dst] += esz * e.r3
                else:
                    e.r[dst] += e.r3
                if mode == "inc":
                    mm[e.r[dst]] += 1
                if mode != "w":
                    mm[e.r9 + self.eout_off(j)] = mm[e.r[dst]]
                if mode in ("rw", "w"):
                    mm[e.r[dst]] = mm[e.r9 + self.ein_off(j)]
            e.owners.discard(3)
            self.checkpoint()
            for i2 in self.others:
                s2 = c.slots[i2]
                m2 = MemoryMap(e, s2.fmt) if s2.fmt[0] in "<>!" \
                    else getattr(e, "m" + s2.fmt)
                m2[e.r9 + self.outa_off(j, i2)] = getattr(s2.owner, s2.name)
                setattr(s2.owner, s2.name, m2[e.r9 + self.in_off(i2)])
                self.checkpoint()
        c.emit(copy_out=True, copy_in=False, finish=False)
        self.checkpoint()
        b.finish(2)

    def packet(self, t, seed, index):
        c = self.case
        pkt = bytearray(c.pkt_len)
        for i in self.others:
            s = c.slots[i]
            o = self.in_off(i)
            pkt[o:o + s.size] = multi_inval(s.fmt, i, t, seed)
        for j, i in enumerate(self.multis):
            ef = elems(c.slots[i].fmt)[1]
            pkt[self.idx_off(j)] = index(j, t)
            raw = elem_inval(ef, j, t, seed)
            pkt[self.ein_off(j):self.ein_off(j) + len(raw)] = raw
        return pkt

    def results(self, pkt):
        """-> (element read per multi-element slot, copies of the others
        after each, whole copies of all slots at the end, checkpoint marks)"""
        c = self.case
        eouts, outa = [], []
        for j, i in enumerate(self.multis):
            esz = struct.calcsize(elems(c.slots[i].fmt)[1])
            eouts.append(bytes(pkt[self.eout_off(j):self.eout_off(j) + esz]))
            outa.append([bytes(pkt[self.outa_off(j, k):
                                   self.outa_off(j, k) + c.slots[k].size])
                         for k in self.others])
        marks = bytes(pkt[self.flags:self.flags + self.ncheck])
        return eouts, outa, c.outs(pkt), marks


def observe_elem(layout, assign, kinds, mode, full, seed, backend,
                 n_possible, cpus):
    """-> (status, observations, interpreter steps)"""
    obs, steps = [], 0
    sk = simkernel.SimKernel(n_possible=n_possible, n_online=n_possible) \
        if backend == "sim" else None
    ctx = sk.installed() if sk else real_kernel()
    aff = None
    try:
        with ctx:
            try:
                ec = ElemCase(layout, kinds, assign, mode)
                case = ec.case
                case.read_positions()
                ec.emit()
                case.e.load()
            except Exception as ex:
                if isinstance(ex, (simkernel.SimTrap, core.Internal)):
                    raise
                return "rejected:" + type(ex).__name__, obs, steps
            e = case.e
            vsizes = [getattr(M, "size", 0) for M in case.maps]
            made = [mi for mi in range(len(kinds)) if vsizes[mi]]
            if not sk:
                aff = os.sched_getaffinity(0)
            obs.append(("maps", vsizes))
            case.read_positions()
            slots = [(s.oname, s.name, s.fmt, s.place, s.mi, s.pos)
                     for s in case.slots]
            obs.append(("positions", slots))
            if layout_problems(slots, vsizes):
                return "ok", obs, steps
            multis, others, runs, index = elem_plan(slots, full)
            if multis != ec.multis or others != ec.others:
                raise core.Internal("C08: plan of an ElemCase")
            for t in range(runs):
                cpu = cpus[t % len(cpus)]
                for i, s in enumerate(case.slots):
                    if kinds[s.mi] != "array":
                        continue
                    try:
                        setattr(s.owner, s.name,
                                py_value(s.fmt, i, t, seed)[0])
                    except Exception as ex:
                        obs.append(("pyset-exc", t, i, type(ex).__name__))
                obs.append(("pywritten", t))
                pkt = ec.packet(t, seed, index)
                if sk:
                    try:
                        ret, vm = sk.run_prog(e.file_descriptor, pkt, cpu=cpu)
                    except simkernel.SimTrap as trap:
                        obs.append(("trap", t, cpu, str(trap)))
                        break
                    out = pkt
                    steps += vm.steps
                else:
                    os.sched_setaffinity(0, {cpu})
                    ret, out = kern.test_run(e.file_descriptor, pkt)
                obs.append(("run", t, cpu, ret) + ec.results(out))
                views = []
                try:
                    for mi in range(len(kinds)):
                        views.append(py_view(case, mi) if mi in made else b"")
                except Exception as ex:
                    obs.append(("read-exc", t, len(views),
                                f"{type(ex).__name__}: {ex}"))
                    break
                got = []
                for i, s in enumerate(case.slots):
                    try:
                        var = getattr(s.owner, s.name)
                        if kinds[s.mi] == "array":
                            got.append(var)
                            continue
                        row = []
                        for c in range(len(var)):
                            try:
                                row.append(var[c])
                            except Exception as ex:
                                row.append(type(ex).__name__)
                        got.append(row)
                    except Exception as ex:
                        got.append(type(ex).__name__)
                obs.append(("pyread", t, got))
                obs.append(("image", t, views))
            obs.append(("end",))
            for mi in made:
                m = e.__dict__.get(case.mapnames[mi])
                if hasattr(m, "close"):
                    m.close()
            del case, e, ec
    finally:
        if aff is not None:
            os.sched_setaffinity(0, aff)
        if sk:
            sk.close_all()
    return "ok", obs, steps


def judge_elem(obs, kinds, mode, full, n_possible, seed):
    """Reference as in judge_multi: every map an array of bytes (per-CPU
    maps one per CPU), every variable its own bytes; element number i of a
    multi-element variable is the bytes [pos + i * size, pos + (i + 1) *
    size).  The program's statements are applied in program order.
    -> list of (kind, expected, observed, note)"""
    out = []
    if not obs or obs[0][0] != "maps":
        raise core.Internal("C08: observations without maps")
    vsizes, slots = obs[0][1], obs[1][1]
    probs = layout_problems(slots, vsizes)
    if probs:
        return [("layout", "positions pairwise disjoint and inside their "
                 f"map (value sizes {vsizes})", probs[:4], "layout")]
    imgs = [bytearray(vs) if kinds[mi] == "array"
            else [bytearray(vs) for _ in range(n_possible)]
            for mi, vs in enumerate(vsizes)]

    def region(mi, cpu):
        return imgs[mi] if kinds[mi] == "array" else imgs[mi][cpu]

    multis, others, runs, index = elem_plan(slots, full)
    ended = False
    for ent in obs[2:]:
        tag = ent[0]
        t = ent[1] if len(ent) > 1 else None
        if tag == "pyset-exc":
            out.append(("python-write", "Python write accepted", ent[3],
                        f"{slot_name(slots, kinds, ent[2])}, run {t}"))
        elif tag == "pywritten":
            for i, (o, n, f, p, m, pos) in enumerate(slots):
                if kinds[m] == "array":
                    raw = py_value(f, i, t, seed)[1]
                    imgs[m][pos:pos + len(raw)] = raw
        elif tag == "trap":
            out.append(("trap", "the program runs", ent[3],
                        f"run {t} on CPU {ent[2]}, indices "
                        f"{[index(j, t) for j in range(len(multis))]}"))
            return out
        elif tag == "run":
            _, _, cpu, ret, eouts, outa, outb, marks = ent
            idxs = [index(j, t) for j in range(len(multis))]
            where = f"run {t} on CPU {cpu}, indices {idxs}"
            if ret != 2:
                out.append(("retval", 2, ret, where))
                return out
            if any(marks):
                k = next(i for i, x in enumerate(marks) if x)
                out.append(("base-register", "the base register of every "
                            "map still points to the map's value after "
                            "every statement", f"the one of map "
                            f"{marks[k] - 1} ({kinds[marks[k] - 1]}) differs "
                            f"from its value after the prologue at "
                            f"checkpoint {k} (all: {marks.hex()})", where))
            for j, i in enumerate(multis):
                o, n_, f, p, m, pos = slots[i]
                n, ef = elems(f)
                esz = struct.calcsize(ef)
                reg = region(m, cpu)
                idx = idxs[j]
                exp = bytes(esz)        # the packet as it was sent
                if idx < n:
                    a = pos + idx * esz
                    if mode == "inc":
                        v = int.from_bytes(reg[a:a + esz], "little") + 1
                        reg[a:a + esz] = (v & ((1 << 8 * esz) - 1)).to_bytes(
                            esz, "little")
                    if mode != "w":
                        exp = bytes(reg[a:a + esz])
                    if mode in ("rw", "w"):
                        reg[a:a + esz] = elem_inval(ef, j, t, seed)
                if eouts[j] != exp:
                    out.append(("element-read", exp, eouts[j],
                                f"{slot_name(slots, kinds, i)}: element "
                                f"{idx} of {n} as the program read it "
                                f"(mode {mode}), {where}"))
                for k, i2 in enumerate(others):
                    o2, n2, f2, p2, m2, pos2 = slots[i2]
                    r2 = region(m2, cpu)
                    exp = bytes(r2[pos2:pos2 + fsize(f2)])
                    if outa[j][k] != exp:
                        out.append(("program-read", exp, outa[j][k],
                                    f"{slot_name(slots, kinds, i2)}: program "
                                    f"read after element {idx} of "
                                    f"{slot_name(slots, kinds, i)} was "
                                    f"accessed, {where}"))
                    raw = multi_inval(f2, i2, t, seed)
                    r2[pos2:pos2 + len(raw)] = raw
            for i, (o, n_, f, p, m, pos) in enumerate(slots):
                exp = bytes(region(m, cpu)[pos:pos + fsize(f)])
                if outb[i] != exp:
                    out.append(("program-read-whole", exp, outb[i],
                                f"{slot_name(slots, kinds, i)}: program read "
                                f"at the end, {where}: "
                                f"{diff_at(exp, outb[i])}"))
        elif tag == "read-exc":
            out.append(("map-read", "the map can be read from Python",
                        ent[3], f"map {ent[2]} {kinds[ent[2]]}, run {t}"))
            return out
        elif tag == "pyread":
            judge_pyread(out, slots, kinds, imgs, ent[2], n_possible, t)
        elif tag == "image":
            judge_image(out, kinds, vsizes, imgs, ent[2], n_possible, t)
        elif tag == "end":
            ended = True
        else:
            raise core.Internal(f"C08: unknown observation {tag}")
    if not ended:
        raise core.Internal("C08: observations end early")
    return out


def run_elem(layout, assign, kinds, mode, full, seed, backend, n_possible,
             cpus, res=None):
    cj = dict(kind="elem", layout=[list(p) for p in layout],
              assign=list(assign), kinds=list(kinds), mode=mode, full=full,
              n_possible=n_possible, cpus=list(cpus))
    st, obs, steps = observe_elem(layout, assign, kinds, mode, full, seed,
                                  backend, n_possible, cpus)
    if res is None or st.startswith("rejected"):
        return st, obs
    res.count("transitions", steps)
    viol = judge_elem(obs, kinds, mode, full, n_possible, seed)
    sink = Sink(res)
    for kind, exp, got, note in viol[:6]:
        sink.add(cj, exp, got, "elem-" + kind, note=note or kind)
    if viol:
        res.count("violating_cases")
    if len(layout) == 2 and layout[0][0] == "5I" and layout[1][1] == "subA":
        res.sample(dict(cj, positions=obs[1][1], map_sizes=obs[0][1]),
                   limit=3)
    return ("violated" if viol else "ok"), obs


def work_elem(item, seed, kern_every, res):
    layout, assign, kinds, mode, full = item
    n = os.cpu_count() or 1
    cpus = (0, n - 1) if "percpu" in kinds else (0,)
    res.count("evaluations")
    res.count("evaluations_element_access")
    st, obs = run_elem(layout, assign, kinds, mode, full, seed, "sim", n,
                       cpus, res)
    res.outcomes.add("elem-" + st)
    if st.startswith("rejected"):
        res.count("rejected_by_generator")
        return
    res.count("traces_validated_against_impl")
    res.nontrivial.add(core.digest(["elem", layout, assign, kinds, mode]))
    if st == "ok" and kern_every and kern.available() and \
            n == simkernel.possible_cpus() and \
            int(core.digest([layout, assign, kinds, mode], 8), 16) \
            % kern_every == 0:
        st2, obs2 = run_elem(layout, assign, kinds, mode, full, seed, "real",
                             n, cpus)
        if st2.startswith("rejected"):
            # the verifier's opinion of the program is C05's subject
            res.count("real_kernel_refused_program")
            res.outcomes.add("elem-real-" + st2)
            return
        res.count("kernel_validated")
        res.count("kernel_validated_element_access")
        if (st2, obs2) != (st, obs):
            raise core.Internal(
                "simulated and real kernel disagree on element access "
                f"{layout} {kinds} {assign} mode {mode}: "
                f"{first_diff(obs, obs2)}")


def elem_items(ctx):
    """programs that index multi-element variables at run time"""
    quick = ctx.quick
    multi = [(f, p) for p in PLACES for f in MULTI_FORMATS]
    fam = []        # (layout, assign, kinds, mode, full, kernel every)
    modes = ELEM_MODES[:2] if quick else ELEM_MODES
    single = [("array",), ("percpu",)]

    def canon(lay):
        return tuple(sorted(lay, key=PAIRS.index))
    # a multi-element variable alone and next to every other declaration
    seen = set()
    for a in multi:
        for lay in [(a,)] + [canon((a, b)) for b in PAIRS]:
            if lay in seen or not valid(lay):
                continue
            seen.add(lay)
            for kinds in single:
                for mode in modes:
                    fam.append((lay, (0,) * len(lay), kinds, mode, False,
                                61 if quick else 211))
            if not quick and any(f == "64I" for f, p in lay):
                fam.append((lay, (0,) * len(lay), ("array",), "rw", True,
                            499))
    # ... next to two others, smaller alphabet
    tm = [(f, p) for p in PLACES[:4] for f in (("3B", "5I") if quick else
                                               MULTI_FORMATS)]
    to = [(f, p) for p in PLACES
          for f in (TRI_FORMATS_QUICK if quick else TRI_FORMATS)]
    seen = set()
    for a in tm:
        for b, c in itertools.combinations_with_replacement(to, 2):
            lay = canon((a, b, c))
            if lay in seen or not valid(lay):
                continue
            seen.add(lay)
            for kinds in single:
                fam.append((lay, (0, 0, 0), kinds,
                            modes[len(seen) % len(modes)], False,
                            97 if quick else 499))
    # ... in one map, the other variable in a map of the other kind
    for a in multi:
        for b in [(f, p) for p in PLACES for f in SAME_FORMATS + ["5I"]]:
            lay = canon((a, b))
            if not valid(lay):
                continue
            for asg in assignments(lay):
                for kinds in KINDS_MIXED:
                    fam.append((lay, asg, kinds, "rw", False,
                                41 if quick else 211))
    # byte-order-prefixed neighbours
    for a in multi[:8]:
        for x in [(f, p) for p in ("base", "subA") for f in XFORMATS]:
            fam.append(((a, x), (0, 0), ("array",), "rw", False, 29))
    items = []
    fam.sort(key=lambda f: f[5])
    for ke, grp in itertools.groupby(fam, key=lambda f: f[5]):
        grp = [g[:5] for g in grp]
        for i in range(0, len(grp), 40):
            items.append(("elem", 2, (i,), ctx.seed, ke, grp[i:i + 40]))
    return items


# ------------------------------------------------------------------ driver
def percpu_configs(ctx):
    n = os.cpu_count() or 1
    out = []
    for npos, non in ((1, 1), (2, 2), (n, n), (n + 3, n)):
        if (npos, non) in [(a, b) for a, b, _ in out]:
            continue
        cpus = sorted({0, non - 1, min(1, non - 1)})
        scheds = [(cpus[0], cpus[-1], cpus[0]),
                  (cpus[-1], cpus[-1], cpus[0])]
        if not ctx.quick:
            scheds.append((cpus[len(cpus) // 2], cpus[0],
                           cpus[len(cpus) // 2]))
        out.append((npos, non, scheds))
    return out


def work(item, res):
    kind, k, prefix, seed, kern_every, extra = item
    for n, layout in enumerate(extra if kind in ("arrayx", "multi", "elem")
                               else layouts_with_prefix(k, prefix)):
        if kind in ("array", "arrayx"):
            res.count("evaluations")
            st, obs = run_array(layout, seed, "sim", res)
            res.outcomes.add(st)
            if st.startswith("rejected"):
                res.count("rejected_by_generator")
                continue
            res.count("traces_validated_against_impl")
            res.nontrivial.add(core.digest(["array", layout]))
            if st == "ok" and kern_every and kern.available() and \
                    int(core.digest(layout, 8), 16) % kern_every == 0:
                st2, obs2 = run_array(layout, seed, "real")
                res.count("kernel_validated")
                if (st2, obs2) != (st, obs):
                    raise core.Internal(
                        "simulated and real kernel disagree on array layout "
                        f"{layout}: {first_diff(obs, obs2)}")
        elif kind == "multi":
            work_multi(layout, seed, kern_every, res)
        elif kind == "elem":
            work_elem(layout, seed, kern_every, res)
        elif kind == "twins":
            for mode in ("fewer", "more"):
                res.count("evaluations", 2)
                res.count("evaluations_two_instances", 2)
                st, _ = run_array(layout, seed, "sim", res,
                                  variant=("twin-" + mode,))
                res.outcomes.add("twin-array-" + st)
                st2, _ = run_percpu(layout, seed, "sim", 2, 2, (0, 1, 0),
                                    res, twin=mode)
                res.outcomes.add("twin-percpu-" + st2)
                for x in (st, st2):
                    if x.startswith("rejected"):
                        res.count("rejected_by_generator")
                    else:
                        res.count("traces_validated_against_impl")
                res.nontrivial.add(core.digest(["twins", layout, mode]))
        else:
            for npos, non, scheds in extra:
                for sched in scheds:
                    res.count("evaluations")
                    st, obs = run_percpu(layout, seed, "sim", npos, non,
                                         sched, res)
                    res.outcomes.add("percpu-" + st)
                    if st.startswith("rejected"):
                        res.count("rejected_by_generator")
                        continue
                    res.count("traces_validated_against_impl")
                    res.nontrivial.add(core.digest(["percpu", layout, npos]))
                    if st == "ok" and kern_every and kern.available() and \
                            npos == non == simkernel.possible_cpus() and \
                            int(core.digest(layout, 8), 16) % kern_every == 0:
                        st2, obs2 = run_percpu(layout, seed, "real", npos,
                                               non, sched)
                        res.count("kernel_validated")
                        if (st2, obs2) != (st, obs):
                            raise core.Internal(
                                "simulated and real kernel disagree on "
                                f"per-CPU layout {layout} schedule {sched}: "
                                f"{first_diff(obs, obs2)}")


def work_multi(item, seed, kern_every, res):
    layout, assign, kinds_list, configs = item
    for kinds in kinds_list:
        mixed = len(set(kinds)) == len(kinds)
        for npos, non, scheds in configs:
            for sched in scheds:
                res.count("evaluations")
                res.count("evaluations_several_maps" if mixed
                          else "evaluations_maps_of_one_kind")
                st, obs = run_multi(layout, assign, kinds, seed, "sim",
                                    npos, non, sched, res)
                res.outcomes.add(("multi-" if mixed else "onekind-") + st)
                if st.startswith("rejected"):
                    res.count("rejected_by_generator")
                    continue
                res.count("traces_validated_against_impl")
                res.nontrivial.add(core.digest(
                    ["multi", layout, assign, kinds, npos]))
                if st == "ok" and kern_every and kern.available() and \
                        npos == non == simkernel.possible_cpus() and \
                        int(core.digest([layout, assign, kinds], 8), 16) \
                        % kern_every == 0:
                    st2, obs2 = run_multi(layout, assign, kinds, seed,
                                          "real", npos, non, sched)
                    res.count("kernel_validated")
                    res.count("kernel_validated_several_maps")
                    if (st2, obs2) != (st, obs):
                        raise core.Internal(
                            "simulated and real kernel disagree on "
                            f"{layout} over maps {kinds} {assign} schedule "
                            f"{sched}: {first_diff(obs, obs2)}")


def first_diff(a, b):
    for x, y in zip(a, b):
        if x != y:
            return f"sim={x!r} real={y!r}"
    return f"lengths {len(a)} vs {len(b)}"


def prefixes(k):
    if k == 1:
        return [()]
    if k == 2:
        return [(i,) for i in range(len(PAIRS))]
    return [(i, j) for i in range(len(PAIRS)) for j in range(i, len(PAIRS))]


def multi_items(ctx, pc):
    """programs with two array-type maps"""
    n = os.cpu_count() or 1
    main = [(n, n, [(0, n - 1, 0)])]
    others = [c for c in pc if c[:2] != (n, n)]
    small = [(f, p) for p in PLACES for f in SAME_FORMATS]
    tri = [(f, p) for p in PLACES
           for f in (TRI_FORMATS_QUICK if ctx.quick else TRI_FORMATS)]
    xf = XFORMATS[:3] if ctx.quick else XFORMATS
    xp = [(f, p) for p in PLACES for f in xf]
    fam = []        # (layout, assign, kinds, configs, kernel every)
    # every pair of declarations, one in each map, both orders of the maps
    ke = 41 if ctx.quick else 211
    for lay, a in multi_family(PAIRS, 2):
        fam.append((lay, a, KINDS_MIXED, main if ctx.quick else pc, ke))
    # three declarations over a smaller format alphabet, 2 + 1 and 1 + 2
    for lay, a in multi_family(tri, 3):
        fam.append((lay, a, KINDS_MIXED, main, 97 if ctx.quick else 499))
    # the other CPU configurations
    if ctx.quick:
        for lay, a in multi_family(small, 2):
            fam.append((lay, a, KINDS_MIXED, others, 0))
    # byte-order-prefixed formats next to each other and to plain ones
    for x in xp:
        for y in xp + small:
            if valid((x, y)):
                for a in assignments((x, y)):
                    fam.append(((x, y), a, KINDS_MIXED, main, 29))
    # a map without any variable next to a map with one or two
    for k in (1, 2):
        for lay in layouts_with_prefix(k, (), PAIRS if k == 1 else small):
            for a in ((0,) * k, (1,) * k):
                fam.append((lay, a, KINDS_MIXED, main, 13))
    # two maps of the same class
    if SAME_KIND:
        for lay, a in multi_family(small, 2):
            fam.append((lay, a, KINDS_SAME, [(2, 2, [(0, 1, 0)])], 0))
    items = []
    fam.sort(key=lambda f: f[4])
    for ke, grp in itertools.groupby(fam, key=lambda f: f[4]):
        grp = [g[:4] for g in grp]
        step = 24 if len(grp[0][3]) * len(grp[0][3][0][2]) > 1 else 60
        for i in range(0, len(grp), step):
            items.append(("multi", 2, (i,), ctx.seed, ke, grp[i:i + step]))
    return items


def run(ctx):
    st = simkernel.selftest_once()
    kmax = 3 if ctx.quick else 4
    pmax = 2 if ctx.quick else 3
    items = []
    for k in range(1, kmax + 1):
        for p in prefixes(k):
            items.append(("array", k, p, ctx.seed, 97 if ctx.quick else 499,
                          None))
    # byte-order-prefixed formats: alone, in pairs, and next to plain ones
    xf = XFORMATS[:3] if ctx.quick else XFORMATS
    xp = [(f, p) for p in PLACES for f in xf]
    plain = [(f, p) for p in PLACES for f in ("B", "I", "x", "3B")]
    lays = [(a,) for a in xp] + \
        [lay for a in xp for b in xp + plain for lay in [(a, b)]
         if valid(lay)]
    for i in range(0, len(lays), 40):
        items.append(("arrayx", 2, (), ctx.seed, 29 if ctx.quick else 97,
                      lays[i:i + 40]))
    pc = percpu_configs(ctx)
    for k in range(1, pmax + 1):
        for p in prefixes(k):
            items.append(("percpu", k, p, ctx.seed, 23 if ctx.quick else 211,
                          pc))
    items += multi_items(ctx, pc)
    if ELEM_ACCESS:
        items += elem_items(ctx)
    if TWIN_INSTANCES:
        for k in (1, 2):
            for p in prefixes(k):
                items.append(("twins", k, p, ctx.seed, 0, None))
    # largest items first so that the pool stays busy
    items.sort(key=lambda it: (-it[1], it[2]))
    res = core.pmap(ctx, work, items, chunk=1)
    # shapes outside the main enumeration: the map declared in the base
    # class only (EBPF.__init__ looks at the instantiated class only)
    probe = core.Result()
    for layout in [(("I", "base"),), (("I", "base"), ("H", "derived")),
                   (("Q", "base"), ("B", "subA"))]:
        st2, _ = run_array(layout, ctx.seed, "sim", probe,
                           variant=("mapbase",))
        probe.cov.pop("transitions", None)
        res.count("map_only_in_base_class:" + st2)
        res.outcomes.add("mapbase-" + st2)
    res.merge(probe)
    res.cov.pop("_sigs", None)
    res.cov["states"] = len(res.nontrivial)
    res.cov["kernel_available"] = kern.available()
    res.cov["simkernel_selftest"] = st
    res.cov["bound_completed"] = dict(array_declarations=kmax,
                                      percpu_declarations=pmax)
    res.cov["percpu_configs"] = [(a, b, len(s)) for a, b, s in pc]
    res.sample(dict(layout=[["Q", "base"], ["H", "redecl"], ["64I", "subA"]]))
    res.assumptions += [
        "the map is declared in the instantiated (most derived) class as "
        "well as in the base class; a map declared only in a base class is "
        "never created by EBPF.__init__ and every access fails while the "
        "program is generated - counted as rejected, not as a violation",
        "'x' values written from Python are decimals whose product with "
        "100000 is exact in binary floating point (rounding of other "
        "decimals is C02's subject); values read from Python must equal "
        "integer/100000 up to 1e-9 relative",
        "scalar variables are transferred by the DSL statement "
        "`e.m<fmt>[packet] = var` / `var = e.m<fmt>[packet]` with the "
        "variable's own format; multi-element variables through "
        "`get_address()` and raw element copies",
        "per-CPU maps are read-only from Python; with more possible than "
        "online CPUs only indices below len(variable) are compared",
        "a re-declared name is one variable (the derived declaration); its "
        "bytes must be disjoint from every other variable's",
        "programs with two maps: both maps are declared in the base class "
        "and in the instantiated class, in the same order; 'the map' of the "
        "statement is read as 'its map' - every variable occupies its own "
        "bytes of the map it was declared in, and a byte of a map that "
        "belongs to no variable of that map stays zero (the library never "
        "has a reason to write there); a re-declaration may name another "
        "map than the declaration it shadows; whether a map all of whose "
        "declarations are shadowed is created at all is left open",
        "two maps of the same class in one program (the library has one "
        "base register per map class and does not reject the program) are "
        "held to the same statement; turn off with SAME_KIND = False",
        "a Python-side write that raises (struct.error, TypeError ...) "
        "because the value cannot be a value of the variable's format has "
        "written nothing: Python and the program still read the value "
        "written last by a successful write from either side (this is the "
        "statement's 'a value written from Python is read by the program "
        "unchanged' - a value that was not written is not read); if the "
        "library accepts such a value instead of raising, what the variable "
        "holds then is left open (counted, written again, not alarmed); "
        "turn off with REFUSED_WRITES = False",
        "element access: the yielded address register of "
        "`var.get_address(None, False, False)` may be modified in place "
        "inside the with block, as the library's own EtherXDP.program does; "
        "element i of a multi-element variable is the bytes [pos + i * "
        "size, pos + (i + 1) * size) of its map in native byte order; an "
        "index the guard `r3 < n` keeps out accesses nothing; `m[...] += 1` "
        "wraps modulo the element size; the map base registers (r7 array "
        "map, r6 per-CPU map) are the library's, a user program does not "
        "write them, so they hold the same pointer after every statement; "
        "turn off with ELEM_ACCESS = False",
        "two instances of one program class are independent programs: the "
        "second instance is only created and loaded, all observations are "
        "made on the first (simulated kernel only - with the defect "
        "C08-percpu-value-size-shared-between-instances the real kernel "
        "would write beyond the buffer); turn off with TWIN_INSTANCES = "
        "False"]
    res.cov["bound_completed"].update(
        two_maps_declarations=3, two_maps_pairs_alphabet=len(PAIRS),
        two_maps_triples_formats=list(
            TRI_FORMATS_QUICK if ctx.quick else TRI_FORMATS),
        same_class_maps=SAME_KIND, two_instances=TWIN_INSTANCES,
        refused_writes=REFUSED_WRITES, element_access=ELEM_ACCESS)
    return res


def replay(ctx, rep):
    res = core.Result()
    res.nocap = True
    c = rep["case"]
    layout = tuple(tuple(p) for p in c["layout"])
    if c["kind"] == "multi":
        st, obs = run_multi(layout, tuple(c["assign"]), tuple(c["kinds"]),
                            rep.get("seed", ctx.seed), "sim",
                            c["n_possible"], c["n_online"],
                            tuple(c["schedule"]), res)
    elif c["kind"] == "elem":
        st, obs = run_elem(layout, tuple(c["assign"]), tuple(c["kinds"]),
                           c["mode"], c["full"], rep.get("seed", ctx.seed),
                           "sim", c["n_possible"], tuple(c["cpus"]), res)
    elif c["kind"] == "array":
        st, obs = run_array(layout, rep.get("seed", ctx.seed), "sim", res,
                            variant=tuple(c.get("variant", ())))
    else:
        st, obs = run_percpu(layout, rep.get("seed", ctx.seed), "sim",
                             c["n_possible"], c["n_online"],
                             tuple(c["schedule"]), res, twin=c.get("twin"))
    print("status:", st)
    for o in obs:
        print("  ", core.jsonable(o))
    return res.violations
