"""C24 - cancelling a sync group releases its resources and ends cancelled.

Crash-point enumeration: the real SyncGroup / FastSyncGroup / ProcessSyncGroup
are started on the virtual loop over the bus model (fast groups additionally
over the simulated bpf() system call, process groups with a model child
process) and driven for three cycles; the task is cancelled before every
driver step (loop iteration, frame delivery, timer) reached up to then, on the
default schedule and with one late frame (timeout path).  After the
cancellation the world keeps running until the task has finished.
"""
import asyncio
import os
import struct

from mc import bussim, core, ecworld, simkernel

import ebpfcat.ebpfcat as ecat
from ebpfcat.ebpfcat import (
    Device, FastEtherCat, FastSyncGroup, ParallelEtherCat, ProcessSyncGroup,
    SyncGroup, SyncManager)

PROP = "C24"
LEVEL = "model_checking"
RULE = ("group kind (slow / fast / process) x terminal set (alone, or "
        "with a second group of the same master started before / after it "
        "that keeps running) x late-frame "
        "position x every cancellation point (driver step) from start() "
        "through three cycles; non-trivial = the cancellation hit a running "
        "task; distinct = distinct (configuration, cancellation step)")

CYCLES = 3
KF_FAST_START = "C24-fast-group-dies-at-registration"
KF_PROC_UNBOUND = "C24-process-group-unbound-error"
KF_OP_BEFORE_TRY = "C24-op-requested-outside-try"
KF_PROC_PRESTART = "C24-process-group-cancelled-before-first-step"

CONFIGS = {
    "one-fmmu-rw": [(4, 6, True, True)],
    "one-direct-rw": [(4, 6, False, True)],
    "fmmu-rw+direct-ro": [(4, 6, True, True), (2, 0, False, False)],
    "two-fmmu-rw": [(4, 6, True, True), (2, 2, True, True)],
    "one-fmmu-ro": [(4, 0, True, False)],
}


class Dev(Device):
    def __init__(self, spec):
        self.spec = spec

    def get_terminals(self):
        return dict(self.spec)

    def program(self):
        pass


class FakeProcess:
    pid = 4242

    def __init__(self, target=None):
        self.target = target
        self.started = False

    def start(self):
        self.started = True


class FakeCtx:
    def __init__(self, real):
        self.real = real
        self.processes = []

    def Value(self, *a):
        return self.real.Value(*a)

    def Array(self, *a):
        return self.real.Array(*a)

    def Process(self, target=None, **kw):
        p = FakeProcess(target)
        self.processes.append(p)
        return p


def execute(kind, cname, late_at, cancel_at, child_delay=0, latency=0,
            via_run=False, companion=None):
    """-> observation dict.  cancel_at None = just measure the default run.
    latency: AL state transitions take that many status polls.
    via_run (fast groups): the group is started inside `async with
    ec.run():` and 'cancelling' means leaving that block, which cancels the
    registered groups through FastSyncGroup.cancel().
    companion ("before" / "after"): a second group of the same kind on the
    same master, with a terminal of its own, started before / after the
    group under test and never cancelled: it must not notice anything."""
    conf = CONFIGS[cname]
    sk = None
    obs = dict(kind=kind, steps=0, cycles=0, cancelled_running=False)
    if kind == "fast":
        sk = simkernel.SimKernel()
        cm = sk.installed()
        cm.__enter__()
    saved = {}
    w = None
    try:
        eccls = {"slow": ecat.SimpleEtherCat, "fast": FastEtherCat,
                 "process": ParallelEtherCat}[kind]
        w = ecworld.World(ec_cls=eccls)
        if kind == "fast":
            saved["randrange"] = ecat.randrange
            # the second registration of an execution draws the number of
            # the first one before it gets a free one
            draws = iter([5, 5, 9])
            ecat.randrange = lambda n: next(draws, 11)
            w.ec.programs = ecat.create_map(ecat.MapType.PROG_ARRAY, 4, 4,
                                            w.ec.MAX_PROGS)
        terms = []
        for i, (isz, osz, fmmu, rw) in enumerate(conf):
            t = w.add_terminal(isz, osz, use_fmmu=fmmu)
            terms.append(t)
            if latency:
                def poll(model, left=[latency]):
                    # a transition takes `latency` polls; the countdown
                    # restarts with every new request
                    if getattr(model, "_lat_for", None) != model.al_requested:
                        model._lat_for = model.al_requested
                        model._lat = latency
                    if model._lat > 0:
                        model._lat -= 1
                        return "stay"
                    model._lat_for = None
                    return "reach"
                t.model.al_poll = poll
        dev = Dev({t: c[3] for t, c in zip(terms, conf)})
        if kind == "slow":
            sg = SyncGroup(w.ec, [dev])
        elif kind == "fast":
            sg = FastSyncGroup(w.ec, [dev])
        else:
            w.ec.fmmu_lock_file = type("FmmuStub", (), dict(
                get_next_addr=lambda self: 0x401000))()
            sg = ProcessSyncGroup(w.ec, [dev])
            sg.ctx = FakeCtx(sg.ctx)
            saved["pidfd_open"] = os.pidfd_open
            os.pidfd_open = lambda pid: 777
        sg2 = task2 = t2 = None
        if companion:
            t2 = w.add_terminal(4, 6, use_fmmu=True)
            sg2 = type(sg)(w.ec, [Dev({t2: True})])
            if companion == "before":
                task2 = sg2.start()
        cycles = [0]
        if kind != "process":
            orig = sg.update_devices

            def update_devices(data):
                cycles[0] += 1
                return orig(data)
            sg.update_devices = update_devices
        leave = None
        if via_run:
            import ebpfcat.xdp as xdpmod
            saved["xdp.if_nametoindex"] = xdpmod.if_nametoindex
            xdpmod.if_nametoindex = lambda name: 7
            saved["XDP._netlink"] = xdpmod.XDP._netlink

            async def _netlink(self, ifindex, fd, flags):
                return None
            xdpmod.XDP._netlink = _netlink
            saved["connect"] = ecat.SimpleEtherCat.connect

            async def connect(self):
                return None
            ecat.SimpleEtherCat.connect = connect
            leave = asyncio.get_event_loop().create_future()
            started = []

            async def outer():
                async with w.ec.run():
                    started.append(sg.start())
                    await leave
            outer_task = asyncio.ensure_future(outer())
            for _ in range(50):
                if started or outer_task.done():
                    break
                w.loop.run_once()
            if not started:
                raise core.Internal("ec.run() did not start: %r"
                                    % (outer_task.exception()
                                       if outer_task.done() else "pending"))
            task = started[0]
        else:
            task = sg.start()
        if companion == "after":
            task2 = sg2.start()
        index = [None]
        cyclic_seen = [0]
        child_exit_in = [None]
        step = 0
        cancelled = False
        while not task.done() and step < 3000:
            if cancel_at is not None and step == cancel_at and not cancelled:
                cancelled = True
                obs["cancelled_running"] = not task.done()
                if leave is not None:
                    leave.set_result(None)
                else:
                    task.cancel()
            if cancel_at is None and (cycles[0] >= CYCLES or
                                      (kind == "process" and step > 12)):
                break
            # model child: exits some steps after it was asked to stop
            if kind == "process" and cancelled and \
                    not sg.runningValue.value and child_exit_in[0] is None:
                child_exit_in[0] = child_delay
            if child_exit_in[0] is not None:
                if child_exit_in[0] == 0 and 777 in w.loop.readers:
                    w.loop.fire_reader(777)
                    child_exit_in[0] = -1
                elif child_exit_in[0] > 0:
                    child_exit_in[0] -= 1
            tp = w.master.transport
            if w.loop.has_ready():
                w.loop.run_once()
            elif tp.inflight:
                frame = tp.inflight[0]
                pi = getattr(sg, "packet_index", None)
                is_cyc = pi is not None and len(frame) >= 8 and \
                    struct.unpack_from("<i", frame, 4)[0] == pi
                if is_cyc:
                    cyclic_seen[0] += 1
                    if late_at is not None and cyclic_seen[0] - 1 == late_at \
                            and w.loop.next_timer() is not None:
                        late_at = None
                        w.loop.advance()
                        step += 1
                        continue
                w.master.deliver(0)
            elif not w.loop.advance():
                waiting_for_child = kind == "process" and \
                    child_exit_in[0] is not None and child_exit_in[0] >= 0
                if cancel_at is None or not waiting_for_child:
                    break
            step += 1
        obs["steps"] = step
        obs["cycles"] = cycles[0]
        obs["done"] = task.done()
        if task.done():
            if task.cancelled():
                obs["outcome"] = ("cancelled",)
            elif task.exception() is not None:
                obs["outcome"] = ("error", type(task.exception()).__name__,
                                  str(task.exception())[:80])
            else:
                obs["outcome"] = ("returned",)
        else:
            obs["outcome"] = ("pending",)
        # what the terminals were asked
        asked = []
        for t in terms:
            ctl = [v for k, v in t.model.al_log if k == "ctl"]
            asked.append(ctl)
        obs["al_requests"] = asked
        obs["fmmu_used"] = [list(t.fmmu_used) for t in terms]
        if kind == "fast":
            m = sk.map_of(w.ec.programs)
            obs["registered"] = sorted(m.progs)
            obs["sync_groups"] = sorted(w.ec.sync_groups)
        if companion:
            # let the companion finish whatever it was doing
            for _ in range(200):
                if task2.done():
                    break
                if w.loop.has_ready():
                    w.loop.run_once()
                elif w.master.transport.inflight:
                    w.master.deliver(0)
                else:
                    break
            ctl2 = [v for k, v in t2.model.al_log if k == "ctl"]
            mine = getattr(sg2, "packet_index", None)
            obs["companion"] = dict(
                done=task2.done(),
                error=(repr(task2.exception())[:80] if task2.done() and
                       not task2.cancelled() and task2.exception() else None),
                al_requests=ctl2, index=mine,
                fmmu_used=list(t2.fmmu_used))
            if kind == "fast":
                obs["companion"]["slot_ok"] = (
                    mine in m.progs and w.ec.sync_groups.get(mine) is sg2)
                # the table without the companion's own entry
                obs["registered"] = [i for i in obs["registered"]
                                     if i != mine]
                obs["sync_groups"] = [i for i in obs["sync_groups"]
                                      if i != mine]
            obs["fmmu_used"] = obs["fmmu_used"][:len(terms)]
        if kind == "process":
            obs["running_flag"] = bool(sg.runningValue.value)
            obs["child_exited"] = child_exit_in[0] == -1
            obs["reader_left"] = 777 in w.loop.readers
        obs["loop_errors"] = [
            (str(c.get("message"))[:50], type(c.get("exception")).__name__)
            for c in w.loop.collect_garbage_errors()]
    finally:
        if w is not None:
            w.close()
        for k, v in saved.items():
            if k == "pidfd_open":
                os.pidfd_open = v
            elif k == "xdp.if_nametoindex":
                import ebpfcat.xdp as xdpmod
                xdpmod.if_nametoindex = v
            elif k == "XDP._netlink":
                import ebpfcat.xdp as xdpmod
                xdpmod.XDP._netlink = v
            elif k == "connect":
                ecat.SimpleEtherCat.connect = v
            else:
                setattr(ecat, k, v)
        if sk is not None:
            cm.__exit__(None, None, None)
            sk.close_all()
    return obs


def judge(case, obs, res):
    kind = case["kind"]

    def bad(exp, seen, what, kf=None):
        res.violation(case, exp, seen, kf=kf,
                      sig=core.digest([kind, what, str(kf)]), note=what)
    if case["cancel_at"] is None:
        # the default run: the group must get going at all
        if obs["outcome"][0] == "error":
            kf = None
            if kind == "fast" and obs["outcome"][1] == "KeyError":
                kf = KF_FAST_START
            bad("group runs", obs["outcome"], "sync group dies by itself", kf)
        return
    if not obs["cancelled_running"]:
        return
    out = obs["outcome"]
    if out != ("cancelled",):
        kf = None
        if kind == "process" and out[0] == "error" and \
                out[1] in ("UnboundLocalError", "NameError"):
            kf = KF_PROC_UNBOUND
        if kind == "fast" and out[0] == "error" and out[1] == "KeyError":
            kf = KF_FAST_START
        bad(("cancelled",), out, "task did not end cancelled", kf)
    for i, ctl in enumerate(obs["al_requests"]):
        if 8 in ctl:
            last_op = len(ctl) - 1 - ctl[::-1].index(8)
            if 4 not in ctl[last_op + 1:]:
                bad("SAFE-OP request after the OP request",
                    dict(terminal=i, requests=ctl),
                    "terminal asked to go OPERATIONAL is not asked back to "
                    "SAFE-OPERATIONAL", KF_OP_BEFORE_TRY)
    if any(x is not None for fu in obs["fmmu_used"] for x in fu):
        bad("all FMMUs free", obs["fmmu_used"], "FMMU not freed")
    if kind == "fast":
        if obs["registered"] or obs["sync_groups"]:
            bad("program unregistered", (obs["registered"],
                                         obs["sync_groups"]),
                "kernel program still registered")
    if kind == "process":
        pre = KF_PROC_PRESTART if case["cancel_at"] == 0 and \
            out == ("cancelled",) and obs["running_flag"] else None
        if obs["running_flag"]:
            bad("subprocess told to stop", "running flag still set",
                "subprocess not stopped", pre)
        if out == ("cancelled",) and not obs["child_exited"]:
            bad("task waits for the subprocess to exit", "ended before",
                "task ended before the subprocess stopped", pre)
    comp = obs.get("companion")
    if comp:
        if comp["done"]:
            bad("the other group keeps running", comp["error"] or "ended",
                "cancelling one group ended another one")
        ctl = comp["al_requests"]
        if 8 in ctl and 4 in ctl[len(ctl) - ctl[::-1].index(8):]:
            bad("the other group's terminal stays OPERATIONAL", ctl,
                "cancelling one group took another group's terminal out of "
                "OPERATIONAL")
        if kind == "fast" and comp["index"] is not None and \
                not comp["done"] and not comp["slot_ok"]:
            bad("the other group's program stays registered under its own "
                "number", comp["index"],
                "cancelling one group unregistered / replaced another "
                "group's program")
    for msg, exc in obs["loop_errors"]:
        if exc in ("CancelledError",):
            continue
        bad("no stray exception", (msg, exc), "exception never retrieved: "
            + exc, KF_FAST_START if exc == "KeyError" and kind == "fast"
            else None)


def work(item, res):
    kind, cname, late_at, latency, via_run, *more = item
    companion = more[0] if more else None
    base = dict(kind=kind, config=cname, late_at=late_at, latency=latency,
                via_run=via_run)
    if companion:
        base["companion"] = companion
    ref = execute(kind, cname, late_at, None, 0, latency, via_run, companion)
    judge(dict(base, cancel_at=None), ref, res)
    n = ref["steps"]
    res.count("evaluations")
    reached = 0
    delays = (0, 2) if kind == "process" else (0,)
    for k in range(0, n + 1):
        for delay in delays:
            obs = execute(kind, cname, late_at, k, delay, latency, via_run,
                          companion)
            res.count("evaluations")
            res.count("transitions", obs["steps"])
            case = dict(base, cancel_at=k, child_delay=delay)
            if obs["cancelled_running"]:
                reached += 1
                res.nontrivial.add(core.digest(case))
            res.outcomes.add((kind, obs["outcome"][:2]))
            judge(case, obs, res)
    res.count(f"cancellation_points_{kind}", reached)
    a = execute(kind, cname, late_at, n // 2, 0, latency, via_run,
                companion)
    b = execute(kind, cname, late_at, n // 2, 0, latency, via_run,
                companion)
    if a != b:
        raise core.Internal("non-deterministic execution")


def run(ctx):
    items = []
    for kind in ("slow", "fast", "process"):
        for cname in CONFIGS:
            if kind == "process" and cname not in ("one-fmmu-rw",
                                                   "one-direct-rw"):
                continue
            lates = [None] if kind == "process" else \
                ([None, 1] if ctx.quick else [None, 0, 1, 2])
            for late_at in lates:
                items.append((kind, cname, late_at, 0, False))
            if kind != "process":
                # slow terminals: a state change takes two status polls
                items.append((kind, cname, None, 2, False))
            if kind == "fast" and cname in ("one-fmmu-rw", "two-fmmu-rw"):
                # cancelled by leaving `async with ec.run():`
                items.append((kind, cname, None, 0, True))
            if kind != "process" and cname in ("one-fmmu-rw",
                                               "fmmu-rw+direct-ro"):
                # another group of the same master keeps running
                for comp in ("before", "after"):
                    items.append((kind, cname, None, 0, False, comp))
    res = core.pmap(ctx, work, items, chunk=1)
    # merge the per-item dicts that pmap overwrote
    res.cov["states"] = len(res.nontrivial)
    res.cov["traces_validated_against_impl"] = res.cov.get("evaluations", 0)
    for kind in ("slow", "fast", "process"):
        if not res.cov.get(f"cancellation_points_{kind}"):
            raise core.Internal(f"no cancellation point reached for the "
                                f"{kind} group kind (vacuous)")
    res.sample(dict(kind="slow", config="fmmu-rw+direct-ro", late_at=1,
                    cancel_at=37))
    res.assumptions += [
        "a cancellation point is a driver step (one loop iteration, one "
        "frame delivery or one timer jump); after the cancellation the bus "
        "keeps answering until the task has finished",
        "'FMMUs freed' is judged on the terminal objects' slot tables",
        "fast groups run over the simulated bpf() (program table = a "
        "PROG_ARRAY in mc/simkernel); frames return from the bus directly",
        "process groups: the child is a model that exits 0 or 2 driver "
        "steps after the running flag was cleared; os.pidfd_open and the "
        "multiprocessing context's Process are seams"]
    return res


def replay(ctx, rep):
    res = core.Result()
    c = rep["case"]
    obs = execute(c["kind"], c["config"], c["late_at"], c["cancel_at"],
                  c.get("child_delay", 0), c.get("latency", 0),
                  c.get("via_run", False), c.get("companion"))
    print(obs)
    judge(c, obs, res)
    return res.violations
