"""C11 - assembled EtherCAT frames are well-formed with exact datagram positions.

Exhaustive enumeration of datagram sequences (bounded alphabet / depth) fed to
the real Packet / SterilePacket; every assembled frame is parsed by the
independent parser (mc.ecparse) and compared with an independent serialiser.
"""
import itertools
import struct

from mc import core, ecparse

PROP = "C11"
LEVEL = "model_checking"
RULE = ("every sequence of datagrams over the stated alphabet up to the depth "
        "bound is appended to a real Packet/SterilePacket and assembled; a "
        "case is non-trivial when at least one datagram was accepted; distinct "
        "= distinct (class, op sequence, index, ethertype)")

from ebpfcat.ethercat import ECCmd, Packet  # noqa: E402
from ebpfcat.ebpfcat import SterilePacket  # noqa: E402

MAX = 1500
HDR = 16
OVERHEAD = 12
MAXCOUNT = 15

ADDRS = [(-3, 0x10), (0, 0x130), (30000, 0xffff), (-32768, 0x502),
         (0x00010800,), (0x7fc00000,), (-0x80000000,)]
IDS = [(0, 0x88A4), (63, 0x3000), (1000, 0x88A4), (10 ** 9, 0x5fff),
       (0x7fffffff, 0x88A4)]


def payload(k, n):
    return bytes(((k * 37 + j * 7 + 1) & 0xff) for j in range(n))


def run_sequence(cls_name, ops, ident, res):
    """ops: list of (method, cmd, addr, length_spec, wkc, idx)

    length_spec: int, or ('fit', delta) = exactly fitting length + delta."""
    index, ethertype = ident
    pk = SterilePacket() if cls_name == "sterile" else Packet()
    size = HDR
    accepted = []   # (cmd, idx, addr32, data, wkc, start, stop, writer)
    case = dict(cls=cls_name, ops=ops, index=index, ethertype=ethertype)
    ok = True

    def bad(expected, observed, what):
        nonlocal ok
        ok = False
        res.violation(case, expected, observed,
                      sig=core.digest([cls_name, what]), note=what)

    for k, (method, cmd, addr, lspec, wkc, idx) in enumerate(ops):
        if isinstance(lspec, tuple):
            n = MAX - size - OVERHEAD + lspec[1]
            if n < 0:
                continue
        else:
            n = lspec
        data = payload(k, n)
        fits = size + n + OVERHEAD <= MAX
        roomy = len(accepted) < MAXCOUNT
        try:
            if cls_name == "sterile":
                fn = pk.append_writer if method == "writer" else pk.append
                ret = fn(ECCmd(cmd), data, idx, *addr, counter=wkc)
            else:
                ret = pk.append(ECCmd(cmd), data, idx, *addr, wkc=wkc)
        except OverflowError:
            res.count("rejected")
            if fits and roomy:
                bad("accepted (fits: size %d + %d + 12 <= 1500, %d datagrams)"
                    % (size, n, len(accepted)), "OverflowError",
                    "fitting datagram rejected")
            continue
        if not fits:
            bad("OverflowError (size %d + %d + 12 > 1500)" % (size, n),
                "accepted", "oversize datagram accepted")
            return
        start, stop = size + 10, size + 10 + n
        if cls_name != "sterile" and tuple(ret) != (start, stop):
            bad((start, stop), ret, "reported position wrong")
        accepted.append((cmd, idx, ecparse.addr32(cmd, *addr), data, wkc,
                         start, stop, method == "writer"))
        size += n + OVERHEAD
    res.count("evaluations")
    if not accepted:
        res.outcomes.add("nothing accepted")
        return
    res.nontrivial.add(core.digest(case))
    if len(accepted) > MAXCOUNT:
        res.outcomes.add("more than 15 datagrams accepted")

    try:
        frame = bytes(pk.assemble(index, ethertype))
    except Exception as e:  # accepted datagrams must assemble
        bad("frame", repr(e), "assemble raised")
        return
    ref = ecparse.build(
        [(0, 0, index, struct.pack("<H", ethertype), 0)]
        + [a[:5] for a in accepted], pad=False)
    res.count("transitions", len(accepted) + 1)
    if len(frame) > MAX:
        bad("<= 1500", len(frame), "frame exceeds maximum")
    if len(frame) != max(len(ref), ecparse.MIN_PAYLOAD):
        bad(max(len(ref), 46), len(frame), "frame length / padding wrong")
    try:
        length, dgs = ecparse.parse(frame)
    except ecparse.ParseError as e:
        bad("well-formed frame", str(e), "frame does not parse: "
            + str(e).split(" at ")[0][:40])
        return
    if length != len(ref) - 2:
        bad(len(ref) - 2, length, "header length != payload length")
    if len(dgs) != len(accepted) + 1:
        bad(len(accepted) + 1, len(dgs), "datagram count / more flags wrong")
        return
    d0 = dgs[0]
    if (d0.cmd, d0.addr, d0.data, d0.more) != \
            (0, index & 0xffffffff, struct.pack("<H", ethertype), True):
        bad("id datagram NOP/index/ethertype", repr(d0), "id datagram wrong")
    for i, (d, a) in enumerate(zip(dgs[1:], accepted)):
        cmd, idx, addr, data, wkc, start, stop, writer = a
        exp = (cmd, idx & 0xff, addr, len(data), i < len(accepted) - 1)
        obs = (d.cmd, d.idx, d.addr, d.length, d.more)
        if exp != obs:
            bad(exp, obs, "datagram header field wrong")
        if frame[start:stop] != data or d.data_pos != start:
            bad(dict(start=start, data=data.hex()[:40]),
                dict(start=d.data_pos, data=frame[start:stop].hex()[:40]),
                "data not at reported position")
        if struct.unpack_from("<H", frame, stop)[0] != wkc \
                or d.wkc_pos != stop:
            bad(dict(pos=stop, wkc=wkc),
                dict(pos=d.wkc_pos,
                     wkc=struct.unpack_from("<H", frame, stop)[0]),
                "working counter not at reported position")
    if frame[:len(ref)] != ref:
        bad(ref.hex()[:80], frame[:len(ref)].hex()[:80],
            "bytes differ from reference serialisation")
    if cls_name == "sterile":
        try:
            st = pk.sterile(index, ethertype)
        except Exception as e:
            bad("sterile frame", repr(e), "sterile raised")
            return
        exp = bytearray(frame)
        for a in accepted:
            if a[7]:
                exp[a[5] - 10] = 0
        if bytes(st) != bytes(exp):
            diff = [i for i in range(min(len(st), len(exp)))
                    if st[i] != exp[i]]
            bad("differs only in writer command bytes (NOP)",
                dict(diff_at=diff[:8], len=len(st)), "sterile copy wrong")
        # the bookkeeping SterilePacket exposes: counters / on_the_fly
        expc = {a[6]: a[4] for a in accepted}
        if dict(pk.counters) != expc:
            bad(expc, dict(pk.counters), "sterile counter positions wrong")
        expw = [(a[5] - 10, a[6] + 2, a[0]) for a in accepted if a[7]]
        obsw = [(s, e, c.value) for s, e, c in pk.on_the_fly]
        if expw != obsw:
            bad(expw, obsw, "sterile writer positions wrong")
    res.outcomes.add((len(accepted), len(frame) == 46, ok))


# ------------------------------------------------------------------ alphabets
def lengths_depth1(ctx):
    base = {0, 1, 2, 7, 30, 31, 32, 33, 700, 1400, 1470, 1471, 1472, 1473}
    if ctx.quick:
        allv = [n for n in range(1474) if n % 8 == ctx.seed % 8]
        return sorted(base | set(allv))
    return list(range(1474))


def seq_kinds(ctx):
    kinds = []
    cmds = [(ecparse.APRD, (-3, 0x10), "plain"),
            (ecparse.FPWR, (1000, 0x800), "writer"),
            (ecparse.LRW, (0x00010800,), "plain")]
    lens = [0, 1, 31, 700, 1400, ("fit", 0), ("fit", 1)] if ctx.quick else \
        [0, 1, 2, 31, 700, 1400, ("fit", 0), ("fit", 1), ("fit", -1)]
    for (cmd, addr, method), n, (wkc, idx) in itertools.product(
            cmds, lens, [(0, 0), (3, 255)]):
        kinds.append((method, cmd, addr, n, wkc, idx))
    return kinds


def work(item, res):
    kind, payload_ = item
    if kind == "d1":
        cmd, n = payload_
        for addr in ADDRS:
            for wkc in (0, 1, 3):
                for idx in (0, 0x33, 255):
                    ident = IDS[(cmd + n + wkc + idx) % len(IDS)]
                    for cls, method in (("packet", "plain"),
                                        ("sterile", "plain"),
                                        ("sterile", "writer")):
                        run_sequence(cls, [(method, cmd, addr, n, wkc, idx)],
                                     ident, res)
    elif kind == "seq":
        prefix, depth, kinds = payload_
        for tail in itertools.product(range(len(kinds)),
                                      repeat=depth - len(prefix)):
            seq = [kinds[i] for i in prefix + tail]
            ident = IDS[sum(prefix + tail) % len(IDS)]
            run_sequence("packet", [("plain",) + k[1:] for k in seq], ident,
                         res)
            run_sequence("sterile", seq, ident, res)
    elif kind == "long":
        pattern, = payload_
        ks = [("plain", ecparse.BRD, (0, 0x130), 0, 1, 1),
              ("writer", ecparse.FPWR, (7, 0x10), 1, 2, 9)]
        seq = [ks[b] for b in pattern]
        ident = IDS[len(pattern) % len(IDS)]
        run_sequence("packet", [("plain",) + k[1:] for k in seq], ident, res)
        run_sequence("sterile", seq, ident, res)


def run(ctx):
    items = [("d1", (cmd, n)) for cmd in range(15)
             for n in lengths_depth1(ctx)]
    kinds = seq_kinds(ctx)
    maxdepth = 3 if ctx.quick else 4
    for depth in range(2, maxdepth + 1):
        plen = 1 if depth <= 2 else 2
        for prefix in itertools.product(range(len(kinds)), repeat=plen):
            items.append(("seq", (prefix, depth, kinds)))
    lo, hi = (14, 17) if ctx.quick else (13, 17)
    for n in range(lo, hi + 1):
        if ctx.quick:
            pats = [(0,) * n, (1,) * n, tuple(i % 2 for i in range(n)),
                    tuple((i + 1) % 2 for i in range(n))]
        else:
            pats = itertools.product((0, 1), repeat=n)
        items.extend(("long", (p,)) for p in pats)
    res = core.pmap(ctx, work, items, chunk=8)
    res.cov["alphabet"] = dict(
        depth1_lengths=len(lengths_depth1(ctx)), depth1_addrs=len(ADDRS),
        seq_kinds=len(kinds), seq_max_depth=maxdepth, long=(lo, hi))
    res.cov["states"] = len(res.nontrivial)
    res.cov["traces_validated_against_impl"] = res.cov.get("evaluations", 0)
    res.sample(dict(cls="sterile", ops=[list(map(repr, kinds[3])),
                                        list(map(repr, kinds[-1]))]))
    res.assumptions += [
        "count limit taken as 15 user datagrams per frame (as in the code); "
        "a sequence is 'fitting' when 16 + sum(len+12) <= 1500",
        "padding bytes are unconstrained, only the padded length is checked"]
    return res


def replay(ctx, rep):
    res = core.Result()
    c = rep["case"]
    ops = [tuple(tuple(x) if isinstance(x, list) else x for x in op)
           for op in c["ops"]]
    run_sequence(c["cls"], ops, (c["index"], c["ethertype"]), res)
    return res.violations
