"""CoE mailbox models, independent of ebpfcat's code.

1. mailbox header pack/parse                      (ETG.1000.4, mailbox)
2. SdoServer - CoE SDO server + minimal SDO information service, usable as
   `bussim.Terminal.mbx_handler`                  (ETG.1000.6, CoE)
3. esc_mailbox_rules - the sync-manager access rule of an ESC for the write
   mailbox (a buffer has to be entered through its start address)
4. RefClient - a small conformant SDO client used to self-test the server
5. SII image builder / parser                     (ETG.1000.6 SII, ETG.2010)
6. selftest() - binds all of the above to the captured data of real terminals
   in ebpfcat/testdata.py (EEPROM dumps, object dictionaries) and to the
   sync-manager hex dumps in ethercat_test.py.

Nothing in here imports ebpfcat.
"""
import ast
import os
import struct
from collections import namedtuple

# =====================================================================
# 1. mailbox header
# =====================================================================
ERR, AOE, EOE, COE, FOE, SOE, VOE = 0, 1, 2, 3, 4, 5, 15

Mbx = namedtuple("Mbx", "length address channel priority type counter "
                        "payload")


def mbx_pack(type, payload, counter=0, address=0, channel=0, priority=0):
    """length u16, address u16, channel(6)|priority(2) u8, type(4)|cnt(3) u8"""
    return struct.pack("<HHBB", len(payload), address & 0xffff,
                       (channel & 0x3f) | (priority & 3) << 6,
                       (type & 0xf) | (counter & 7) << 4) + bytes(payload)


def mbx_parse(buf):
    """parse a mailbox buffer (may be longer than the message)"""
    if len(buf) < 6:
        raise ValueError("mailbox buffer shorter than its header")
    length, address, cp, tc = struct.unpack_from("<HHBB", buf)
    return Mbx(length, address, cp & 0x3f, cp >> 6, tc & 0xf, (tc >> 4) & 7,
               bytes(buf[6:6 + length]))


def next_counter(c):
    """successor in the cycle 1..7 (0 is only a start value)"""
    return c % 7 + 1


# CoE services (bits 12..15 of the CoE header)
EMERGENCY, SDOREQ, SDORES, TXPDO, RXPDO, TXPDO_RR, RXPDO_RR, SDOINFO = \
    range(1, 9)

# SDO abort codes (ETG.1000.6 table "SDO abort codes")
AB_TOGGLE = 0x05030000
AB_TIMEOUT = 0x05040000
AB_COMMAND = 0x05040001
AB_MEMORY = 0x05040005
AB_ACCESS = 0x06010000
AB_WRITEONLY = 0x06010001
AB_READONLY = 0x06010002
AB_CA_VARIABLE = 0x06010004
AB_MBX_SIZE = 0x06010005
AB_NO_OBJECT = 0x06020000
AB_LENGTH = 0x06070010
AB_TOO_LONG = 0x06070012
AB_TOO_SHORT = 0x06070013
AB_NO_SUBINDEX = 0x06090011
AB_GENERAL = 0x08000000
AB_STATE = 0x08000022

# mailbox error reply details (ETG.1000.4)
MBXERR_SYNTAX, MBXERR_UNSUPPORTED, MBXERR_CHANNEL, MBXERR_SERVICE, \
    MBXERR_HEADER, MBXERR_TOOSHORT, MBXERR_NOMEM, MBXERR_SIZE = range(1, 9)


def coe_header(service, number=0):
    return struct.pack("<H", (number & 0x1ff) | service << 12)


def emergency_mail(code=0x8100, register=0x10, data=b"\1\2\3\4\5",
                   counter=0):
    """a CoE emergency message as a terminal may send it at any time"""
    return mbx_pack(COE, coe_header(EMERGENCY)
                    + struct.pack("<HB5s", code, register, data),
                    counter=counter)


def eoe_mail(data=b"\xaa" * 8, counter=0):
    """an EoE fragment (frame type 0, last fragment) - unrelated to CoE"""
    return mbx_pack(EOE, struct.pack("<HH", 0x0100, 0) + data,
                    counter=counter)


# =====================================================================
# 2. SDO server
# =====================================================================
class SdoServer:
    """ETG.1000.6 CoE server over an object dictionary {(index, sub): bytes}.

    Entries have a fixed length (a download of a different length is aborted
    with 0x06070010) unless listed in `variable`.
    Access rights: entries are read-write unless listed in `readonly`
    (download aborted with 0x06010002), `writeonly` (upload aborted with
    0x06010001) or `upload_refused` ({(index, sub): abort code}, e.g.
    0x08000022 'not in the present device state').  A complete access is
    refused as soon as one of the entries it covers refuses the direction.
    Everything the master does against the protocol lands in
    `protocol_errors` as (code, detail...) tuples; aborts sent are in
    `aborts` as (index, subindex, abort code).
    """

    def __init__(self, objects=None):
        self.objects = dict(objects or {})
        self.variable = set()        # (index, sub) of variable length
        self.readonly = set()
        self.writeonly = set()
        self.upload_refused = {}     # (index, sub) -> abort code
        self.entry_meta = {}         # (index, sub) -> (datatype, bitlen,
        #                                              access, name)
        self.object_meta = {}        # index -> (datatype, objcode, name)
        self.protocol_errors = []
        self.aborts = []
        self.events = []             # what happened, in order
        self.toggles = []            # toggle bits of the segment requests
        self.xfer = None
        self.last_counter = None
        self.tx_counter = 0
        self.requests = 0            # mailbox messages received
        self.inject = {}             # request ordinal -> [mails sent first]
        # server freedoms allowed by the standard
        self.expedited_upload = True   # use expedited responses for <= 4
        self.upload_chunk = None       # None: fill the mailbox; else bytes
        self.check_counter = True

    # ---------------------------------------------------------- helpers
    def _err(self, *what):
        self.protocol_errors.append(tuple(what))

    def _mail(self, type, payload):
        self.tx_counter = next_counter(self.tx_counter)
        msg = mbx_pack(type, payload, counter=self.tx_counter)
        if len(msg) > self.in_sz:
            raise AssertionError("server model: response exceeds mailbox")
        return msg

    def _abort(self, index, sub, code):
        self.aborts.append((index, sub, code))
        self.events.append(("abort", index, sub, code))
        self.xfer = None
        return [self._mail(COE, coe_header(SDOREQ) + struct.pack(
            "<BHBI", 0x80, index, sub, code))]

    def _mbxerr(self, detail):
        return [self._mail(ERR, struct.pack("<HH", 1, detail))]

    def subindices(self, index):
        return sorted(s for (i, s) in self.objects if i == index)

    def _ca_entries(self, index):
        subs = [s for s in self.subindices(index) if s > 0]
        if (index, 0) in self.objects and len(self.objects[index, 0]) == 1:
            n = self.objects[index, 0][0]
            subs = [s for s in subs if s <= n]
        return subs

    def _ca_covered(self, index, first):
        """subindices a complete access starting at `first` touches"""
        return ([0] if first == 0 and (index, 0) in self.objects else []) \
            + self._ca_entries(index)

    def upload_refusal(self, index, sub, ca):
        """abort code if the entry / the object refuses to be uploaded"""
        for s in (self._ca_covered(index, sub) if ca else [sub]):
            if (index, s) in self.writeonly:
                return AB_WRITEONLY
            if (index, s) in self.upload_refused:
                return self.upload_refused[index, s]
        return None

    def ca_value(self, index, first):
        """value of a complete access starting at subindex `first`"""
        out = b""
        if first == 0:
            out = self.objects.get((index, 0), b"\0")[:1].ljust(2, b"\0")
        for s in self._ca_entries(index):
            out += self.objects[index, s]
        return out

    # ---------------------------------------------------------- entry
    def __call__(self, term, message):
        """mailbox handler: message = content of the write mailbox"""
        self.out_sz = term.sm(0)[1]
        self.in_sz = term.sm(1)[1]
        n = self.requests
        self.requests += 1
        out = [bytes(m) for m in self.inject.get(n, ())]
        out += self.handle(bytes(message))
        return out

    def handle(self, message):
        try:
            m = mbx_parse(message)
        except ValueError:
            self._err("no-header", len(message))
            return []
        if m.length > len(message) - 6:
            self._err("length-exceeds-mailbox", m.length, len(message) - 6)
            return self._mbxerr(MBXERR_SIZE)
        if self.check_counter and m.counter != 0 \
                and m.counter == self.last_counter:
            # a repeated write service is ignored (ETG.1000.4)
            self._err("counter-repeat", m.counter)
            self.events.append(("repeat", m.counter))
            return []
        self.last_counter = m.counter
        if m.type != COE:
            self._err("not-coe", m.type)
            return self._mbxerr(MBXERR_UNSUPPORTED)
        if m.length < 2:
            self._err("bad-length", "coe", m.length)
            return self._mbxerr(MBXERR_TOOSHORT)
        service = struct.unpack_from("<H", m.payload)[0] >> 12
        body = m.payload[2:]
        if service == SDOREQ:
            return self.sdo(body)
        if service == SDOINFO:
            return self.sdoinfo(body)
        self._err("unsupported-service", service)
        return self._mbxerr(MBXERR_SERVICE)

    # ---------------------------------------------------------- SDO
    def sdo(self, b):
        if len(b) < 1:
            self._err("bad-length", "sdo", len(b))
            return self._mbxerr(MBXERR_TOOSHORT)
        cmd = b[0]
        ccs = cmd >> 5
        if ccs in (0, 3):           # segment requests carry no address
            return self.download_segment(cmd, b) if ccs == 0 \
                else self.upload_segment(cmd, b)
        if len(b) < 8:
            self._err("bad-length", "sdo", len(b))
            return self._abort(0, 0, AB_COMMAND)
        index, sub = struct.unpack_from("<HB", b, 1)
        if ccs == 4:
            self.events.append(("master-abort", index, sub,
                                struct.unpack_from("<I", b, 4)[0]))
            self.xfer = None
            return []
        if self.xfer is not None:
            self._err("init-during-transfer", self.xfer["kind"], cmd)
            self.xfer = None
        if ccs == 1:
            return self.download_init(cmd, index, sub, b)
        if ccs == 2:
            return self.upload_init(cmd, index, sub, b)
        self._err("unknown-command", cmd)
        return self._abort(index, sub, AB_COMMAND)

    # .......................................................... download
    def download_init(self, cmd, index, sub, b):
        ca = bool(cmd & 0x10)
        if cmd & 2:                                   # expedited
            if not cmd & 1:
                self._err("expedited-without-size", cmd)
                return self._abort(index, sub, AB_COMMAND)
            if len(b) != 8:
                self._err("bad-length", "download-expedited", len(b))
                return self._abort(index, sub, AB_LENGTH)
            n = 4 - ((cmd >> 2) & 3)
            self.events.append(("download-expedited", index, sub, ca, n))
            return self.commit(index, sub, ca, bytes(b[4:4 + n]))
        if cmd & 0x0c:
            self._err("size-field-in-normal-download", cmd)
            return self._abort(index, sub, AB_COMMAND)
        if not cmd & 1:
            self._err("normal-download-without-size", cmd)
            return self._abort(index, sub, AB_COMMAND)
        total, = struct.unpack_from("<I", b, 4)
        data = bytes(b[8:])
        self.events.append(("download-init", index, sub, ca, total,
                            len(data)))
        if len(data) > total:
            self._err("complete-size", total, len(data))
            return self._abort(index, sub, AB_LENGTH)
        if len(data) == total:
            return self.commit(index, sub, ca, data)
        why = self.check_target(index, sub, ca, total)
        if why:
            return self._abort(index, sub, why)
        self.xfer = dict(kind="down", index=index, sub=sub, ca=ca, buf=data,
                         total=total, toggle=0)
        return [self._mail(COE, coe_header(SDORES) + struct.pack(
            "<BHB4x", 0x60 | (0x10 if ca else 0), index, sub))]

    def download_segment(self, cmd, b):
        x = self.xfer
        if x is None or x["kind"] != "down":
            self._err("segment-without-transfer", "download", cmd)
            return self._abort(0, 0, AB_COMMAND)
        index, sub = x["index"], x["sub"]
        toggle = (cmd >> 4) & 1
        self.toggles.append(toggle)
        if len(b) < 8:
            self._err("bad-length", "download-segment", len(b))
            return self._abort(index, sub, AB_LENGTH)
        if toggle != x["toggle"]:
            self._err("toggle", x["toggle"], toggle)
            return self._abort(index, sub, AB_TOGGLE)
        if len(b) == 8:
            n = 7 - ((cmd >> 1) & 7)
        else:
            if cmd & 0x0e:
                self._err("segment-size-field", cmd, len(b))
                return self._abort(index, sub, AB_COMMAND)
            n = len(b) - 1
        last = bool(cmd & 1)
        self.events.append(("download-segment", toggle, n, last))
        x["buf"] += bytes(b[1:1 + n])
        x["toggle"] ^= 1
        if len(x["buf"]) > x["total"] or (last and
                                          len(x["buf"]) != x["total"]):
            self._err("size-mismatch", x["total"], len(x["buf"]))
            return self._abort(index, sub, AB_LENGTH)
        resp = [self._mail(COE, coe_header(SDORES) + struct.pack(
            "<B7x", 0x20 | toggle << 4))]
        if last:
            self.xfer = None
            r = self.commit(index, sub, x["ca"], x["buf"], respond=False)
            if r is not None:
                return r
        return resp

    def check_target(self, index, sub, ca, size):
        if ca:
            if sub > 1:
                return AB_ACCESS
            if not self.subindices(index):
                return AB_NO_OBJECT
            if any((index, s) in self.variable
                   for s in self.subindices(index)):
                return AB_CA_VARIABLE
            if any((index, s) in self.readonly
                   for s in self._ca_covered(index, sub)):
                return AB_READONLY
            if size != len(self.ca_value(index, sub)):
                return AB_LENGTH
            return None
        if not self.subindices(index):
            return AB_NO_OBJECT
        if (index, sub) not in self.objects:
            return AB_NO_SUBINDEX
        if (index, sub) in self.readonly:
            return AB_READONLY
        if (index, sub) not in self.variable \
                and size != len(self.objects[index, sub]):
            return AB_LENGTH
        return None

    def commit(self, index, sub, ca, data, respond=True):
        why = self.check_target(index, sub, ca, len(data))
        if why:
            return self._abort(index, sub, why)
        if ca:
            pos = 0
            if sub == 0:
                self.objects[index, 0] = data[:1]
                pos = 2
            for s in self._ca_entries(index):
                n = len(self.objects[index, s])
                self.objects[index, s] = data[pos:pos + n]
                pos += n
        else:
            self.objects[index, sub] = bytes(data)
        self.events.append(("stored", index, sub, ca, len(data)))
        if not respond:
            return None
        return [self._mail(COE, coe_header(SDORES) + struct.pack(
            "<BHB4x", 0x60 | (0x10 if ca else 0), index, sub))]

    # .......................................................... upload
    def upload_init(self, cmd, index, sub, b):
        ca = bool(cmd & 0x10)
        if cmd & 0x0f:
            self._err("reserved-bits-in-upload-request", cmd)
            return self._abort(index, sub, AB_COMMAND)
        if len(b) != 8:
            self._err("bad-length", "upload-request", len(b))
            return self._abort(index, sub, AB_LENGTH)
        if not self.subindices(index):
            return self._abort(index, sub, AB_NO_OBJECT)
        if ca:
            if sub > 1:
                return self._abort(index, sub, AB_ACCESS)
            value = self.ca_value(index, sub)
        else:
            if (index, sub) not in self.objects:
                return self._abort(index, sub, AB_NO_SUBINDEX)
            value = self.objects[index, sub]
        why = self.upload_refusal(index, sub, ca)
        if why:
            return self._abort(index, sub, why)
        cabit = 0x10 if ca else 0
        self.events.append(("upload-init", index, sub, ca, len(value)))
        if 1 <= len(value) <= 4 and self.expedited_upload:
            return [self._mail(COE, coe_header(SDORES) + struct.pack(
                "<BHB4s", 0x43 | (4 - len(value)) << 2 | cabit, index, sub,
                value))]
        room = self.in_sz - 16
        if self.upload_chunk is not None:
            room = min(room, self.upload_chunk)
        first, rest = value[:room], value[room:]
        if rest:
            self.xfer = dict(kind="up", index=index, sub=sub, rest=rest,
                             toggle=0)
        return [self._mail(COE, coe_header(SDORES) + struct.pack(
            "<BHBI", 0x41 | cabit, index, sub, len(value)) + first)]

    def upload_segment(self, cmd, b):
        x = self.xfer
        if x is None or x["kind"] != "up":
            self._err("segment-without-transfer", "upload", cmd)
            return self._abort(0, 0, AB_COMMAND)
        index, sub = x["index"], x["sub"]
        toggle = (cmd >> 4) & 1
        self.toggles.append(toggle)
        if len(b) != 8:
            self._err("bad-length", "upload-segment-request", len(b))
            return self._abort(index, sub, AB_LENGTH)
        if cmd & 0x0f:
            self._err("reserved-bits-in-segment-request", cmd)
            return self._abort(index, sub, AB_COMMAND)
        if toggle != x["toggle"]:
            self._err("toggle", x["toggle"], toggle)
            return self._abort(index, sub, AB_TOGGLE)
        room = self.in_sz - 9
        if self.upload_chunk is not None:
            room = min(room, self.upload_chunk)
        seg, x["rest"] = x["rest"][:room], x["rest"][room:]
        last = not x["rest"]
        self.events.append(("upload-segment", toggle, len(seg), last))
        x["toggle"] ^= 1
        if last:
            self.xfer = None
        c = toggle << 4 | (1 if last else 0)
        if len(seg) < 7:
            c |= (7 - len(seg)) << 1
            seg = seg.ljust(7, b"\0")
        return [self._mail(COE, coe_header(SDORES) + bytes([c]) + seg)]

    # ---------------------------------------------------------- SDO info
    def sdoinfo(self, b):
        if len(b) < 4:
            self._err("bad-length", "sdoinfo", len(b))
            return self._mbxerr(MBXERR_TOOSHORT)
        opcode = b[0] & 0x7f
        body = b[4:]
        if b[0] & 0x80 or struct.unpack_from("<H", b, 2)[0]:
            self._err("fragmented-sdoinfo-request", b[0])
        if opcode == 1:                 # OD list request
            if len(body) != 2:
                self._err("bad-length", "od-list", len(body))
                return self._infoerr(AB_LENGTH)
            lt, = struct.unpack("<H", body)
            idx = sorted({i for i, _ in self.objects})
            if lt == 0:
                data = struct.pack("<5H", len(idx), 0, 0, 0, 0)
            elif lt == 1:
                data = b"".join(struct.pack("<H", i) for i in idx)
            else:
                data = b""
            self.events.append(("od-list", lt))
            return self._inforesp(2, struct.pack("<H", lt) + data)
        if opcode == 3:                 # object description
            if len(body) != 2:
                self._err("bad-length", "od", len(body))
                return self._infoerr(AB_LENGTH)
            index, = struct.unpack("<H", body)
            subs = self.subindices(index)
            if not subs:
                return self._infoerr(AB_NO_OBJECT)
            dt, code, name = self.object_meta.get(
                index, (0, 7 if max(subs) == 0 else 9, f"obj{index:04x}"))
            self.events.append(("od", index))
            return self._inforesp(4, struct.pack(
                "<HHBB", index, dt, max(subs), code) + name.encode())
        if opcode == 5:                 # entry description
            if len(body) != 4:
                self._err("bad-length", "oe", len(body))
                return self._infoerr(AB_LENGTH)
            index, sub, vi = struct.unpack("<HBB", body)
            if not self.subindices(index):
                return self._infoerr(AB_NO_OBJECT)
            if (index, sub) not in self.objects:
                return self._infoerr(AB_NO_SUBINDEX)
            dt, bits, access, name = self.entry_meta.get(
                (index, sub), (0x0a, 8 * len(self.objects[index, sub]),
                               0x003f, f"e{index:04x}:{sub:02x}"))
            self.events.append(("oe", index, sub))
            # bits 3..6 of valueinfo would request unit/default/min/max;
            # this server has none of them and says so in the response
            return self._inforesp(6, struct.pack(
                "<HBBHHH", index, sub, vi & 0x07, dt, bits, access)
                + name.encode())
        self._err("unknown-sdoinfo-opcode", opcode)
        return self._infoerr(AB_COMMAND)

    def _infoerr(self, code):
        self.events.append(("sdoinfo-error", code))
        return [self._mail(COE, coe_header(SDOINFO) + struct.pack(
            "<BxHI", 7, 0, code))]

    def _inforesp(self, opcode, data):
        room = self.in_sz - 12
        chunks = [data[i:i + room] for i in range(0, len(data), room)] \
            or [b""]
        out = []
        for i, c in enumerate(chunks):
            left = len(chunks) - 1 - i
            out.append(self._mail(COE, coe_header(SDOINFO) + struct.pack(
                "<BxH", opcode | (0x80 if left else 0), left) + c))
        return out


# =====================================================================
# 3. ESC sync-manager rule for the write mailbox
# =====================================================================
def configure_mailbox(term, out_off, out_sz, in_off, in_sz):
    """program SM0 (write mailbox, master -> terminal) and SM1 (read
    mailbox) of a bussim terminal the way a master would"""
    term.mem[0x800:0x808] = struct.pack("<HHBBBB", out_off, out_sz, 0x26,
                                        0, 1, 0)
    term.mem[0x808:0x810] = struct.pack("<HHBBBB", in_off, in_sz, 0x22,
                                        0, 1, 0)


def esc_mailbox_rules(term):
    """A sync-manager buffer has to be entered through its start address,
    otherwise the access is denied (working counter not incremented); the
    access finishes with the end address.  Wraps `term.write`; denied
    accesses are listed in `term.sm_denied`."""
    term.sm_denied = []
    state = dict(opened=False)
    orig = term.write

    def write(ado, data):
        start, length, ctl, status, act = term.sm(0)
        n = len(data)
        if length and ado < start + length and ado + n > start:
            if ado <= start:
                state["opened"] = True
            elif not state["opened"]:
                term.sm_denied.append((ado, bytes(data)))
                return False
            ok = orig(ado, data)
            if ado + n >= start + length:
                state["opened"] = False
            return ok
        return orig(ado, data)
    term.write = write
    return term


# =====================================================================
# 4. reference client (self-test of the server; conformant by construction)
# =====================================================================
class FakeTerm:
    def __init__(self, out_sz, in_sz):
        self.sizes = (out_sz, in_sz)

    def sm(self, i):
        return (0x1000 + 0x100 * i, self.sizes[i], 0, 0, 1)


class SdoAbort(Exception):
    pass


class RefClient:
    def __init__(self, server, out_sz, in_sz):
        self.server, self.term = server, FakeTerm(out_sz, in_sz)
        self.out_sz, self.in_sz = out_sz, in_sz
        self.counter = 0
        self.sent = []

    def exchange(self, payload):
        self.counter = next_counter(self.counter)
        msg = mbx_pack(COE, payload, counter=self.counter)
        assert len(msg) <= self.out_sz, "reference client: oversize"
        self.sent.append(msg)
        rs = self.server(self.term, msg.ljust(self.out_sz, b"\0"))
        out = []
        for r in rs:
            assert len(r) <= self.in_sz
            m = mbx_parse(r)
            if m.type == COE and struct.unpack_from(
                    "<H", m.payload)[0] >> 12 != EMERGENCY:
                out.append(m.payload)
        return out

    def one(self, payload):
        rs = self.exchange(payload)
        assert len(rs) == 1, rs
        r = rs[0]
        if struct.unpack_from("<H", r)[0] >> 12 == SDOREQ and r[2] == 0x80:
            raise SdoAbort(struct.unpack_from("<I", r, 6)[0])
        assert struct.unpack_from("<H", r)[0] >> 12 == SDORES, r
        return r

    def download(self, index, sub, data, ca=False, expedited=True):
        cab = 0x10 if ca else 0
        hdr = coe_header(SDOREQ)
        if 1 <= len(data) <= 4 and expedited:
            self.one(hdr + struct.pack("<BHB4s", 0x23 | (4 - len(data)) << 2
                                       | cab, index, sub, data))
            return
        room = self.out_sz - 16
        self.one(hdr + struct.pack("<BHBI", 0x21 | cab, index, sub,
                                   len(data)) + data[:room])
        pos, toggle = room, 0
        while pos < len(data):
            seg = data[pos:pos + self.out_sz - 9]
            pos += len(seg)
            c = toggle << 4 | (1 if pos >= len(data) else 0)
            if len(seg) < 7:
                c |= (7 - len(seg)) << 1
                seg = seg.ljust(7, b"\0")
            r = self.one(hdr + bytes([c]) + seg)
            assert r[2] == 0x20 | toggle << 4, r
            toggle ^= 1

    def upload(self, index, sub, ca=False):
        hdr = coe_header(SDOREQ)
        r = self.one(hdr + struct.pack("<BHB4x", 0x40 | (0x10 if ca else 0),
                                       index, sub))
        cmd, idx, s = struct.unpack_from("<BHB", r, 2)
        assert (idx, s) == (index, sub) and cmd >> 5 == 2
        if cmd & 2:
            assert cmd & 1
            return r[6:10 - ((cmd >> 2) & 3)]
        total, = struct.unpack_from("<I", r, 6)
        out = r[10:]
        toggle = 0
        while len(out) < total:
            r = self.one(hdr + struct.pack("<B7x", 0x60 | toggle << 4))
            c = r[2]
            assert c >> 5 == 0 and (c >> 4) & 1 == toggle, r
            seg = r[3:]
            if len(seg) == 7:
                seg = seg[:7 - ((c >> 1) & 7)]
            out += seg
            toggle ^= 1
            if c & 1:
                break
        assert len(out) == total, (len(out), total)
        return out


# =====================================================================
# 5. SII image builder / parser
# =====================================================================
CAT_STRINGS, CAT_DATATYPES, CAT_GENERAL, CAT_FMMU, CAT_SYNCM, CAT_TXPDO, \
    CAT_RXPDO, CAT_DC = 10, 20, 30, 40, 41, 50, 51, 60
CAT_END = 0xffff
SII_CATEGORIES = 0x40     # first category, word address

SmEntry = namedtuple("SmEntry", "start length control status enable type")
SmEntry.__new__.__defaults__ = (0, 1, 0)
PdoEntry = namedtuple("PdoEntry", "index subindex bits name datatype flags")
PdoEntry.__new__.__defaults__ = (0, 0, 0)
Pdo = namedtuple("Pdo", "index sm entries sync name flags")
Pdo.__new__.__defaults__ = (0, 0, 0)

# sync manager types (ETG.2010, SyncM category, last byte)
SM_UNUSED, SM_MBX_OUT, SM_MBX_IN, SM_PD_OUT, SM_PD_IN = range(5)
# control register bytes as real terminals carry them
SM_CONTROL = {SM_MBX_OUT: 0x26, SM_MBX_IN: 0x22, SM_PD_OUT: 0x24,
              SM_PD_IN: 0x20}


def crc8(data):
    """SII checksum: x^8 + x^2 + x + 1, start value 0xff"""
    c = 0xff
    for b in data:
        c ^= b
        for _ in range(8):
            c = ((c << 1) ^ 0x07) & 0xff if c & 0x80 else (c << 1) & 0xff
    return c


def sm_category(entries):
    return b"".join(struct.pack("<HHBBBB", *e) for e in entries)


def parse_sm_category(data):
    if len(data) % 8:
        raise ValueError("SyncM category is not a multiple of 8 bytes")
    return [SmEntry(*struct.unpack_from("<HHBBBB", data, i))
            for i in range(0, len(data), 8)]


def pdo_category(pdos):
    out = b""
    for p in pdos:
        out += struct.pack("<HBBBBH", p.index, len(p.entries), p.sm & 0xff,
                           p.sync, p.name, p.flags)
        for e in p.entries:
            out += struct.pack("<HBBBBH", e.index, e.subindex, e.name,
                               e.datatype, e.bits, e.flags)
    return out


def parse_pdo_category(data):
    out, i = [], 0
    while i < len(data):
        if i + 8 > len(data):
            raise ValueError("truncated PDO header")
        index, n, sm, sync, name, flags = struct.unpack_from("<HBBBBH",
                                                             data, i)
        i += 8
        entries = []
        for _ in range(n):
            if i + 8 > len(data):
                raise ValueError("truncated PDO entry")
            ei, es, en, edt, bits, ef = struct.unpack_from("<HBBBBH",
                                                           data, i)
            entries.append(PdoEntry(ei, es, bits, en, edt, ef))
            i += 8
        out.append(Pdo(index, sm, tuple(entries), sync, name, flags))
    return out


def pdo_layout(pdos, all_pdos=False):
    """reference layout of one direction: {(index, sub): (byte, bit, bits)}
    and the total number of bits.  PDOs are laid out in the order listed;
    a PDO whose sync manager is 0xff is not assigned (ETG.2010) and is not
    part of the process data unless `all_pdos`."""
    pos, out = 0, {}
    for p in pdos:
        if p.sm == 0xff and not all_pdos:
            continue
        for e in p.entries:
            if e.index != 0:
                out[e.index, e.subindex] = (pos // 8, pos % 8, e.bits)
            pos += e.bits
    return out, pos


def sii_image(vendor=0, product=0, revision=0, serial=0, categories=(),
              end_marker=True, mailbox=None, header=None, pad=8):
    """build an SII image.  categories = [(type, data bytes)]; data must
    have even length.  mailbox = (out_off, out_sz, in_off, in_sz) fills the
    standard mailbox words 0x18..0x1b (+ protocol word 0x1c = CoE)."""
    img = bytearray(header if header is not None else bytes(0x80))
    if len(img) != 0x80:
        raise ValueError("SII header area is 64 words")
    if header is None:
        struct.pack_into("<H", img, 0x7c, 0)      # size word, filled below
        struct.pack_into("<H", img, 0x7e, 1)      # version
        if mailbox is not None:
            struct.pack_into("<HHHHH", img, 0x30, mailbox[0], mailbox[1],
                             mailbox[2], mailbox[3], 0x0004)
    struct.pack_into("<IIII", img, 16, vendor & 0xffffffff,
                     product & 0xffffffff, revision & 0xffffffff,
                     serial & 0xffffffff)
    if header is None:
        struct.pack_into("<H", img, 14, crc8(img[:14]))
    for typ, data in categories:
        if len(data) % 2:
            raise ValueError("category data must be whole words")
        img += struct.pack("<HH", typ, len(data) // 2) + bytes(data)
    if end_marker:
        img += b"\xff\xff"
        img += b"\xff" * pad
    return bytes(img)


def parse_sii(img, strict_end=False):
    """-> dict(vendor, product, revision, serial, categories=[(type, data)],
    ended=bool)"""
    vendor, product, revision, serial = struct.unpack_from("<IIII", img, 16)
    cats, pos, ended = [], 2 * SII_CATEGORIES, False
    while True:
        if pos + 2 > len(img):
            break
        typ, = struct.unpack_from("<H", img, pos)
        if typ == CAT_END:
            ended = True
            break
        if pos + 4 > len(img):
            raise ValueError("truncated category header")
        ws, = struct.unpack_from("<H", img, pos + 2)
        data = bytes(img[pos + 4:pos + 4 + 2 * ws])
        if len(data) != 2 * ws:
            raise ValueError("truncated category")
        cats.append((typ, data))
        pos += 4 + 2 * ws
    if strict_end and not ended:
        raise ValueError("no end marker")
    return dict(vendor=vendor, product=product, revision=revision,
                serial=serial, categories=cats, ended=ended)


def pdo_objects(rx_pdos, tx_pdos):
    """the CoE objects describing an assignment: 0x1C12/0x1C13 and one
    mapping object per assigned PDO -> {(index, sub): bytes}"""
    obj = {}
    for assign, pdos in ((0x1c12, rx_pdos), (0x1c13, tx_pdos)):
        assigned = [p for p in pdos if p.sm != 0xff]
        obj[assign, 0] = bytes([len(assigned)])
        for i, p in enumerate(assigned, 1):
            obj[assign, i] = struct.pack("<H", p.index)
        for p in pdos:
            obj[p.index, 0] = bytes([len(p.entries)])
            for j, e in enumerate(p.entries, 1):
                obj[p.index, j] = struct.pack("<BBH", e.bits, e.subindex,
                                              e.index)
    return obj


# =====================================================================
# 6. self-test
# =====================================================================
_SELFTEST_DONE = {}


def _testdata(src):
    with open(os.path.join(src, "ebpfcat", "testdata.py")) as f:
        return ast.literal_eval(f.read())


def selftest(src=None):
    """raises AssertionError on any disagreement.  `src` = ebpfcat tree."""
    src = src or os.environ.get("EBPFCAT_SRC", "/repo")
    if src in _SELFTEST_DONE:
        return _SELFTEST_DONE[src]
    stats = dict(images=0, categories=0, sdo_entries=0, transfers=0,
                 negative=0)

    # ---- mailbox header
    m = mbx_pack(COE, b"abc", counter=5, address=0x1234, channel=3,
                 priority=2)
    assert m == bytes.fromhex("0300" "3412" "83" "53") + b"abc"
    p = mbx_parse(m + b"junk")
    assert p == Mbx(3, 0x1234, 3, 2, COE, 5, b"abc")
    c, seen = 0, []
    for _ in range(15):
        c = next_counter(c)
        seen.append(c)
    assert seen == [1, 2, 3, 4, 5, 6, 7] * 2 + [1]

    # ---- SII against real dumps
    for t in _testdata(src):
        img = t["eeprom"]
        info = parse_sii(img)
        stats["images"] += 1
        stats["categories"] += len(info["categories"])
        assert crc8(img[:14]) == img[14], "SII checksum of a real image"
        again = sii_image(info["vendor"], info["product"], info["revision"],
                          info["serial"], info["categories"],
                          end_marker=False, header=img[:0x80])
        assert again == img, "rebuilt image differs from the real one"
        cats = dict(info["categories"])
        assert info["vendor"] == 2          # Beckhoff
        sms = parse_sm_category(cats[CAT_SYNCM])
        assert sm_category(sms) == cats[CAT_SYNCM]
        for e in sms:
            # the control byte of real terminals agrees with the type byte
            assert e.type in SM_CONTROL and \
                e.control & 0x0f == SM_CONTROL[e.type] & 0x0f, e
        mb = [e for e in sms if e.type in (SM_MBX_OUT, SM_MBX_IN)]
        if mb:
            # standard mailbox words of the header area = SyncM category
            assert struct.unpack_from("<HHHH", img, 0x30) == (
                mb[0].start, mb[0].length, mb[1].start, mb[1].length)
        for typ in (CAT_TXPDO, CAT_RXPDO):
            if typ not in cats:
                continue
            pdos = parse_pdo_category(cats[typ])
            assert pdo_category(pdos) == cats[typ]
            for p in pdos:
                # mapping objects read over CoE from the same terminal
                if (p.index, 1) not in t["sdo"]:
                    continue
                for j, e in enumerate(p.entries, 1):
                    bits, sub, idx = struct.unpack("<BBH",
                                                   t["sdo"][p.index, j])
                    assert (bits, idx) == (e.bits, e.index), (p.index, j)
                    # the EL4104 dump stems from a revision whose EEPROM
                    # says 7000:11 where its dictionary says 7000:01
                    assert sub == e.subindex or \
                        info["product"] == 0x10083052, (p.index, j)
                    stats["sdo_entries"] += sub == e.subindex
                assert (p.index, len(p.entries) + 1) not in t["sdo"]
            if t["sdo"]:
                # assigned PDOs of the EEPROM = default assignment object
                assign = 0x1c13 if typ == CAT_TXPDO else 0x1c12
                got = []
                i = 1
                while (assign, i) in t["sdo"]:
                    got.append(struct.unpack("<H", t["sdo"][assign, i])[0])
                    i += 1
                assert got == [p.index for p in pdos if p.sm != 0xff], \
                    (assign, got)
    # the sync-manager bytes the real suite expects to be written to 0x800
    hexdump = bytes.fromhex("00108000260001018010800022000102"
                            "00110000040000038011100020000104")
    assert parse_sm_category(hexdump) == [
        SmEntry(0x1000, 0x80, 0x26, 0, 1, SM_MBX_OUT),
        SmEntry(0x1080, 0x80, 0x22, 0, 1, SM_MBX_IN),
        SmEntry(0x1100, 0, 0x04, 0, 0, SM_PD_OUT),
        SmEntry(0x1180, 0x10, 0x20, 0, 1, SM_PD_IN)]

    # ---- builder round trip on a synthetic image
    pd = [Pdo(0x1a00, 3, (PdoEntry(0x6000, 1, 1), PdoEntry(0, 0, 7),
                          PdoEntry(0x6000, 2, 16))),
          Pdo(0x1a01, 0xff, (PdoEntry(0x6010, 1, 8),))]
    img = sii_image(1, 2, 3, 4, [(CAT_SYNCM, sm_category(
        [SmEntry(0x1000, 32, 0x26, type=SM_MBX_OUT)])),
        (CAT_TXPDO, pdo_category(pd))], mailbox=(0x1000, 32, 0x1080, 32))
    info = parse_sii(img, strict_end=True)
    assert (info["vendor"], info["product"], info["revision"],
            info["serial"]) == (1, 2, 3, 4)
    assert parse_pdo_category(dict(info["categories"])[CAT_TXPDO]) == pd
    assert pdo_layout(pd) == ({(0x6000, 1): (0, 0, 1),
                               (0x6000, 2): (1, 0, 16)}, 24)
    assert pdo_layout(pd, all_pdos=True)[1] == 32

    # ---- SDO server against the reference client
    for out_sz in (24, 32, 64, 128):
        for in_sz in (24, 32, 64, 128):
            top = max(out_sz, in_sz) - 16 + 2 * (max(out_sz, in_sz) - 9) + 9
            lengths = list(range(0, 40)) + \
                [n for n in range(40, top) if n % 7 in (0, 1)] + [top]
            for n in lengths:
                for chunk in (None, 7):
                    if chunk and n > 60:
                        continue
                    old = bytes((255 - i) & 0xff for i in range(n))
                    new = bytes((i * 7 + 1) & 0xff for i in range(n))
                    h1, h2 = (n + 1) // 2, n // 2
                    s = SdoServer({(0x2000, 3): old, (0x3000, 0): b"\2",
                                   (0x3000, 1): old[:h1],
                                   (0x3000, 2): old[h1:]})
                    s.upload_chunk = chunk
                    s.expedited_upload = chunk is None
                    c = RefClient(s, out_sz, in_sz)

                    def toggles_ok():
                        assert s.toggles == [i % 2 for i in
                                             range(len(s.toggles))]
                        k = len(s.toggles)
                        del s.toggles[:]
                        return k
                    assert c.upload(0x2000, 3) == old
                    k = toggles_ok()
                    room = in_sz - 16 if chunk is None else chunk
                    seg = in_sz - 9 if chunk is None else chunk
                    assert k == (0 if n <= max(room, 4 if chunk is None
                                               else 0)
                                 else -(-(n - room) // seg)), (n, k)
                    c.download(0x2000, 3, new, expedited=chunk is None)
                    k = toggles_ok()
                    assert k == (0 if n <= out_sz - 16 else
                                 -(-(n - out_sz + 16) // (out_sz - 9)))
                    assert s.objects[0x2000, 3] == new
                    assert c.upload(0x2000, 3) == new
                    toggles_ok()
                    c.download(0x3000, 1, new, ca=True)
                    toggles_ok()
                    assert s.objects[0x3000, 1] == new[:h1]
                    assert s.objects[0x3000, 2] == new[h1:]
                    assert len(s.objects[0x3000, 2]) == h2
                    assert c.upload(0x3000, 1, ca=True) == new
                    toggles_ok()
                    assert c.upload(0x3000, 0, ca=True) == b"\2\0" + new
                    toggles_ok()
                    assert not s.protocol_errors and not s.aborts, \
                        (out_sz, in_sz, n, s.protocol_errors, s.aborts)
                    assert all(len(m) <= out_sz for m in c.sent)
                    stats["transfers"] += 6

    # ---- the server notices what a master can do wrong
    def fresh(n=30):
        s = SdoServer({(0x2000, 1): bytes(n), (0x2000, 0): b"\1"})
        return s, RefClient(s, 32, 32)
    hdr = coe_header(SDOREQ)

    def aborted(c, payload, code):
        try:
            c.one(payload)
        except SdoAbort as e:
            assert e.args[0] == code, (hex(e.args[0]), hex(code))
            stats["negative"] += 1
            return
        raise AssertionError("no abort for %r" % payload)
    s, c = fresh()          # complete size smaller than the data sent
    aborted(c, hdr + struct.pack("<BHBI", 0x21, 0x2000, 1, 0) + bytes(10),
            AB_LENGTH)
    assert s.protocol_errors == [("complete-size", 0, 10)]
    s, c = fresh()          # wrong length for the object
    aborted(c, hdr + struct.pack("<BHBI", 0x21, 0x2000, 1, 5) + bytes(5),
            AB_LENGTH)
    assert not s.protocol_errors
    s, c = fresh()          # toggle not alternating
    c.one(hdr + struct.pack("<BHBI", 0x21, 0x2000, 1, 30) + bytes(16))
    aborted(c, hdr + bytes([0x10]) + bytes(7), AB_TOGGLE)
    assert s.protocol_errors == [("toggle", 0, 1)]
    s, c = fresh()          # more data than announced
    c.one(hdr + struct.pack("<BHBI", 0x21, 0x2000, 1, 30) + bytes(16))
    aborted(c, hdr + bytes([0x01]) + bytes(23), AB_LENGTH)
    assert s.protocol_errors == [("size-mismatch", 30, 39)]
    s, c = fresh()          # segment out of the blue
    aborted(c, hdr + bytes([0x01]) + bytes(7), AB_COMMAND)
    aborted(c, hdr + bytes([0x60]) + bytes(7), AB_COMMAND)
    assert [e[0] for e in s.protocol_errors] == \
        ["segment-without-transfer"] * 2
    s, c = fresh()          # segment shorter than the minimum
    c.one(hdr + struct.pack("<BHBI", 0x21, 0x2000, 1, 30) + bytes(16))
    aborted(c, hdr + bytes([0x0d]) + bytes(1), AB_LENGTH)
    s, c = fresh()          # unknown object / subindex, upload toggle
    aborted(c, hdr + struct.pack("<BHB4x", 0x40, 0x2001, 0), AB_NO_OBJECT)
    aborted(c, hdr + struct.pack("<BHB4x", 0x40, 0x2000, 9), AB_NO_SUBINDEX)
    c.one(hdr + struct.pack("<BHB4x", 0x40, 0x2000, 1))
    aborted(c, hdr + struct.pack("<B7x", 0x70), AB_TOGGLE)
    s, c = fresh()          # access rights: write-only, read-only, state
    s.writeonly.add((0x2000, 1))
    aborted(c, hdr + struct.pack("<BHB4x", 0x40, 0x2000, 1), AB_WRITEONLY)
    aborted(c, hdr + struct.pack("<BHB4x", 0x50, 0x2000, 1), AB_WRITEONLY)
    assert c.upload(0x2000, 0) == b"\1"
    c.download(0x2000, 1, bytes(range(30)))
    assert s.objects[0x2000, 1] == bytes(range(30))
    s, c = fresh()
    s.upload_refused[0x2000, 1] = AB_STATE
    aborted(c, hdr + struct.pack("<BHB4x", 0x40, 0x2000, 1), AB_STATE)
    s, c = fresh()
    s.readonly.add((0x2000, 1))
    aborted(c, hdr + struct.pack("<BHBI", 0x21, 0x2000, 1, 30) + bytes(16),
            AB_READONLY)
    aborted(c, hdr + struct.pack("<BHBI", 0x31, 0x2000, 1, 30) + bytes(16),
            AB_READONLY)
    assert s.xfer is None and s.objects[0x2000, 1] == bytes(30)
    assert c.upload(0x2000, 1) == bytes(30)
    assert not s.protocol_errors
    s, c = fresh()          # message longer than the mailbox, repeats
    r = s(c.term, mbx_pack(COE, bytes(40), counter=1)[:32])
    assert mbx_parse(r[0]).type == ERR and \
        s.protocol_errors == [("length-exceeds-mailbox", 40, 26)]
    s, c = fresh()
    msg = mbx_pack(COE, hdr + struct.pack("<BHB4x", 0x40, 0x2000, 0),
                   counter=3)
    assert len(s(c.term, msg)) == 1 and s(c.term, msg) == []
    assert s.protocol_errors == [("counter-repeat", 3)]
    stats["negative"] += 3

    # ---- SDO information + real object dictionaries through the server
    for t in _testdata(src):
        if not t["sdo"]:
            continue
        s = SdoServer(t["sdo"])
        c = RefClient(s, 128, 128)
        s2 = SdoServer(t["sdo"])
        small = RefClient(s2, 24, 24)
        by_index = {}
        for (i, sub), v in sorted(t["sdo"].items()):
            assert c.upload(i, sub) == v and small.upload(i, sub) == v
            by_index.setdefault(i, []).append((sub, v))
            stats["transfers"] += 2
        for i, subs in by_index.items():
            pos = [sub for sub, _ in subs if sub > 0]
            sub0 = t["sdo"].get((i, 0))
            if pos and pos == list(range(1, len(pos) + 1)) and (
                    sub0 is None or sub0 == bytes([len(pos)])):
                want = b"".join(v for sub, v in subs if sub > 0)
                assert small.upload(i, 1, ca=True) == want
                stats["transfers"] += 1
        assert not s.protocol_errors and not s2.protocol_errors
        i0, s0 = sorted(t["sdo"])[0]
        r = c.exchange(coe_header(SDOINFO) + struct.pack(
            "<BxHHBB", 5, 0, i0, s0, 7))
        assert len(r) == 1 and r[0][2] == 6
        assert struct.unpack_from("<HBB", r[0], 6) == (i0, s0, 7)
        r = small.exchange(coe_header(SDOINFO) + struct.pack(
            "<BxHH", 1, 0, 1))
        assert len(r) > 1 and r[0][2] == 0x82 and r[-1][2] == 2
        assert [struct.unpack_from("<H", x, 4)[0] for x in r] == \
            list(range(len(r) - 1, -1, -1))
        lst = b"".join([r[0][8:]] + [x[6:] for x in r[1:]])
        assert struct.unpack("<%dH" % (len(lst) // 2), lst) == \
            tuple(sorted(by_index))
    _SELFTEST_DONE[src] = stats
    return stats


if __name__ == "__main__":
    print(selftest())
