"""Deterministic device classes and the child-process side for check C29.

Everything here is created at import time and registered under stable
qualified names, so that a *spawned* interpreter that imports this module
rebuilds identical classes and can unpickle device instances made in the
parent (a class made with a bare ``type()`` call in the parent could not
cross a ``spawn``).
"""
import itertools
import os

from ebpfcat.ebpfcat import Device, DeviceVar

FORMATS = "BHIQbhiq?x"
SIZES = dict(B=1, H=2, I=4, Q=8, b=1, h=2, i=4, q=8, x=8)
SIZES["?"] = 1
SIZES.update({"3H": 6, "3B": 3, "2I": 8})     # multi-element formats
# formats whose native size differs from the standard one ('l', 'L') or that
# contain padding ('hI', 'BI'): layout and access must agree on native rules
SIZES.update({"l": 8, "L": 8, "hI": 8, "BI": 8})
SIZES.update({"4s": 4, "6s": 6})          # byte strings of a fixed length
_IDENT = {"?": "bool"}

# boundary values per format; 'x' (fixed point, 1e-5) values are dyadic so
# that scaling by 100000 is exact in binary floating point - rounding of
# fixed-point values is the business of C02/C08, not of this check
VALUES = {
    "B": [0, 1, 0x7f, 0x80, 0xff],
    "H": [0, 1, 0x7fff, 0x8000, 0xffff],
    "I": [0, 1, 0x7fffffff, 0x80000000, 0xffffffff],
    "Q": [0, 1, 0x7fffffffffffffff, 0x8000000000000000, 0xffffffffffffffff],
    "b": [0, 1, -1, 0x7f, -0x80],
    "h": [0, 1, -1, 0x7fff, -0x8000],
    "i": [0, 1, -1, 0x7fffffff, -0x80000000],
    "q": [0, 1, -1, 0x7fffffffffffffff, -0x8000000000000000],
    "?": [False, True, True, False, True],
    "x": [0.0, 0.5, -0.25, 1048576.125, -3.0],
}
VALUES["3H"] = [(0, 1, 2), (0xffff, 0, 0x8000), (1, 0xffff, 0x7fff),
                (0x1234, 0x5678, 0x9abc), (0xffff, 0xffff, 0xffff)]
VALUES["3B"] = [(0, 1, 2), (0xff, 0, 0x80), (1, 0xff, 0x7f),
                (0x12, 0x56, 0x9a), (0xff, 0xff, 0xff)]
VALUES["2I"] = [(0, 1), (0xffffffff, 0), (1, 0x80000000),
                (0x12345678, 0x9abcdef0), (0xffffffff, 0xffffffff)]
VALUES["l"] = [0, 1, -1, 0x7fffffffffffffff, -0x8000000000000000]
VALUES["L"] = [0, 1, 0x7fffffffffffffff, 0x8000000000000000,
               0xffffffffffffffff]
VALUES["hI"] = [(0, 1), (-1, 0), (1, 0xffffffff), (0x1234, 0x9abcdef0),
                (-0x8000, 0x80000000)]
VALUES["BI"] = [(0, 1), (0xff, 0), (1, 0xffffffff), (0x12, 0x9abcdef0),
                (0xff, 0xffffffff)]
# byte strings: trailing and leading zero bytes are data like any other
VALUES["4s"] = [b"\0\0\0\0", b"AB\0\0", b"\0\0\0\x01", b"ABCD",
                b"\xff\0\xff\0"]
VALUES["6s"] = [b"\0" * 6, b"abc\0\0\0", b"\0abcde", b"123456",
                b"\x80\0\0\0\0\0"]
NVALUES = 5
# a value whose encoding has no zero byte, to find the bytes a variable owns
PROBE = {"B": 0xff, "H": 0xffff, "I": 0xffffffff, "Q": 0xffffffffffffffff,
         "b": -1, "h": -1, "i": -1, "q": -1, "?": True, "x": -0.5,
         "3H": (0xffff,) * 3, "3B": (0xff,) * 3, "2I": (0xffffffff,) * 2,
         "4s": b"\xff" * 4, "6s": b"\xff" * 6,
         "l": -1, "L": 0xffffffffffffffff, "hI": (-1, 0xffffffff),
         "BI": (0xff, 0xffffffff)}


# values that a format must reject (out of range, wrong type, wrong number
# of members; the last entries of the multi-member formats are wrong in a
# LATER member only).  '?' takes any object, only the arity can be wrong; 'x'
# is scaled and rounded first, so there are more ways to fail.
def _bad_int(fmt):
    bits = 8 * SIZES[fmt]
    if fmt.islower():
        lo, hi = -(1 << (bits - 1)), (1 << (bits - 1)) - 1
    else:
        lo, hi = 0, (1 << bits) - 1
    return [hi + 1, lo - 1, 1.5, None, "1", (1, 2), 1 << 70]


BAD = {f: _bad_int(f) for f in "BHIQbhiqlL"}
BAD["?"] = [(True, False), ()]
BAD["x"] = [1e15, -1e15, float("nan"), float("inf"), None, (1.0, 2.0)]
BAD["3H"] = [(1, 2), (1, 2, 3, 4), 5, (0x10000, 2, 3), (1, -1, 3),
             (1, 2, 0x10000), (1, 2, 1.5)]
BAD["3B"] = [(1, 2), 5, (256, 2, 3), (1, 256, 3), (1, 2, -1), (1, 2, None)]
BAD["2I"] = [(1,), (1, 2, 3), (-1, 2), (1, 1 << 32), (1, 1.5)]
BAD["hI"] = [(7,), 5, (40000, 1), (7, -1), (7, 1 << 32), (7, None)]
BAD["BI"] = [(7,), (256, 1), (7, -1), (7, 1 << 32), (-1, -1)]
BAD["4s"] = [5, None, "abcd", (b"ab", b"cd"), 1.5]
BAD["6s"] = [5, None, "abcdef", (b"abc", b"def"), 1.5]
# the two values of the write histories (A-B-A across the processes): they
# differ for every format
HIST_A, HIST_B = 1, 3


def owned_pattern(fmt):
    """offsets (relative to the variable's start) of the bytes that become
    non-zero when PROBE[fmt] is written: all of them, except padding"""
    import struct
    if fmt == "x":
        return list(range(8))
    v = PROBE[fmt]
    raw = struct.pack(fmt, *(v if isinstance(v, tuple) else (v,)))
    return [i for i, b in enumerate(raw) if b]


def value_for(fmt, k, extra=0):
    """the value written in round k to a variable of format fmt"""
    if extra and len(fmt) == 1 and fmt not in "?x":
        # seeded extra value: stays inside the format's range
        bits = 8 * SIZES[fmt]
        v = (extra * 0x9E3779B97F4A7C15 + k * 0x632BE59BD9B4E019) \
            & ((1 << bits) - 1)
        if fmt.islower() and v >= 1 << (bits - 1):
            v -= 1 << bits
        if k % 2:
            return v
    return VALUES[fmt][k % NVALUES]


def class_name(fmts, written=None):
    """a 'w' after a format: that variable is declared with write=True"""
    written = written or (False,) * len(fmts)
    return "Dev_" + "_".join(_IDENT.get(f, f) + ("w" if w else "")
                             for f, w in zip(fmts, written))


def _make(fmts, written=None):
    written = written or (False,) * len(fmts)
    name = class_name(fmts, written)
    ns = {"v%d" % i: DeviceVar(f, write=True) if w else DeviceVar(f)
          for i, (f, w) in enumerate(zip(fmts, written))}
    ns["__module__"] = __name__
    ns["__qualname__"] = name
    ns["FMTS"] = tuple(fmts)
    ns["WRITTEN"] = tuple(written)
    return type(name, (Device,), ns)


CLASSES = {}
ORDER = []
for _n in (1, 2, 3):
    for _fmts in itertools.combinations_with_replacement(FORMATS, _n):
        _cls = _make(_fmts)
        CLASSES[_cls.__name__] = _cls
        ORDER.append(_cls.__name__)
        globals()[_cls.__name__] = _cls
NPLAIN = len(ORDER)
# the same with variables "written to by the user" (DeviceVar(fmt,
# write=True)): all declaration multisets up to size 2 with every non-empty
# pattern of written variables
WORDER = []
for _n in (1, 2):
    for _fmts in itertools.combinations_with_replacement(FORMATS, _n):
        for _wr in itertools.product((True, False), repeat=_n):
            if any(_wr):
                _cls = _make(_fmts, _wr)
                CLASSES[_cls.__name__] = _cls
                WORDER.append(_cls.__name__)
                globals()[_cls.__name__] = _cls


class Dev_base_H_q(Device):
    """a class and a subclass that adds variables (no overriding)"""
    FMTS = ("H", "q")
    v0 = DeviceVar("H")
    v1 = DeviceVar("q")


class Dev_sub_B_x(Dev_base_H_q):
    FMTS = ("H", "q", "B", "x")
    v2 = DeviceVar("B")
    v3 = DeviceVar("x")


class Dev_base_ovr(Device):
    """a class and a subclass that RE-DECLARES an inherited variable with a
    wider format (the subclass's declaration is the one that counts)"""
    FMTS = ("H", "B", "H")
    v0 = DeviceVar("H")
    v1 = DeviceVar("B")
    v2 = DeviceVar("H")


class Dev_sub_ovr(Dev_base_ovr):
    FMTS = ("q", "B", "H")
    v0 = DeviceVar("q")


class Dev_sub_multi(Device):
    """multi-element formats whose size is not a power of two"""
    FMTS = ("3H", "?", "3B")
    v0 = DeviceVar("3H")
    v1 = DeviceVar("?")
    v2 = DeviceVar("3B")


class Dev_sub_multi2(Device):
    FMTS = ("2I", "3B", "H")
    v0 = DeviceVar("2I")
    v1 = DeviceVar("3B")
    v2 = DeviceVar("H")


class Dev_sub_native(Device):
    """formats whose native size is not the standard one"""
    FMTS = ("l", "B", "L")
    v0 = DeviceVar("l")
    v1 = DeviceVar("B")
    v2 = DeviceVar("L")


class Dev_sub_padded(Device):
    """multi-member formats with padding inside"""
    FMTS = ("hI", "H", "BI")
    v0 = DeviceVar("hI")
    v1 = DeviceVar("H")
    v2 = DeviceVar("BI")


class Dev_sub_padded2(Device):
    FMTS = ("BI", "l")
    v0 = DeviceVar("BI")
    v1 = DeviceVar("l")


class Dev_sub_multi_w(Device):
    """multi-element and padded formats, written by the user"""
    FMTS = ("3H", "hI", "3B")
    v0 = DeviceVar("3H", write=True)
    v1 = DeviceVar("hI", write=True)
    v2 = DeviceVar("3B")


class Dev_base_wr(Device):
    FMTS = ("H", "I", "b")
    v0 = DeviceVar("H", write=True)
    v1 = DeviceVar("I")
    v2 = DeviceVar("b", write=True)


class Dev_sub_wr(Dev_base_wr):
    """re-declarations that change the kind of the variable"""
    FMTS = ("H", "I", "b", "?")
    v0 = DeviceVar("H")
    v1 = DeviceVar("I", write=True)
    v3 = DeviceVar("?", write=True)


class Dev_sub_bytes(Device):
    """byte-string variables next to numbers"""
    FMTS = ("4s", "H", "6s")
    v0 = DeviceVar("4s")
    v1 = DeviceVar("H")
    v2 = DeviceVar("6s")


class Dev_sub_bytes_w(Device):
    FMTS = ("6s", "4s")
    v0 = DeviceVar("6s", write=True)
    v1 = DeviceVar("4s")


for _cls in (Dev_sub_bytes, Dev_sub_bytes_w):
    CLASSES[_cls.__name__] = _cls
    ORDER.append(_cls.__name__)

for _cls in (Dev_base_H_q, Dev_sub_B_x, Dev_base_ovr, Dev_sub_ovr,
             Dev_sub_multi, Dev_sub_multi2, Dev_sub_native, Dev_sub_padded,
             Dev_sub_padded2):
    CLASSES[_cls.__name__] = _cls
    ORDER.append(_cls.__name__)
NSPECIAL = 9
for _cls in (Dev_sub_multi_w, Dev_base_wr, Dev_sub_wr):
    CLASSES[_cls.__name__] = _cls
    WORDER.append(_cls.__name__)
ORDER += WORDER


def variables(sg):
    """flat list of (owner, attribute name, format); the group's own
    variable comes last"""
    out = []
    for dev in sg.devices:
        for i, f in enumerate(dev.FMTS):
            out.append((dev, "v%d" % i, f))
    out.append((sg, "wkc_errors", "I"))
    return out


def read_all(sg):
    out = []
    for owner, name, fmt in variables(sg):
        try:
            out.append(getattr(owner, name))
        except Exception as e:
            out.append(("exc", type(e).__name__, repr(e)))
    return out


def write_all(sg, k, extra, parity=None, flat=False):
    """round k: variable n gets value_for(fmt, k + n); flat: every variable
    gets the k-th value of its format (k = "probe": the value without zero
    bytes)"""
    out = []
    for n, (owner, name, fmt) in enumerate(variables(sg)):
        if parity is not None and n % 2 != parity:
            out.append(None)
            continue
        try:
            setattr(owner, name, flat_value(fmt, k, extra) if flat
                    else value_for(fmt, k + n, extra))
            out.append(None)
        except Exception as e:
            out.append(("exc", type(e).__name__, repr(e)))
    return out


def flat_value(fmt, k, extra=0):
    return PROBE[fmt] if k == "probe" else value_for(fmt, k, extra)


def reject_all(sg, shift):
    """try to write one value the format must reject into every variable
    (which one: by position, shifted); returns per variable None (the write
    was accepted) or the exception"""
    out = []
    for n, (owner, name, fmt) in enumerate(variables(sg)):
        bad = BAD[fmt][(n + shift) % len(BAD[fmt])]
        try:
            setattr(owner, name, bad)
            out.append(None)
        except Exception as e:
            out.append(("exc", type(e).__name__, repr(e)))
    return out


def child_main(groups, conn):
    """runs in the spawned process: serve read/write commands on the
    unpickled sync groups"""
    import ebpfcat
    try:
        conn.send(("hello", os.path.dirname(os.path.abspath(
            ebpfcat.__file__)), os.getpid()))
        while True:
            cmd = conn.recv()
            if cmd[0] == "read":
                conn.send([read_all(sg) for sg in groups])
            elif cmd[0] == "write":
                _, k, extra, parity = cmd
                conn.send([write_all(sg, k, extra, parity) for sg in groups])
            elif cmd[0] == "writeflat":
                _, k, extra = cmd
                conn.send([write_all(sg, k, extra, None, True)
                           for sg in groups])
            elif cmd[0] == "reject":
                conn.send([reject_all(sg, cmd[1]) for sg in groups])
            elif cmd[0] == "quit":
                conn.send("bye")
                return
            else:
                conn.send(("unknown", cmd))
    except EOFError:
        pass
