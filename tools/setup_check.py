#!/venv/bin/python
"""setup_cmd: nothing to build (pure Python); verify the tool chain is there."""
import os, sys
sys.path.insert(0, os.path.dirname(os.path.dirname(os.path.abspath(__file__))))
sys.path.insert(0, os.environ.get("EBPFCAT_SRC", "/repo"))
import ebpfcat.ebpf, ebpfcat.ethercat, ebpfcat.ebpfcat  # noqa
import mc.core  # noqa
for d in ("evidence", "replays"):
    os.makedirs(os.path.join(os.path.dirname(os.path.dirname(
        os.path.abspath(__file__))), d), exist_ok=True)
print("setup ok: python", sys.version.split()[0], "ebpfcat from",
      os.path.dirname(ebpfcat.ebpf.__file__))
