"""C06 - in-place addition on 4/8-byte variables never loses updates.

A statement is (+= / -=, amount form, amount index); the amount forms contain
constants, registers, expressions, a local variable - and ZERO amounts (the
literals 0 and 0.0, a register and a local variable holding 0).  A program is
one or two statements on the variable, compiled by the real DSL.  Uniform
configurations run the same statement in every instance (instances differ in
their amounts); mixed configurations give the instances DIFFERENT statements
on the same variable (a zero amount next to a non-zero one, += next to -=,
different amount forms, two statements in one program).
Mixed units: an INTEGER variable takes FIXED-POINT amounts (x register, x
variable, float constants with and without a fraction, zero, negative,
expressions mixing an x register with an integer register or a float) and an
x variable takes integer amounts; the amount is converted to the variable's
unit first (C02's rule: fixed -> integer drops the fraction, toward zero or
toward minus infinity - both are accepted, per instance), the variable must
end up changed by the sum of the converted amounts of all instances.
Two or three interpreter instances (private registers and stack) run the
assembled bytes on *shared* packet / map memory.  An explicit-state search
with exact duplicate detection enumerates every interleaving at instruction
granularity; at every terminal state the variable must equal
initial + sum of amounts (mod 2^width) and no other shared byte may differ.

Atomicity of a single XADD instruction is an axiom of the interpreter (one
step), as it is of the hardware.
"""
import contextlib
import copy
import itertools
import math
from fractions import Fraction

from mc import bpfvm, core
from mc.dsl import Raw
from harness.c01_intexpr import div_sites, patch_signed_div
import ebpfcat.arraymap
from ebpfcat.arraymap import ArrayMap, PerCPUArrayMap
from ebpfcat.bpf import ProgType
from ebpfcat.ebpf import EBPF, Instruction, LocalVar
from ebpfcat.xdp import XDP, PacketVar

PROP = "C06"
LEVEL = "model_checking"
RULE = ("uniform configurations = memory kind x format x (+=, -=) x amount "
        "form (constants, registers, expressions, local variable, and zero "
        "as int 0 / 0.0 / register / local variable) x number of instances x "
        "initial value; mixed configurations = memory kind x format x "
        "instances running DIFFERENT statements on the variable: every zero "
        "statement x every statement, pairs of different non-zero "
        "statements, triples, and programs of two statements (zero + "
        "non-zero); mixed units = memory kind x integer format x (+=, -=) x "
        "fixed-point amount form (x register, x local variable, float "
        "constant with / without fraction, zero, negative, x register + "
        "integer register, x register * float) and format x x the "
        "corresponding forms, uniform and next to statements in the "
        "variable's own unit, final value = initial + sum of the amounts "
        "converted by C02's rule (fraction dropped toward zero or toward "
        "minus infinity, either accepted for every instance); for each, "
        "explicit-state search "
        "over (pc and registers and stack of every instance, shared bytes) "
        "with exact dedup enumerates all instruction-level interleavings of "
        "the compiled statement (mode 'stmt': private prologue executed "
        "first) or of the whole programs (mode 'whole'); a configuration is "
        "non-trivial when the instances share the variable's memory and the "
        "explored graph branches (more states than one linear run); distinct "
        "= distinct (configuration, initial value)")

M64 = (1 << 64) - 1
M32 = (1 << 32) - 1
SIZE = {"I": 4, "i": 4, "Q": 8, "q": 8, "x": 8}
FIXED = 100000
FORMATS = ["I", "i", "Q", "q", "x"]
KINDS = ["pktvar", "pktarr", "rawsum", "rawptr", "array", "subarray",
         "percpu_same", "percpu_own", "local"]
SHARED = {"pktvar", "pktarr", "rawsum", "rawptr", "array", "subarray",
          "percpu_same"}
FORMS = ["const", "neg", "big", "r", "sr", "w", "expr", "wexpr", "lvar",
         "zero", "rzero", "wzero", "lzero",
         "xconst", "xreg", "xzero", "xrzero"]
XFORMS = ("xconst", "xreg", "xzero", "xrzero")
ZERO_FORMS = ("zero", "rzero", "wzero", "lzero", "xzero", "xrzero")
# mixed units: a FIXED-POINT amount added to an INTEGER variable is converted
# first (its fraction is dropped, C02's rule); these forms go with the integer
# formats (and, where they add something, with x)
UNIT_FORMS = ("fxreg", "fxvar", "fcfrac", "fcint", "fmix", "fmul",
              "fxneg", "fcneg", "fxzero", "fczero")
UNIT_FORMS_X = ("fxvar", "fcint", "fmix", "fmul")
XLOCAL_FORMS = ("fxvar",)            # the amount variable a<k> has format x
KF_SDIV = "C06-negative-fixed-amount-unsigned-division"
# registers (a, b) and local variable of the k-th statement of a program
# (r6/r7 are the map bases, r8/r6 the raw pointer/offset, r9 the packet)
BANK = ((2, 3), (4, 5))
GUARD = 40
VAROFF = 8
PKTLEN = 48
NCPU = 4
STATE_CAP = 400000

C_SMALL = (3, 5, 11)
C_NEG = (-1, -7, -2)
C_BIG = {4: (0x89abcdef, 0x7fffffff, 0xfedcba98),
         8: (0x123456789a, (1 << 63) + 5, 0xfedcba9876543210)}
C_X = (0.5, 1.25, -2.5)
R2 = (7, 0x100000005, M64 - 2)
R3 = (1, 0x100, 0x7fffffff)
LV = (9, 0x1234, 0x7ffffffe)
# fixed-point amounts (raw, in 1/100000): 2.5, 12.34567, 0.99999 - integer
# parts 2, 12 and 0 -; constants with and without a fraction; negative ones;
# an integer register to mix with (the scaled sum stays below 2^31)
FX = (250000, 1234567, 99999)
FXN = (-250000, -100000, -1234567)
FC_FRAC = (2.5, 1.25, 0.5)
FC_INT = (3.0, 1.0, 250.0)
FC_NEG = (-2.5, -1.0, -0.5)
FM_R = (3, 0x100, 20000)


def sx(v, bits):
    v &= (1 << bits) - 1
    return v - (1 << bits) if v >> (bits - 1) else v


def inits(fmt):
    bits = 8 * SIZE[fmt]
    return [0, 1, (1 << bits) - 1, (1 << bits) - 2, 1 << (bits - 1)]


# ------------------------------------------------------------ fake maps
class FakeMaps:
    """array maps created by ebpfcat land in an interpreter Kernel; every
    instance of one configuration gets the same map (same creation order)"""

    def __init__(self):
        self.kernel = bpfvm.Kernel()
        self.created = []
        self.cursor = 0

    def restart(self):
        self.cursor = 0

    def create_map(self, map_type, key_size, value_size, max_entries,
                   attributes=None):
        if self.cursor < len(self.created):
            fd = self.created[self.cursor]
            m = self.kernel.maps[fd]
            if (m.type, m.key_size, m.value_size) != \
                    (map_type.value, key_size, value_size):
                raise core.Internal("instances create different maps")
        else:
            fd = 100 + len(self.created)
            self.kernel.maps[fd] = bpfvm.BpfMap(
                map_type.value, key_size, value_size, max_entries, ncpu=NCPU)
            self.created.append(fd)
        self.cursor += 1
        return fd

    def mmap(self, fd, size):
        return self.kernel.maps[fd].area

    @contextlib.contextmanager
    def bound(self):
        am = ebpfcat.arraymap
        old = am.create_map, am.mmap, am.cpu_count
        am.create_map, am.mmap, am.cpu_count = \
            self.create_map, self.mmap, lambda: NCPU
        try:
            yield self
        finally:
            am.create_map, am.mmap, am.cpu_count = old


# ------------------------------------------------------------ amounts
def unit_amount(e, form, i, k):
    """-> (DSL operand, the amount as an exact number, registers to plant,
    raw value of the local variable a<k> or None) of a fixed-point amount"""
    a, b = BANK[k]
    xa, rb = e.x[a], e.r[b]
    if form == "fxreg":
        return xa, Fraction(FX[i], FIXED), {a: FX[i]}, None
    if form == "fxneg":
        return xa, Fraction(FXN[i], FIXED), {a: FXN[i] & M64}, None
    if form == "fxzero":
        return xa, Fraction(0), {a: 0}, None
    if form == "fxvar":
        return getattr(e, f"a{k}"), Fraction(FX[i], FIXED), {}, FX[i]
    if form == "fcfrac":
        return FC_FRAC[i], Fraction(repr(FC_FRAC[i])), {}, None
    if form == "fcint":
        return FC_INT[i], Fraction(repr(FC_INT[i])), {}, None
    if form == "fcneg":
        return FC_NEG[i], Fraction(repr(FC_NEG[i])), {}, None
    if form == "fczero":
        return 0.0, Fraction(0), {}, None
    if form == "fmix":
        return xa + rb, Fraction(FX[i], FIXED) + FM_R[i], \
            {a: FX[i], b: FM_R[i]}, None
    if form == "fmul":
        return xa * 2.5, Fraction(FX[i], FIXED) * Fraction(5, 2), \
            {a: FX[i]}, None
    raise core.Internal(form)


def acceptable_deltas(value, sign, scale):
    """the raw changes of the variable that `var += value` (sign 1) or
    `var -= value` (sign -1) may make: the exact amount in the variable's
    unit; where that is not a whole number its fraction is dropped, toward
    zero or toward minus infinity, before or after the negation"""
    t = Fraction(value) * scale
    return {math.trunc(sign * t), math.floor(sign * t),
            sign * math.trunc(t), sign * math.floor(t)}


def amount(e, form, fmt, i, k=0):
    """k-th statement of a program, amount index i
    -> (DSL operand, the integer the statement adds per unit, registers to
    plant {no: value}, value of the local variable a<k> or None)"""
    size = SIZE[fmt]
    scale = FIXED if fmt == "x" else 1
    a, b = BANK[k]
    ra, sra, wa, xa = e.r[a], e.sr[a], e.w[a], e.x[a]
    rb, wb = e.r[b], e.w[b]
    if form == "const":
        return C_SMALL[i], C_SMALL[i] * scale, {}, None
    if form == "neg":
        return C_NEG[i], C_NEG[i] * scale, {}, None
    if form == "big":
        if fmt == "x":
            c = (41234567, 1 << 40, -(1 << 33) - 9)[i]
        else:
            c = C_BIG[size][i]
        return c, c * scale, {}, None
    if form == "r":
        return ra, R2[i] * scale, {a: R2[i]}, None
    if form == "sr":
        return sra, sx(R2[i], 64) * scale, {a: R2[i]}, None
    if form == "w":
        return wa, (R2[i] & M32) * scale, {a: R2[i] & M32}, None
    if form == "expr":
        return ra * 3 + rb, (R2[i] * 3 + R3[i]) * scale, \
            {a: R2[i], b: R3[i]}, None
    if form == "wexpr":
        return wa + wb, ((R2[i] & M32) + (R3[i] & M32)) * scale, \
            {a: R2[i] & M32, b: R3[i] & M32}, None
    if form == "lvar":
        return getattr(e, f"a{k}"), LV[i] * scale, {}, LV[i]
    if form == "zero":
        return 0, 0, {}, None
    if form == "rzero":
        return ra, 0, {a: 0}, None
    if form == "wzero":
        return wa, 0, {a: 0}, None
    if form == "lzero":
        return getattr(e, f"a{k}"), 0, {}, 0
    if form == "xconst":
        return C_X[i], int(C_X[i] * FIXED), {}, None
    if form == "xreg":
        return xa, sx(R2[i], 64), {a: R2[i]}, None
    if form == "xzero":
        return 0.0, 0, {}, None
    if form == "xrzero":
        return xa, 0, {a: 0}, None
    raise core.Internal(form)


def forms_for(fmt):
    if fmt == "x":
        return FORMS
    return [f for f in FORMS if f not in XFORMS]


def unit_forms_for(fmt):
    """amount forms whose unit differs from the variable's, or mixes both:
    integer variables take every fixed-point form; x variables take integer
    amounts already (const, r, lvar ... of FORMS) and here the forms FORMS
    lacks (an x variable, a float without fraction, mixed expressions)"""
    if fmt == "x":
        return list(UNIT_FORMS_X)
    forms = list(UNIT_FORMS)
    if SIZE[fmt] == 4:
        # fixed x fixed needs a 64-bit intermediate product: outside what
        # C02 promises when the narrowest width involved is 32 bits
        forms.remove("fmul")
    return forms


# ------------------------------------------------------------ programs
class Inst:
    """one program instance of a configuration"""

    def __init__(self, cfg, i, fake):
        kind, fmt, progs = cfg
        self.cfg, self.i = cfg, i
        self.stmts = progs[i]
        if not 0 < len(self.stmts) <= len(BANK):
            raise core.Internal("statements per program")
        self.delta = None          # the nominal change (fractions cut off)
        self.accept = None         # every change the statement(s) may make
        self.neg_converted = False
        inst = self
        attrs = {}
        subs = ()
        if kind in ("pktvar", "pktarr", "rawsum", "rawptr"):
            base = XDP
            attrs["minimumPacketSize"] = GUARD
            if kind == "pktvar":
                attrs["v"] = PacketVar(VAROFF, fmt)
        else:
            base = EBPF
            if kind == "local":
                attrs["pad"] = LocalVar("H")
                attrs["v"] = LocalVar(fmt)
            else:
                m = PerCPUArrayMap() if kind.startswith("percpu") \
                    else ArrayMap()
                attrs["map"] = m
                attrs["n1"] = m.globalVar("Q")
                if kind == "subarray":
                    from ebpfcat.ebpf import SubProgram
                    scls = type("C06S", (SubProgram,),
                                {"v": m.globalVar(fmt)})
                    self.sub = scls()
                    subs = (self.sub,)
                else:
                    attrs["v"] = m.globalVar(fmt)
                attrs["n2"] = m.globalVar("I")
        for k, (_, form, _) in enumerate(self.stmts):
            if form in ("lvar", "lzero"):
                attrs[f"a{k}"] = LocalVar("I" if SIZE[fmt] == 4 else "Q")
            elif form in XLOCAL_FORMS:
                attrs[f"a{k}"] = LocalVar("x")

        def program(e):
            inst.emit(e)
        attrs["program"] = program
        cls = type("C06P", (base,), attrs)
        fake.restart()
        if base is XDP:
            e = cls(license="GPL")
        else:
            e = cls(prog_type=ProgType.XDP, license="GPL", subprograms=subs)
        self.e = e
        self.code = e.assemble()
        self.insns = bpfvm.decode(self.code)
        if self.insns[self.start] is None or self.end > len(self.insns):
            raise core.Internal("statement boundaries")
        # where the variable lives
        if kind in ("pktvar", "pktarr", "rawsum", "rawptr"):
            self.where = ("pkt", VAROFF)
        elif kind == "local":
            self.where = ("stack", 512 + cls.__dict__["v"].relative_addr)
        else:
            holder = self.sub if kind == "subarray" else e
            addr = type(holder).__dict__["v"].fmt_addr(holder)[1]
            self.where = ("map", fake.created[0], addr)

    def raw(self, op, dst, src, off, imm):
        self.e.opcodes.append(Instruction(Raw(op), dst, src, off, imm))

    def ld64(self, no, value):
        self.e.opcodes.append(Instruction(Raw(0x18), no, 0, 0, value & M32))
        self.e.opcodes.append(Instruction(Raw(0), 0, 0, 0,
                                          (value >> 32) & M32))

    def emit(self, e):
        kind, fmt, _ = self.cfg
        todo = []
        self.delta = 0
        self.accept = {0}
        for k, (opsym, form, ai) in enumerate(self.stmts):
            sign = 1 if opsym == "+=" else -1
            if form in UNIT_FORMS:
                operand, value, regs, lval = unit_amount(e, form, ai, k)
                scale = FIXED if fmt == "x" else 1
                acc = acceptable_deltas(value, sign, scale)
                delta = math.trunc(sign * value * scale)
                lsize = 8
                if fmt != "x" and sign * value < 0:
                    self.neg_converted = True
            else:
                operand, delta, regs, lval = amount(e, form, fmt, ai, k)
                delta *= sign
                acc = {delta}
                lsize = SIZE[fmt]
            self.delta += delta
            self.accept = {x + y for x in self.accept for y in acc}
            if lval is not None:           # a<k> = lval, by raw instructions
                off = type(e).__dict__[f"a{k}"].relative_addr
                self.ld64(BANK[k][0], lval)
                self.raw(0x63 if lsize == 4 else 0x7b, 10, BANK[k][0],
                         off, 0)
            for no, val in sorted(regs.items()):
                self.ld64(no, val)
                e.owners.add(no)
            todo.append((opsym == "+=", operand))
        if kind == "rawsum" or kind == "rawptr":
            self.raw(0xbf, 8, 9, 0, 0)        # r8 = packet pointer
            e.owners.add(8)
        if kind == "rawptr":
            self.raw(0xb7, 6, 0, 0, VAROFF)   # r6 = offset
            e.owners.add(6)
        self.start = len(e.opcodes)
        for add, operand in todo:
            self.statement(e, add, operand)
        self.end = len(e.opcodes)
        if not isinstance(e, XDP):
            self.raw(0xb7, 0, 0, 0, 2)
            self.raw(0x95, 0, 0, 0, 0)

    def statement(self, e, add, operand):
        kind, fmt, _ = self.cfg
        if kind == "pktvar" or kind == "local" or kind == "array" \
                or kind.startswith("percpu"):
            if add:
                e.v += operand
            else:
                e.v -= operand
        elif kind == "subarray":
            if add:
                self.sub.v += operand
            else:
                self.sub.v -= operand
        elif kind == "pktarr":
            arr = e.pI if SIZE[fmt] == 4 else e.pQ
            if add:
                arr[VAROFF] += operand
            else:
                arr[VAROFF] -= operand
        else:
            mm = getattr(e, "m" + fmt)
            if kind == "rawsum":
                if add:
                    mm[e.r8 + VAROFF] += operand
                else:
                    mm[e.r8 + VAROFF] -= operand
            else:
                if add:
                    mm[e.r8 + e.r6] += operand
                else:
                    mm[e.r8 + e.r6] -= operand


def formats_for(kind):
    return ["I", "Q"] if kind == "pktarr" else FORMATS


# ------------------------------------------------------------ the search
def vm_snap(vm):
    return (vm.pc, tuple(vm.regs), bytes(vm.stack), bytes(vm.stack_init),
            tuple(sorted(vm.stack_ptrs.items())), vm.done, vm.retval)


def vm_restore(vm, s):
    vm.pc = s[0]
    vm.regs = list(s[1])
    vm.stack[:] = s[2]
    vm.stack_init[:] = s[3]
    vm.stack_ptrs = dict(s[4])
    vm.done = s[5]
    vm.retval = s[6]
    vm.steps = 0


class World:
    """n interpreter instances on shared packet and map memory"""

    def __init__(self, insts, fake, mode, init):
        self.insts = insts
        self.fake = fake
        self.mode = mode
        kind, fmt, _ = insts[0].cfg
        self.kind, self.fmt = kind, fmt
        self.size = SIZE[fmt]
        self.packet = bytearray((i * 7 + 0x40) & 0xff for i in range(PKTLEN))
        self.maps = [fake.kernel.maps[fd] for fd in fake.created]
        for m in self.maps:
            areas = m.area if m.type == bpfvm.BpfMap.PERCPU_ARRAY \
                else [m.area]
            for a in areas:
                a[:] = bytes((j * 5 + 0x21) & 0xff for j in range(len(a)))
        self.vms = []
        for i, inst in enumerate(insts):
            cpu = i + 1 if kind == "percpu_own" else 0
            vm = bpfvm.VM(fake.kernel, inst.insns, self.packet, cpu=cpu)
            self.vms.append(vm)
        self.init = init
        for i in range(len(insts)):
            self.write_var(i, init)
        self.shared0 = self.shared_snap()

    def var_buf(self, i):
        w = self.insts[i].where
        if w[0] == "pkt":
            return self.packet, w[1]
        if w[0] == "stack":
            return self.vms[i].stack, w[1]
        m = self.fake.kernel.maps[w[1]]
        if m.type == bpfvm.BpfMap.PERCPU_ARRAY:
            return m.area[self.vms[i].cpu], w[2]
        return m.area, w[2]

    def write_var(self, i, value):
        buf, o = self.var_buf(i)
        buf[o:o + self.size] = (value & ((1 << (8 * self.size)) - 1)) \
            .to_bytes(self.size, "little")
        if self.insts[i].where[0] == "stack":
            self.vms[i].stack_init[o:o + self.size] = b"\1" * self.size

    def read_var(self, i):
        buf, o = self.var_buf(i)
        return int.from_bytes(buf[o:o + self.size], "little")

    def shared_snap(self):
        return (bytes(self.packet),
                tuple(m.snapshot() for m in self.maps))

    def shared_restore(self, s):
        self.packet[:] = s[0]
        for m, ms in zip(self.maps, s[1]):
            if m.type == bpfvm.BpfMap.PERCPU_ARRAY:
                for a, b in zip(m.area, ms):
                    a[:] = b
            else:
                m.area[:] = ms

    def finished(self, i):
        vm = self.vms[i]
        return vm.done or (self.mode == "stmt" and vm.pc == self.insts[i].end)

    def prologue(self):
        """mode 'stmt': run every instance alone up to its statement"""
        if self.mode != "stmt":
            return
        for i, vm in enumerate(self.vms):
            while vm.pc != self.insts[i].start:
                if vm.done:
                    raise core.Internal("statement not reached")
                vm.step()
        if self.shared_snap() != self.shared0:
            raise core.Internal("prologue changed shared memory")

    def state(self):
        return (self.shared_snap(), tuple(vm_snap(vm) for vm in self.vms))

    def restore(self, s):
        self.shared_restore(s[0])
        for vm, vs in zip(self.vms, s[1]):
            vm_restore(vm, vs)

    # ------------------------------------------------------ the oracle
    def expected(self):
        """per instance: the set of final values of its variable that are
        right (one value, unless a fixed-point amount with a fraction was
        converted to an integer: then either way of dropping it)"""
        bits = 8 * self.size
        mask = (1 << bits) - 1
        n = len(self.insts)
        if self.kind in SHARED:
            totals = {(self.init + sum(ch)) & mask for ch in
                      itertools.product(*[sorted(x.accept)
                                          for x in self.insts])}
            return [totals] * n
        return [{(self.init + d) & mask for d in x.accept}
                for x in self.insts]

    def check_terminal(self):
        exp = self.expected()
        obs = [self.read_var(i) for i in range(len(self.insts))]
        problems = []
        if not all(o in ex for o, ex in zip(obs, exp)):
            problems.append(("final value",
                             [sorted(hex(v) for v in ex) for ex in exp],
                             [hex(v) for v in obs]))
        # every other shared byte unchanged
        now = self.shared_snap()
        saved = [(i, self.read_var(i)) for i in range(len(self.insts))]
        for i in range(len(self.insts)):
            if self.insts[i].where[0] != "stack":
                self.write_var(i, self.init)
        if self.shared_snap() != self.shared0:
            problems.append(("other shared bytes changed",
                             core.jsonable(self.shared0),
                             core.jsonable(now)))
        for i, v in saved:
            if self.insts[i].where[0] != "stack":
                self.write_var(i, v)
        return problems


def explore(world, res, cap=STATE_CAP):
    """-> (states, transitions, terminals, list of (problem, schedule))"""
    s0 = world.state()
    parent = {s0: None}
    frontier = [s0]
    transitions = terminals = 0
    found = []
    n = len(world.vms)

    def schedule(s):
        out = []
        while parent[s] is not None:
            s, i = parent[s]
            out.append(i)
        return out[::-1]

    while frontier:
        s = frontier.pop()
        world.restore(s)
        enabled = [i for i in range(n) if not world.finished(i)]
        if not enabled:
            terminals += 1
            for p in world.check_terminal():
                found.append((p, schedule(s)))
            continue
        for i in enabled:
            world.restore(s)
            try:
                world.vms[i].step()
            except bpfvm.Trap as t:
                transitions += 1
                found.append((("trap", "runs to completion", str(t)),
                              schedule(s) + [i]))
                continue
            transitions += 1
            ns = world.state()
            if ns not in parent:
                if len(parent) >= cap:
                    res.caps_hit.append("state cap")
                    res.exhaustive = False
                    return len(parent), transitions, terminals, found
                parent[ns] = (s, i)
                frontier.append(ns)
    return len(parent), transitions, terminals, found


# ------------------------------------------------------------ driver
def build(cfg):
    fake = FakeMaps()
    with fake.bound():
        insts = [Inst(cfg, i, fake) for i in range(len(cfg[2]))]
    return insts, fake


def case_json(cfg, mode, family):
    kind, fmt, progs = cfg
    return dict(kind=kind, fmt=fmt, n=len(progs), mode=mode, family=family,
                progs=[[list(st) for st in p] for p in progs])


def run_config(item, res):
    cfg, mode, init_list, family = item
    kind, fmt, progs = cfg
    n = len(progs)
    cj = case_json(cfg, mode, family)
    shape = [[st[:2] for st in p] for p in progs]
    try:
        insts, fake = build(cfg)
    except core.Internal:
        raise
    except Exception as e:
        res.count("rejected_by_generator")
        res.outcomes.add("rejected:" + type(e).__name__)
        return
    res.count("programs", n)
    res.count("configurations_" + family)
    for inst in insts:
        xadds = sum(1 for ins in inst.insns[inst.start:inst.end]
                    if ins is not None and ins[0] in (0xc3, 0xdb))
        res.outcomes.add(("xadd instructions - statements in program",
                          xadds - len(inst.stmts)))
        res.outcomes.add(("statement length",
                          (inst.end - inst.start) // len(inst.stmts)))
    for init in init_list:
        world = World(insts, fake, mode, init)
        world.prologue()
        states, transitions, terminals, found = explore(world, res)
        res.count("evaluations")
        res.count("evaluations_" + family)
        res.count("states", states)
        res.count("transitions", transitions)
        res.count("terminal_states", terminals)
        res.count("traces_validated_against_impl")
        if kind in SHARED and states > n + 1:
            res.nontrivial.add(core.digest([cj, init]))
        kf = None
        if found and signed_div_explains(insts, fake, mode, init):
            kf = KF_SDIV
        res.outcomes.add(("terminals", min(terminals, 3), bool(found),
                          str(kf)))
        seen = set()
        for (what, exp, obs), sched in found:
            if what in seen:
                continue
            seen.add(what)
            res.violation(dict(cj, init=init, schedule=sched,
                               amounts=[x.delta for x in insts]), exp, obs,
                          kf=kf,
                          sig=core.digest([what, kind, fmt, shape, str(kf)]),
                          note=f"{what} after schedule {sched}")


def signed_div_explains(insts, fake, mode, init):
    """defect model for KF_SDIV: the division by 100000 that converts a
    fixed-point amount to an integer is the unsigned BPF_DIV, wrong as soon
    as the (negated) amount is negative.  True when an instance converts a
    negative amount AND the same programs, with exactly their DIV
    instructions executed as signed divisions, pass the whole exploration
    (every interleaving, every terminal state)"""
    if not any(x.neg_converted for x in insts):
        return False
    patched = []
    for x in insts:
        y = copy.copy(x)
        y.insns = patch_signed_div(x.insns,
                                   [i for i in div_sites(x.insns)
                                    if x.start <= i < x.end])
        patched.append(y)
    if all(y.insns == x.insns for x, y in zip(insts, patched)):
        return False
    world = World(patched, fake, mode, init)
    world.prologue()
    return not explore(world, core.Result())[3]


def uniform(stmt, n):
    """every instance runs the same statement with its own amount"""
    return tuple(((stmt[0], stmt[1], i),) for i in range(n))


def statements(fmt):
    """-> (all statements (op, form), the zero ones, the non-zero ones)"""
    allst = [(op, form) for op in ("+=", "-=") for form in forms_for(fmt)]
    zero = [st for st in allst if st[1] in ZERO_FORMS]
    return allst, zero, [st for st in allst if st[1] not in ZERO_FORMS]


def mixed_programs(ctx, fmt):
    """instances that run DIFFERENT statements on the variable
    -> list of (family, progs)"""
    allst, zero, nz = statements(fmt)
    q, sd = ctx.quick, ctx.seed
    out = []
    # a zero statement next to every statement (also another zero one)
    for zi, Z in enumerate(zero):
        for si, S in enumerate(allst):
            if Z == S:
                continue             # that is a uniform configuration
            pr = ((Z + (0,),), (S + (1,),))
            out.append(("zero+any", pr if (zi + si) % 2 else pr[::-1]))
    # two different non-zero statements
    for i, S1 in enumerate(nz):
        if q:
            others = uniq(nz[(i + 1 + sd + 5 * r) % len(nz)] for r in range(3))
        else:
            others = nz[i + 1:]
        for S2 in others:
            if S2 != S1:
                out.append(("two different", ((S1 + (0,),), (S2 + (1,),))))
    # three instances: zero, non-zero, non-zero / zero, zero, non-zero
    for zi, Z in enumerate(zero):
        for si, S in enumerate(nz):
            if q and (zi + si + sd) % 4:
                continue
            S2 = nz[(si + zi + 3) % len(nz)]
            Z2 = zero[(zi + si + 1) % len(zero)]
            k = (zi + si) % 3
            pr = [(S + (1,),), (S2 + (2,),)]
            pr.insert(k, (Z + (0,),))
            out.append(("three, one zero", tuple(pr)))
            if not q or (zi + si + sd) % 8 == 0:
                pr = [(Z2 + (1,),), (S + (2,),)]
                pr.insert(k, (Z + (0,),))
                out.append(("three, two zero", tuple(pr)))
    # two statements in one program: a zero and a non-zero amount
    for zi, Z in enumerate(zero):
        for si, S in enumerate(nz):
            if q and (zi + si + sd) % 3:
                continue
            S2 = nz[(si + 2 * zi + 1) % len(nz)]
            two = (Z + (0,), S + (1,)) if (zi + si) % 2 else \
                (S + (1,), Z + (0,))
            out.append(("two statements", (two, (S2 + (2,),))))
            if not q or (zi + si + sd) % 2 == 0:
                out.append(("two statements", (two, two[::-1])))
                out.append(("two statements",
                            (two, (Z + (1,),), (S2 + (2,),))))
    return out


def uniq(xs):
    out = []
    for x in xs:
        if x not in out:
            out.append(x)
    return out


def configs(ctx):
    items = []
    for kind in KINDS:
        for fmt in formats_for(kind):
            for opsym in ("+=", "-="):
                for form in forms_for(fmt):
                    st = (opsym, form)
                    c2 = (kind, fmt, uniform(st, 2))
                    c3 = (kind, fmt, uniform(st, 3))
                    iv = inits(fmt)
                    if ctx.quick:
                        pick = (ctx.seed + len(items)) % len(iv)
                        items.append((c2, "stmt", iv, "uniform"))
                        items.append((c3, "stmt", [iv[pick], iv[2]],
                                      "uniform"))
                        if form in ("const", "expr", "xreg", "zero", "lvar"):
                            items.append((c2, "whole", [iv[pick]],
                                          "uniform"))
                    else:
                        items.append((c2, "stmt", iv, "uniform"))
                        items.append((c3, "stmt", iv, "uniform"))
                        items.append((c2, "whole", iv, "uniform"))
                        if form in ("const", "r", "expr", "xreg"):
                            items.append((c3, "whole", [iv[0], iv[2]],
                                          "uniform"))
    # mixed units: fixed-point amounts on integer variables (and the other
    # way round); quick takes three memory kinds per statement, rotating so
    # that every kind meets every form, thorough takes every kind
    n = 0
    for fmt in FORMATS:
        kinds = [k for k in KINDS if fmt in formats_for(k)]
        iv = inits(fmt)
        for opsym in ("+=", "-="):
            for form in unit_forms_for(fmt):
                st = (opsym, form)
                n += 1
                if ctx.quick:
                    mine = uniq(kinds[(n * 3 + ctx.seed + j) % len(kinds)]
                                for j in range(3))
                else:
                    mine = kinds
                for ki, kind in enumerate(mine):
                    c2 = (kind, fmt, uniform(st, 2))
                    c3 = (kind, fmt, uniform(st, 3))
                    pick = (ctx.seed + n + ki) % len(iv)
                    if ctx.quick:
                        items.append((c2, "stmt", uniq([iv[pick], iv[0]]),
                                      "units"))
                        items.append((c3, "stmt", [iv[(pick + 2) % len(iv)]],
                                      "units"))
                        if (n + ki) % 4 == 0:
                            items.append((c2, "whole", [iv[pick]], "units"))
                    else:
                        items.append((c2, "stmt", iv, "units"))
                        items.append((c3, "stmt", [iv[pick], iv[2]],
                                      "units"))
                        items.append((c2, "whole", [iv[0], iv[pick]],
                                      "units"))
                # next to a statement in the variable's own unit, and two
                # different conversions next to each other
                old = statements(fmt)[2]
                partner = old[(n * 5 + ctx.seed) % len(old)]
                others = [f for f in unit_forms_for(fmt) if f != form]
                st2 = (("+=", "-=")[n % 2], others[(n + ctx.seed)
                                                   % len(others)])
                for j, pr in enumerate((
                        ((st + (0,),), (partner + (1,),)),
                        ((st2 + (1,),), (st + (2,),)),
                        ((st + (0,),), (partner + (1,),), (st2 + (2,),)),
                        ((st + (0,), partner + (1,)), (st2 + (2,),)))):
                    for kind in (mine[j % len(mine)],) if ctx.quick \
                            else mine[j % 2::2]:
                        pick = (ctx.seed + n + j) % len(iv)
                        items.append(((kind, fmt, pr), "stmt",
                                      uniq([iv[pick], iv[(pick + 2)
                                                         % len(iv)]]),
                                      "units mixed"))
    # mixed statements: quick rotates the memory kind over the programs,
    # thorough takes every kind (every other one for three instances and
    # for two statements per program)
    n = 0
    for fmt in FORMATS:
        kinds = [k for k in KINDS if fmt in formats_for(k)]
        iv = inits(fmt)
        for family, progs in mixed_programs(ctx, fmt):
            n += 1
            if ctx.quick:
                kind = kinds[(n + ctx.seed) % len(kinds)]
                pick = (ctx.seed + n) % len(iv)
                items.append(((kind, fmt, progs), "stmt",
                              uniq([iv[pick], iv[(pick + 2) % len(iv)]]),
                              family))
                if n % 7 == 0 and len(progs) == 2:
                    items.append(((kind, fmt, progs), "whole", [iv[pick]],
                                  family))
            else:
                for ki, kind in enumerate(kinds):
                    big = len(progs) == 3 or family == "two statements"
                    if big and (n + ki + ctx.seed) % 2:
                        continue        # every other memory kind
                    items.append(((kind, fmt, progs), "stmt",
                                  [iv[(n + ki) % 5], iv[(n + ki + 2) % 5]]
                                  if big else iv, family))
                    if (n + ki) % 5 == 0 and len(progs) == 2:
                        items.append(((kind, fmt, progs), "whole",
                                      [iv[(n + ki) % len(iv)]], family))
    return items


def run(ctx):
    items = configs(ctx)
    res = core.pmap(ctx, run_config, items, chunk=16)
    res.cov["configurations"] = len(items)
    res.cov["alphabet"] = dict(kinds=KINDS, formats=FORMATS, forms=FORMS,
                               zero_forms=list(ZERO_FORMS),
                               instances=[2, 3], modes=["stmt", "whole"],
                               unit_forms=list(UNIT_FORMS),
                               families=["uniform", "units", "units mixed",
                                         "zero+any",
                                         "two different", "three, one zero",
                                         "three, two zero", "two statements"])
    res.sample(dict(kind="array", fmt="q", n=2, mode="stmt", family="zero+any",
                    progs=[[["+=", "zero", 0]], [["-=", "expr", 1]]]))
    res.assumptions += [
        "one XADD instruction is one atomic step (axiom of the interpreter, "
        "as of the hardware); memory orderings weaker than sequential "
        "consistency are not modelled",
        "formats are the native ones the statement names (I i Q q x); a "
        "variable declared with a byte-order prefix is not covered by the "
        "atomic lowering and is outside the statement",
        "hash-map variables are not Memory objects and are outside the "
        "statement's mechanism",
        "per-CPU variables: instances on different CPUs own private copies "
        "(each must end at initial + own amounts); instances on the same CPU "
        "share one copy",
        "a fixed-point amount added to or subtracted from an integer "
        "variable is converted to an integer first; per C02 the conversion "
        "drops the fraction, toward zero or toward minus infinity: every "
        "instance may have dropped it either way, before or after the "
        "negation of `-=`, and every resulting sum is accepted (one value "
        "when all amounts are whole numbers); amounts are chosen so that "
        "the scaled operands fit 32 bits (the narrowest width involved for "
        "I/i variables); fixed x fixed amounts (64-bit intermediate product) "
        "go with 8-byte variables only; the older fixed-point forms xconst/"
        "xreg/xzero/xrzero (64-bit register patterns) stay with format x",
        "a wrong final value is attributed to " + KF_SDIV + " only when an "
        "instance converts a negative (or negated positive) fixed-point "
        "amount AND the whole exploration passes once exactly the DIV "
        "instructions of the statements execute as signed divisions",
        "an amount of zero is an amount: `v += 0`, `v -= 0.0`, `v += reg` "
        "with reg == 0 are in-place additions like any other and must not "
        "disturb a concurrent update; the sum of all amounts includes them",
        "instances of one configuration may run different statements (and "
        "two statements in a row) on the same variable; amount operands "
        "(registers, the local amount variable) are private to an instance "
        "and are planted before the statement(s) by raw instructions",
    ]
    return res


def replay(ctx, rep):
    res = core.Result()
    c = rep["case"]
    if "progs" in c:
        progs = tuple(tuple(tuple(st) for st in p) for p in c["progs"])
    else:                      # replays written before the mixed families
        progs = uniform((c["op"], c["form"]), c["n"])
    cfg = (c["kind"], c["fmt"], progs)
    insts, fake = build(cfg)
    world = World(insts, fake, c["mode"], c["init"])
    world.prologue()
    for k, inst in enumerate(insts):
        print(f"--- instance {k}: {inst.stmts} = pcs [{inst.start}, "
              f"{inst.end}) amount {inst.delta}")
        print(bpfvm.disasm(inst.insns))
    for i in c["schedule"]:
        vm = world.vms[i]
        pc = vm.pc
        try:
            vm.step()
        except bpfvm.Trap as t:
            print(f"instance {i} pc {pc}: TRAP {t}")
            res.violation(c, "runs to completion", str(t))
            return res.violations
        print(f"instance {i} pc {pc}: variable now "
              f"{[hex(world.read_var(k)) for k in range(len(insts))]}")
    if all(world.finished(i) for i in range(len(insts))):
        problems = world.check_terminal()
        kf = KF_SDIV if problems and signed_div_explains(
            insts, fake, c["mode"], c["init"]) else None
        for what, exp, obs in problems:
            res.violation(c, exp, obs, kf=kf, note=what)
    else:
        raise core.Internal("schedule does not end in a terminal state")
    return res.violations
