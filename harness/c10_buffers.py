"""C10 - user-space map calls never overrun Python buffers.

Every user-space map operation reachable from the library's Python API is
driven on the real code, with `ebpfcat.bpf.bpf` bound to the simulated
kernel (mc/simkernel).  The simulated kernel knows, for every address it is
handed, which Python object it belongs to and how long that object is; it
records every command whose key / value / next-key buffer is shorter than
what the kernel would read or write (and never touches memory outside).
The property holds iff that record stays empty.

Enumerated: hash-map variables of every format, including formats with
their own byte order (get / set sequences up to length 3, plus the default
initialisation done by load()), array-map variables (mmap path; declaration
sets as in C08), per-CPU `read()` with n_possible in {1, 2, ncpu, ncpu+3}
(the last with only ncpu CPUs online), and Dict operations (__setitem__
__getitem__ pop __delitem__ __iter__ values() items() popitem() clear()
get() setdefault() `in`, and the collect-then-use iterations of C09;
breadth-first over sequences up to length 3, all reachable map contents) on
the Dict declarations of C09 - including those whose Key / Value Structure
classes derive from other Structure classes and add members (base class,
subclass, sub-subclass; alone, or next to a second Dict declared with the
base classes before / after; base class instances made in Python before the
first derived instance exists or after load()), with keys and values of
which only the inherited members were assigned, and the operations on the
second Dict (c09.dict_inherit_configs; setting such a case up - the second
Dict's entry goes in through Python - is monitored as an operation of its
own).

Histories of two programs in one process (see VARIANTS): a second program of
any kind, or a second instance of the first one's class, is created while the
first is alive, after it was close()d, or after it was garbage-collected; the
whole repertoire of user-space operations of both is issued again after every
step.  The simulated kernel hands out real descriptor numbers, lowest free
first, so a descriptor number the library keeps after the descriptor was
closed denotes whatever map was created next, and the monitor sees the
buffers sized for the old map.  An operation that fails cleanly (EBADF ...)
is no overrun.
"""
import gc
import itertools
import struct

from mc import core, simkernel
from harness import c08_arraymap as c08
from harness import c09_hashmap as c09
from ebpfcat.hashmap import HashMap

PROP = "C10"
LEVEL = "model_checking"
RULE = ("cases = (declaration, operation sequence): hash-map variables of "
        "formats B H I Q b h i q x >H !I >b <H >Q !h <q >i (1-2 variables, "
        "all get/set sequences of length <= 3), hash maps with 255 / 256 / 257 (thorough: also 254, "
        "300, 513) variables (get / set of the first, 255th, 256th, 257th, "
        "last; single operations and all set-then-get pairs), array and per-CPU declaration sets of <= 2 variables "
        "from C08's alphabet (per-CPU x 4 possible/online CPU settings), "
        "Dict declarations of C09 (flat Key / Value classes, and classes "
        "at the end of an inheritance chain of Structure classes x {no / "
        "earlier / later second Dict with the base classes} x {no / earlier "
        "/ later base class instances made in Python}, partly assigned keys "
        "and values) with all Python operation sequences of "
        "length <= 3 explored breadth-first over map contents; histories "
        "(first program, second program or further instances of the first's "
        "class, one of six orders of load / use / close() / create / "
        "garbage-collect, plus three instances of one class) over 8 (thorough: 12) program kinds - hash-map "
        "variables, array, per-CPU, Dict, each with small and large "
        "keys / values - with every user-space operation of every program "
        "re-issued after every step; a case is "
        "non-trivial when at least one map system call with a user buffer "
        "was issued and monitored; distinct = distinct (declaration, "
        "sequence / (state, operation))")

KF_HASHGET = "C10-hashvar-get-short-buffer"
KF_PERCPU = "C10-percpu-read-online-cpus"
HV_FORMATS = ["B", "H", "I", "Q", "b", "h", "i", "q", "x"]
# formats with their own byte order
HV_XFORMATS = [">H", "!I", ">b", "<H", ">Q", "!h", "<q", ">i"]


def hv_set_values(fmt):
    if fmt == "x":
        return [3, 1.5]
    lo, hi = c09.fmt_range(fmt)
    return [hi, lo if lo else 1]


class Monitor:
    """turns new entries of sk.overruns into violations"""

    def __init__(self, sk, res):
        self.sk, self.res, self.seen = sk, res, 0
        self.counts = res.cov.setdefault("_sigs", {})

    def new(self):
        out = self.sk.overruns[self.seen:]
        self.seen = len(self.sk.overruns)
        return out

    def judge(self, case, ovs, kf_model=None, note=""):
        """ovs: overrun records of one operation"""
        if not ovs:
            return True
        kf = None
        if kf_model is not None and ovs == [kf_model[1]]:
            kf = kf_model[0]
        sig = core.digest([case.get("kind"), case.get("opkind"),
                           [(o["cmd"], o["what"]) for o in ovs], str(kf)])
        self.counts[sig] = self.counts.get(sig, 0) + 1
        if self.counts[sig] <= 3 or getattr(self.res, "nocap", False):
            self.res.violation(
                case, "every buffer at least as long as the kernel's access",
                ovs, kf=kf, sig=sig, note=note)
        else:
            self.res.count("violations_not_stored")
        return False


# ------------------------------------------------------------------ hash vars
def run_hashvars(item, res):
    fmts, defaults = item
    n = len(fmts)
    ops = []
    for j, f in enumerate(fmts):
        ops.append(("get", j))
        for v in hv_set_values(f):
            ops.append(("set", j, v))
    for length in (1, 2, 3):
        for seq in itertools.product(ops, repeat=length):
            res.count("evaluations")
            sk = simkernel.SimKernel()
            mon = Monitor(sk, res)
            cj = dict(kind="hashvars", fmts=list(fmts),
                      defaults=list(defaults), seq=[list(o) for o in seq])
            try:
                with sk.installed():
                    M = HashMap()
                    attrs = {"hmap": M}
                    for j, (f, d) in enumerate(zip(fmts, defaults)):
                        attrs[f"v{j}"] = M.globalVar(f, default=d)
                    b = c09.dsl.Builder(attrs, n_in=1, n_out=1,
                                        pv_area=c09.HDR)
                    b.finish(2)
                    e = b.e
                    try:
                        e.load()
                    except Exception as ex:
                        res.outcomes.add(("load", type(ex).__name__))
                    ok = mon.judge(dict(cj, opkind="load"), mon.new(),
                                   note="default initialisation in load()")
                    res.outcomes.add(("load", ok))
                    for i, op in enumerate(seq):
                        f = fmts[op[1]]
                        try:
                            if op[0] == "get":
                                getattr(e, f"v{op[1]}")
                            else:
                                setattr(e, f"v{op[1]}", op[2])
                            out = "ok"
                        except Exception as ex:
                            if isinstance(ex, (simkernel.SimTrap,
                                               core.Internal)):
                                raise
                            out = type(ex).__name__
                        model = None
                        if op[0] == "get" and struct.calcsize(f) < 8:
                            model = (KF_HASHGET, dict(
                                cmd="MAP_LOOKUP_ELEM", need=8,
                                have=struct.calcsize(f), what="value"))
                        ok = mon.judge(
                            dict(cj, opkind=op[0], step=i, fmt=f), mon.new(),
                            model, note=f"{op[0]} of a '{f}' hash-map "
                            f"variable (step {i})")
                        res.outcomes.add(("hv", op[0], out, ok))
                    if length == 3 and seq[0][0] != seq[1][0]:
                        res.sample(dict(cj, overruns=list(sk.overruns)),
                                   limit=4)
                    res.count("map_syscalls", sum(
                        1 for c, _ in sk.calls if c in (1, 2, 3, 4, 21)))
                    if any(c in (1, 2, 3, 4, 21) for c, _ in sk.calls):
                        res.nontrivial.add(core.digest(cj))
            finally:
                sk.close_all()


# ------------------------------------------------------------------ arrays
def run_arrays(item, res):
    k, prefix, seed, pcs = item
    for layout in c08.layouts_with_prefix(k, prefix):
        # ---- plain array map: the mmap path
        res.count("evaluations")
        sk = simkernel.SimKernel()
        mon = Monitor(sk, res)
        cj = dict(kind="array", layout=[list(p) for p in layout])
        try:
            with sk.installed():
                try:
                    case = c08.Case(layout)
                    case.b.finish(2)
                    case.e.load()
                except Exception as ex:
                    res.outcomes.add(("array-rejected", type(ex).__name__))
                    case = None
                if case is not None:
                    for rnd in range(3):
                        for i, s in enumerate(case.slots):
                            try:
                                if rnd != 1:
                                    v, _ = c08.py_value(s.fmt, i, rnd, seed)
                                    setattr(s.owner, s.name, v)
                                else:
                                    getattr(s.owner, s.name)
                            except Exception as ex:
                                res.outcomes.add(("array-exc",
                                                  type(ex).__name__))
                    ok = mon.judge(dict(cj, opkind="mmap"), mon.new(),
                                   note="array variable access")
                    res.outcomes.add(("array", ok, sum(
                        1 for c, _ in sk.calls if c in (1, 2, 3, 4, 21))))
                    res.count("array_layouts")
        finally:
            sk.close_all()
        # ---- per-CPU map: read()
        for npos, non, _ in [p + (sp,) for p in [q[:2] for q in pcs]
                             for sp in range(3)]:
            res.count("evaluations")
            sk = simkernel.SimKernel(n_possible=npos, n_online=non)
            sk.possible_spelling = _
            mon = Monitor(sk, res)
            cj = dict(kind="percpu", layout=[list(p) for p in layout],
                      n_possible=npos, n_online=non, spelling=_,
                      possible=sk.possible_text())
            try:
                with sk.installed():
                    try:
                        case = c08.Case(layout, percpu=True)
                        case.b.finish(2)
                        case.e.load()
                    except Exception as ex:
                        res.outcomes.add(("percpu-rejected",
                                          type(ex).__name__))
                        continue
                    size = simkernel.round8(
                        list(sk.kernel.maps.values())[0].value_size)
                    for step in range(3):
                        try:
                            case.e.amap.read()
                            for s in case.slots:
                                var = getattr(s.owner, s.name)
                                for c in range(len(var)):
                                    var[c]
                            out = "ok"
                        except Exception as ex:
                            if isinstance(ex, core.Internal):
                                raise
                            out = type(ex).__name__
                        model = None
                        if npos > non:
                            model = (KF_PERCPU, dict(
                                cmd="MAP_LOOKUP_ELEM", need=size * npos,
                                have=size * non, what="value"))
                        ok = mon.judge(
                            dict(cj, opkind="read", step=step), mon.new(),
                            model, note=f"PerCPUReader.read() with {npos} "
                            f"possible and {non} online CPUs")
                        res.outcomes.add(("percpu", out, ok, npos > non))
                    res.nontrivial.add(core.digest(cj))
                    res.count("map_syscalls", 3)
            finally:
                sk.close_all()


# ------------------------------------------------------------------ Dict
def run_dict(cfg, res):
    holder = []

    def backend():
        be = c09.SimBackend()
        holder.append(be)
        holder.append(Monitor(be.sk, res))
        return be

    def on_edge(cj, st, op, r, seq):
        be, mon = holder
        res.count("evaluations")
        res.count("map_syscalls")
        c2 = dict(cj, opkind=op[0], op=list(op),
                  state=[list(x) for x in st], seq=[list(o) for o in seq])
        ok = mon.judge(c2, mon.new(), note=f"Dict {op} with "
                       f"{len(st)} entries in the map")
        res.outcomes.add(("dict", op[0], r[0], ok))
        res.nontrivial.add(core.digest([cj, [list(x) for x in st], op]))

    log = c09.explore_dict(cfg, 3, backend, None, None, python_only=True,
                           on_edge=on_edge)
    if log and log[0][0] == "rejected":
        res.outcomes.add(("dict-rejected", log[0][1]))


# ------------------------------------------------- many hash-map variables
def run_manyvars(item, res):
    """a HashMap with n variables (around the 256 boundary of the one-byte
    key); get / set of the first, the 255th, the 256th and the last one"""
    n, fmt = item
    picks = sorted({0, 1, 254, 255, 256, n - 1} & set(range(n)))
    ops = [(a, j) for j in picks for a in ("get", "set")]
    seqs = [(o,) for o in ops] + [(("set", j), ("get", k))
                                  for j in picks for k in picks]
    for seq in seqs:
        res.count("evaluations")
        sk = simkernel.SimKernel()
        mon = Monitor(sk, res)
        cj = dict(kind="manyvars", n=n, fmt=fmt, seq=[list(o) for o in seq])
        try:
            with sk.installed():
                M = HashMap()
                attrs = {"hmap": M}
                for j in range(n):
                    attrs[f"v{j}"] = M.globalVar(fmt, default=j % 3)
                b = c09.dsl.Builder(attrs, n_in=1, n_out=1, pv_area=c09.HDR)
                b.finish(2)
                e = b.e
                try:
                    e.load()
                    loaded = True
                except Exception as ex:
                    if isinstance(ex, (simkernel.SimTrap, core.Internal)):
                        raise
                    loaded = False
                    res.outcomes.add(("many-load", n, type(ex).__name__))
                ok = mon.judge(dict(cj, opkind="load"), mon.new(),
                               note=f"default initialisation of {n} hash-map "
                               "variables in load()")
                res.outcomes.add(("many-load", n >= 256, loaded, ok))
                if not loaded:
                    res.count("rejected_by_library")
                    return
                for i, op in enumerate(seq):
                    try:
                        if op[0] == "get":
                            getattr(e, f"v{op[1]}")
                        else:
                            setattr(e, f"v{op[1]}", 1)
                        out = "ok"
                    except Exception as ex:
                        if isinstance(ex, (simkernel.SimTrap, core.Internal)):
                            raise
                        out = type(ex).__name__
                    ok = mon.judge(
                        dict(cj, opkind=op[0], step=i, fmt=fmt), mon.new(),
                        note=f"{op[0]} of variable {op[1]} of {n} in one "
                        "hash map")
                    res.outcomes.add(("many", op[0], out, ok))
                res.count("map_syscalls", sum(
                    1 for c, _ in sk.calls if c in (1, 2, 3, 4, 21)))
                res.nontrivial.add(core.digest(cj))
        finally:
            sk.close_all()


# ------------------------------------------------- histories of two programs
# Who exists when, in one process.  After every step the whole repertoire of
# user-space operations of every program alive (or closed: EBPF.close() only
# gives up the program's descriptor, XDP.run() and register_sync_group() call
# it right after attaching and the maps stay in use) is issued again:
#   alive           P1, P2 loaded one after the other
#   close-then      P1 loaded, used, close()d; then P2 is created (descriptor
#                   numbers are recycled lowest first, as by the real kernel)
#   then-close      P1, P2 loaded, then P1 close()d
#   sibling         P2 is a second instance of P1's program class
#   siblings3       a second and a third instance of P1's program class
#   sibling-closed  the same, P1 close()d before P2 is created
#   reborn          P1 used, close()d and garbage-collected, then a second
#                   instance of its class
VARIANTS = ("alive", "close-then", "then-close", "sibling", "siblings3",
            "sibling-closed", "reborn")


class _Be:
    """what c09.DictCase wants of a backend"""
    def __init__(self, sk):
        self.sk = sk


def _pair(fmt, place="base"):
    return (fmt, place) if (fmt, place) in c08.PAIRS else None


def history_specs(ctx):
    """program kinds of the histories: small and large keys / values of
    every map type the library offers"""
    specs = [("hv", ("H", "q")), ("hv", (">I",)),
             ("dict", dict(key=("B",), value=("B",), size=31, lru=False)),
             ("dict", dict(key=("Q", "Q", "Q"), value=("q", "Q", "Q"),
                           size=31, lru=True))]
    small = _pair("B") or c08.PAIRS[0]
    big = _pair("64I") or _pair("5I") or c08.PAIRS[-1]
    two = tuple(p for p in (_pair("Q"), _pair("H", "derived")) if p)
    for kind in ("arr", "pcpu"):
        specs.append((kind, (small,)))
        specs.append((kind, (big,)))
        if not ctx.quick and len(two) == 2:
            specs.append((kind, two))
    if not ctx.quick:
        specs += [("hv", ("b", "!h", "Q")),
                  ("dict", dict(key=(">H", "B"), value=("!q",), size=2,
                                lru=False))]
    return specs


def spec_json(spec):
    if spec is None:
        return None
    kind, p = spec
    if kind == "dict":
        return [kind, dict(key=list(p["key"]), value=list(p["value"]),
                           size=p["size"], lru=p["lru"])]
    return [kind, [list(x) if isinstance(x, tuple) else x for x in p]]


def spec_from_json(j):
    if j is None:
        return None
    kind, p = j
    if kind == "dict":
        return kind, dict(key=tuple(p["key"]), value=tuple(p["value"]),
                          size=p["size"], lru=p["lru"])
    return kind, tuple(tuple(x) if isinstance(x, list) else x for x in p)


class Prog:
    """one loaded program of one kind and the user-space operations on its
    maps; sibling_of: one more instance of that Prog's program class"""

    def __init__(self, spec, sk, sibling_of=None):
        self.kind, p = self.spec = spec
        self.sk = sk
        before = set(sk.fds)
        if self.kind == "hv":
            if sibling_of is None:
                M = HashMap()
                attrs = {"hmap": M}
                for j, f in enumerate(p):
                    attrs[f"v{j}"] = M.globalVar(f, default=j)
                b = c09.dsl.Builder(attrs, n_in=1, n_out=1, pv_area=c09.HDR)
            else:
                b = c09.SiblingBuilder(sibling_of.b, sibling_of.preamble)
            self.preamble = c09.preamble_of(b.e)
            b.finish(2)
            b.e.load()
            self.b, self.e = b, b.e
        elif self.kind == "dict":
            self.case = c09.DictCase(
                p, _Be(sk), with_program=False,
                sibling_of=sibling_of.case if sibling_of else None)
            self.b, self.e = self.case.b, self.case.e
        else:
            if sibling_of is None:
                case = self.case = c08.Case(p, percpu=self.kind == "pcpu")
                self.preamble = c09.preamble_of(case.e)
                case.b.finish(2)
                case.e.load()
                self.b, self.e = case.b, case.e
                self.names = [(s.name, s.fmt) for s in case.slots
                              if s.owner is case.e]
                if len(self.names) != len(case.slots):
                    raise core.Internal("history layouts have no subprograms")
            else:
                b = c09.SiblingBuilder(sibling_of.b, sibling_of.preamble)
                self.preamble = sibling_of.preamble
                b.finish(2)
                b.e.load()
                self.b, self.e = b, b.e
                self.names = sibling_of.names
        self.maps = [sk.fds[fd][1] for fd in sorted(set(sk.fds) - before)
                     if sk.fds[fd][0] == "map"]

    def close(self):
        self.e.close()

    def drop(self):
        """forget the instance (the class stays)"""
        self.e = self.b.e = None
        if self.kind == "dict":
            self.case.e = None
        elif self.kind != "hv" and getattr(self, "case", None) is not None:
            self.case.e = None
            self.case = None
        gc.collect()

    def ops(self, seed=0):
        """-> [(label, callable)]: every user-space operation on the maps"""
        e, out = self.e, []
        if self.kind == "hv":
            for j, f in enumerate(self.spec[1]):
                out.append((f"get {f}", lambda j=j: getattr(e, f"v{j}")))
                for v in hv_set_values(f):
                    out.append((f"set {f}",
                                lambda j=j, v=v: setattr(e, f"v{j}", v)))
                out.append((f"get {f}", lambda j=j: getattr(e, f"v{j}")))
        elif self.kind == "dict":
            case = self.case
            allops = case.ops(python_only=True)
            order = [o for o in allops if o[0] == "pset"] + \
                [o for o in allops if case.readonly(o)] + \
                [o for o in allops if o[0] != "pset" and not case.readonly(o)]
            order += [("pset", 0, 0), ("pset", 1, 1), ("plist",)]
            for op in order:
                out.append((op[0], lambda op=op: self._dict_op(op)))
        elif self.kind == "arr":
            for i, (name, f) in enumerate(self.names):
                v, _ = c08.py_value(f, i, 0, seed)
                out.append((f"set {f}", lambda n=name, v=v: setattr(e, n, v)))
                out.append((f"get {f}", lambda n=name: getattr(e, n)))
        else:
            def read():
                e.amap.read()
                for name, f in self.names:
                    var = getattr(e, name)
                    for c in range(len(var)):
                        var[c]
            out += [("read", read), ("read", read)]
        return out

    def _dict_op(self, op):
        r = self.case.apply(op)
        if r[0] == "exc":
            raise _Refused(r[1])


class _Refused(Exception):
    """the library answered a Dict operation with an exception"""


def run_history(item, res):
    s1, s2, variant, (npos, non) = item
    res.count("evaluations")
    res.count("histories")
    sk = simkernel.SimKernel(n_possible=npos, n_online=non)
    sk.overrun_limit = 200
    mon = Monitor(sk, res)
    cj = dict(kind="history", first=spec_json(s1), second=spec_json(s2),
              variant=variant, n_possible=npos, n_online=non)
    phase = [0]

    def judge(what, who, prog=None, opkind=None):
        model = None
        if prog is not None and prog.kind == "pcpu" and npos > non and \
                what == "read" and prog.maps:
            size = simkernel.round8(prog.maps[0].value_size)
            model = (KF_PERCPU, dict(cmd="MAP_LOOKUP_ELEM", need=size * npos,
                                     have=size * non, what="value"))
        return mon.judge(dict(cj, opkind=opkind or what, who=who,
                              phase=phase[0]), mon.new(), model,
                         note=f"{what} on the {who} program "
                         f"({variant}, step {phase[0]})")

    def make(spec, who, sibling_of=None):
        phase[0] += 1
        try:
            p = Prog(spec, sk, sibling_of)
        except Exception as ex:
            if isinstance(ex, (simkernel.SimTrap, core.Internal)):
                raise
            res.outcomes.add(("history-rejected", spec[0], who,
                              type(ex).__name__))
            p = None
        ok = judge("creation and load()", who, opkind="load")
        res.outcomes.add(("history-load", spec[0], who, p is not None, ok))
        return p

    def use(prog, who):
        phase[0] += 1
        for label, fn in prog.ops():
            try:
                fn()
                out = "ok"
            except Exception as ex:
                if isinstance(ex, (simkernel.SimTrap, core.Internal)):
                    raise
                out = str(ex) if isinstance(ex, _Refused) \
                    else type(ex).__name__
            ok = judge(label, who, prog, opkind=label.split()[0])
            res.outcomes.add(("history", prog.kind, who, label.split()[0],
                              out, ok))

    def close(prog):
        phase[0] += 1
        try:
            prog.close()
        except Exception as ex:
            if isinstance(ex, (simkernel.SimTrap, core.Internal)):
                raise
            res.outcomes.add(("history-close", prog.kind, type(ex).__name__))

    try:
        with sk.installed():
            p1 = make(s1, "first")
            if p1 is None:
                return
            if variant == "alive":
                use(p1, "first")
                p2 = make(s2, "second")
                if p2:
                    use(p2, "second")
                use(p1, "first")
            elif variant == "close-then":
                use(p1, "first")
                close(p1)
                p2 = make(s2, "second")
                use(p1, "closed first")
                if p2:
                    use(p2, "second")
                use(p1, "closed first")
            elif variant == "then-close":
                p2 = make(s2, "second")
                close(p1)
                use(p1, "closed first")
                if p2:
                    use(p2, "second")
                    close(p2)
                    use(p2, "closed second")
                use(p1, "closed first")
            elif variant == "sibling":
                p2 = make(s1, "second instance", sibling_of=p1)
                use(p1, "first")
                if p2:
                    use(p2, "second instance")
                use(p1, "first")
            elif variant == "siblings3":
                p2 = make(s1, "second instance", sibling_of=p1)
                p3 = make(s1, "third instance", sibling_of=p1)
                for p, who in ((p1, "first"), (p2, "second instance"),
                               (p3, "third instance"), (p1, "first"),
                               (p2, "second instance")):
                    if p:
                        use(p, who)
            elif variant == "sibling-closed":
                use(p1, "first")
                close(p1)
                p2 = make(s1, "second instance", sibling_of=p1)
                use(p1, "closed first")
                if p2:
                    use(p2, "second instance")
                use(p1, "closed first")
            elif variant == "reborn":
                use(p1, "first")
                close(p1)
                p1.drop()
                p2 = make(s1, "second instance", sibling_of=p1)
                if p2:
                    use(p2, "second instance")
            else:
                raise core.Internal(f"unknown history {variant}")
            n = sum(1 for c, _ in sk.calls if c in (1, 2, 3, 4, 21))
            res.count("map_syscalls", n)
            if n:
                res.nontrivial.add(core.digest(cj))
            if variant == "close-then" and s1[0] == "pcpu":
                res.sample(dict(cj, map_syscalls=n), limit=2)
    finally:
        sk.close_all()


def history_items(ctx, pcs):
    specs = history_specs(ctx)
    cpus = [(a, b) for a, b, _ in pcs]
    out = []
    for s1 in specs:
        for variant in VARIANTS:
            seconds = [None] if variant in ("sibling", "siblings3",
                                            "sibling-closed",
                                            "reborn") else specs
            for s2 in seconds:
                percpu = s1[0] == "pcpu" or (s2 and s2[0] == "pcpu")
                for pc in (cpus if percpu else cpus[:1]):
                    out.append((s1, s2, variant, pc))
    return out


def work(item, res):
    kind, payload = item
    if kind == "many":
        return run_manyvars(payload, res)
    if kind == "hist":
        return run_history(payload, res)
    if kind == "hv":
        run_hashvars(payload, res)
    elif kind == "arr":
        run_arrays(payload, res)
    else:
        run_dict(payload, res)


def hv_items(ctx):
    items = [((f,), (d,)) for f in HV_FORMATS for d in (0, 5)]
    pairs = [(HV_FORMATS[i], HV_FORMATS[(i + s) % 9])
             for i in range(9) for s in ((2,) if ctx.quick else (1, 2, 4))]
    items += [(p, (5, 0)) for p in pairs]
    items += [((f,), (d,)) for f in HV_XFORMATS for d in (0, 5)]
    n = len(HV_XFORMATS)
    xpairs = [(HV_XFORMATS[i], (HV_XFORMATS + HV_FORMATS)[(i + s) % (n + 9)])
              for i in range(n) for s in ((3,) if ctx.quick else (1, 3, 9))]
    items += [(p, (5, 0)) for p in xpairs]
    return items


def run(ctx):
    st = simkernel.selftest_once()
    pcs = c08.percpu_configs(ctx)
    items = [("hv", it) for it in hv_items(ctx)]
    kmax = 2 if ctx.quick else 3
    for k in range(1, kmax + 1):
        for p in c08.prefixes(k):
            items.append(("arr", (k, p, ctx.seed, pcs)))
    for cfg in c09.dict_configs(ctx) + c09.dict_inherit_configs(ctx):
        items.append(("dict", cfg))
    for n in (255, 256, 257) if ctx.quick else (254, 255, 256, 257, 300, 513):
        for fmt in ("Q",) if ctx.quick else ("Q", "b"):
            items.append(("many", (n, fmt)))
    items += [("hist", h) for h in history_items(ctx, pcs)]
    items.sort(key=lambda it: {"arr": 0, "dict": 1, "hv": 2, "many": 1,
                               "hist": 3}[it[0]])
    res = core.pmap(ctx, work, items, chunk=2)
    res.cov.pop("_sigs", None)
    res.cov["states"] = len(res.nontrivial)
    res.cov["transitions"] = res.cov.get("map_syscalls", 0)
    res.cov["traces_validated_against_impl"] = res.cov.get("evaluations", 0)
    res.cov["simkernel_selftest"] = st
    res.cov["bound_completed"] = 3
    res.cov["percpu_configs"] = [(a, b) for a, b, _ in pcs]
    res.sample(dict(kind="hashvars", fmts=["h"], defaults=[5],
                    seq=[["set", 0, -32768], ["get", 0]]))
    res.assumptions += [
        "the kernel's accesses are those of the simulated kernel: key_size "
        "bytes of key / next key, value_size bytes of value, for per-CPU "
        "arrays round_up(value_size, 8) x possible CPUs; the size of the "
        "value buffer is checked for every lookup, found or not",
        "'more possible than online CPUs' is simulated by a map with "
        "n_possible CPUs while os.cpu_count() as seen by ebpfcat.arraymap "
        "returns the online number",
        "Dict keys / values whose Structure class derives from another "
        "Structure class: the map is created with the derived class's size "
        "(Dict.init), so that is what every buffer of an operation on it "
        "must cover, whichever class of the chain was instantiated first "
        "in the process and however few members of the instance were "
        "assigned; an operation the library refuses with an exception "
        "before any system call is no overrun",
        "array-map variables are accessed through the mapped memory only; "
        "the check confirms that no map system call is issued for them",
        "reading and writing a program's maps from Python stays legal after "
        "EBPF.close() (XDP.run() and FastEtherCat.register_sync_group() "
        "close right after attaching, ebpfcat/examples/percpu.py reads "
        "afterwards); descriptor numbers are recycled lowest first like the "
        "real kernel's, a descriptor closed by the library gives EBADF, "
        "which is a clean failure and no overrun"]
    return res


def replay(ctx, rep):
    res = core.Result()
    res.nocap = True
    c = rep["case"]
    if c["kind"] == "hashvars":
        fmts, defaults = tuple(c["fmts"]), tuple(c["defaults"])
        run_hashvars((fmts, defaults), res)
        want = c["seq"]
        out = [v for v in res.violations if v["case"]["seq"] == want
               and v["case"].get("step") == c.get("step")]
    elif c["kind"] == "manyvars":
        run_manyvars((c["n"], c["fmt"]), res)
        out = [v for v in res.violations if v["case"]["seq"] == c["seq"]
               and v["case"].get("step") == c.get("step")]
    elif c["kind"] in ("array", "percpu"):
        layout = tuple(tuple(p) for p in c["layout"])
        idx = [c08.PAIRS.index(p) for p in layout]
        run_arrays((len(layout), tuple(idx), rep.get("seed", 0),
                    c08.percpu_configs(ctx)), res)
        out = [v for v in res.violations
               if v["case"]["kind"] == c["kind"] and
               v["case"].get("n_possible") == c.get("n_possible")]
    elif c["kind"] == "history":
        run_history((spec_from_json(c["first"]), spec_from_json(c["second"]),
                     c["variant"], (c["n_possible"], c["n_online"])), res)
        out = [v for v in res.violations
               if (v["case"].get("opkind"), v["case"].get("who"),
                   v["case"].get("phase")) ==
               (c.get("opkind"), c.get("who"), c.get("phase"))]
    else:
        run_dict(c09.dict_cfg_of(c), res)
        out = [v for v in res.violations
               if v["case"].get("op") == c.get("op")]
    for v in out[:5]:
        print("  ", core.jsonable(v["case"]), "->", v["observed"])
    return out
