# table of claimed checks; exec'd by gen_manifest.py
HOOK_COMMITS = []
NOT_APPLICABLE = {}
NOTES = ("All checks are bounded exhaustive explorations driving the real "
         "ebpfcat code (or the bytecode it generated); see DESIGN.md. "
         "Exit codes: 0 held, 1 VIOLATION, 2 INTERNAL (harness problem). "
         "known_findings.jsonl lists genuine defects kept as findings.")

check("C11", "explore",
      "exhaustive enumeration of datagram sequences, independent frame parser",
      "Every datagram sequence over the stated alphabet (all 15 commands, 7 "
      "address shapes, data lengths 0..1473 at depth 1; 40-54 datagram kinds "
      "at depth 2-4 including exactly-fitting and just-too-large datagrams; "
      "13-17 datagram count-limit sequences) is fed to the real "
      "Packet/SterilePacket and the assembled bytes are parsed and compared "
      "with an independent serialiser. Exhaustive within the alphabet.",
      "Trusted: mc/ecparse.py (independent parser), struct. Count limit "
      "taken as 15 user datagrams as in the code.")
