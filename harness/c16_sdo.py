"""C16 - SDO transfers carry values byte-for-byte.

The real Terminal.sdo_write / sdo_read / mbx_send / mbx_recv run over the real
roundtrip stack on the virtual loop against an ESC model whose mailbox is
served by the ETG.1000.6 SDO server of mc/coe.py.  Enumerated: mailbox sizes
(out and in), every value length up to first-segment capacity + 2 full
segments + 8, addressing with subindex / complete access, the freedoms a
conformant server has (expedited or normal response for <= 4 bytes, short
segments), and - by deviation-bounded search - the latency of every response
and one unrelated mail (CoE emergency / EoE) queued before a response.

Terminals that refuse a transfer: per entry an access right from
{read-write, write-only, not readable in the present state, read-only,
absent subindex}.  An upload / download the terminal answers with an SDO abort
request (command 4) must not end as if it had worked: sdo_read must not hand
out a value, sdo_write must not return.

Known defects are identified by *defect models*: each known finding owns the
minimal source repair of one defect (applied to an in-memory copy of
ebpfcat/ethercat.py, never to /repo).  A failing execution is attributed to
the set S of findings only if (a) every member of S, switched on in turn,
changed the observation and (b) with S repaired the same execution satisfies
the complete oracle.  Everything else is a fresh violation.
"""
import asyncio
import difflib
import os
import re
import sys
import types

from mc import bussim, coe, core, explore, vloop

import ebpfcat.ethercat as ecmod

PROP = "C16"
LEVEL = "model_checking"
RULE = ("direction x addressing (subindex / complete access) x out mailbox "
        "x in mailbox sizes from {24,32,64,128} x every value length 0.."
        "first-segment capacity + 2 full segments + 8 x server style x "
        "(bounded) response latencies and one unrelated mail before any "
        "response; plus the same grid for entries that refuse the transfer "
        "(upload: write-only / not readable in this state / absent subindex; "
        "download: read-only / absent subindex; aborted complete access: "
        "downloads, and uploads of empty objects only); "
        "non-trivial = the transfer needed more than one mailbox "
        "message or carried > 4 bytes; distinct = distinct (case, choices)")

OUT_OFF, IN_OFF = 0x1000, 0x1100
SIZES = (24, 32, 64, 128)
IDX, SUB, CA_IDX = 0x2000, 3, 0x3000
VAR_IDX = 0x2100
NEIGHBOUR = b"neighbour-entry!"

# ways a conformant terminal refuses a transfer: access right of the entry
# -> (direction it refuses, SDO abort code it answers with)
REFUSALS = {
    "wo": ("r", coe.AB_WRITEONLY),        # write-only entry
    "state": ("r", coe.AB_STATE),         # not readable in the present state
    "ro": ("w", coe.AB_READONLY),         # read-only entry
    "absent": ("rw", coe.AB_NO_SUBINDEX),  # the object has no such subindex
}


# ------------------------------------------------------------------ repairs
def _sub(old, new, count=1):
    def f(src):
        if src.count(old) != count:
            return None
        return src.replace(old, new)
    return f


def _chain(*fs):
    def f(src):
        for g in fs:
            src = g(src)
            if src is None:
                return None
        return src
    return f


def _resub(pattern, repl, count):
    def f(src):
        out, n = re.subn(pattern, repl, src)
        return out if n == count else None
    return f


FIX_TRIGGER = _sub(
    "        await self.write(self.mbx_out_off + self.mbx_out_sz - 1, data=1)\n",
    "        if 6 + datasize(args, data) < self.mbx_out_sz:\n"
    "            await self.write(self.mbx_out_off + self.mbx_out_sz - 1,\n"
    "                             data=1)\n")

FIX_LEN0 = _sub(
    "        if len(data) <= 4 and subindex is not None:\n",
    "        if 0 < len(data) <= 4 and subindex is not None:\n")

FIX_SIZE0 = _chain(
    _sub('                        MBXType.COE, "HBHB4x", '
         'CoECmd.SDOREQ.value << 12,\n'
         '                        ODCmd.DOWN_INIT_CA.value if subindex is None\n',
         '                        MBXType.COE, "HBHBI", '
         'CoECmd.SDOREQ.value << 12,\n'
         '                        ODCmd.DOWN_INIT_CA.value if subindex is None\n'),
    _sub("                        index, 1 if subindex is None else subindex,\n"
         "                        data=data[:stop])\n",
         "                        index, 1 if subindex is None else subindex,\n"
         "                        len(data), data=data[:stop])\n"))

FIX_CA_COMPARE = _sub(
    "                if idx != index or subindex != subidx:\n"
    '                    raise EtherCatError(f"requested index {index}, '
    'got {idx}")\n',
    "                if idx != index or subidx != (\n"
    "                        1 if subindex is None else subindex):\n"
    '                    raise EtherCatError(f"requested index {index}, '
    'got {idx}")\n')

FIX_CLOBBER = _sub(
    "data=data[:stop])\n"
    "                type, data = await self.mbx_recv()\n"
    "                if type is not MBXType.COE:\n"
    '                    raise EtherCatError(f"expected CoE, got {type}")\n'
    '                coecmd, sdocmd, idx, subidx = unpack("<HBHB", data[:6])\n',
    "data=data[:stop])\n"
    "                type, rdata = await self.mbx_recv()\n"
    "                if type is not MBXType.COE:\n"
    '                    raise EtherCatError(f"expected CoE, got {type}")\n'
    '                coecmd, sdocmd, idx, subidx = unpack("<HBHB", rdata[:6])\n')

FIX_SEGMENTS = _sub(
    "                    if stop == len(data):\n"
    "                        if stop - start < 7:\n"
    "                            cmd = 1 + (7-stop+start << 1)\n"
    '                            d = data[start:stop] + b"\\0" * '
    "(7 - stop + start)\n"
    "                        else:\n"
    "                            cmd = 1\n"
    "                            d = data[start:stop]\n"
    "                        await self.mbx_send(\n"
    '                                MBXType.COE, "HBHB4x", '
    "CoECmd.SDOREQ.value << 12,\n"
    "                                cmd + toggle, index,\n"
    "                                1 if subindex is None else subindex, "
    "data=d)\n"
    "                        type, data = await self.mbx_recv()\n"
    "                        if type is not MBXType.COE:\n"
    '                            raise EtherCatError(f"expected CoE, got '
    '{type}")\n'
    '                        coecmd, sdocmd, idx, subidx = unpack("<HBHB", '
    "data[:6])\n"
    "                        if coecmd >> 12 != CoECmd.SDORES.value:\n"
    '                            raise EtherCatError(f"expected CoE SDORES")\n'
    "                        if idx != index or subindex != subidx:\n"
    '                            raise EtherCatError(f"requested index '
    '{index}")\n',
    "                    d = data[start:stop]\n"
    "                    cmd = 1 if stop == len(data) else 0\n"
    "                    if len(d) < 7:\n"
    "                        cmd += 7 - len(d) << 1\n"
    '                        d += b"\\0" * (7 - len(d))\n'
    "                    await self.mbx_send(\n"
    '                            MBXType.COE, "HB", '
    "CoECmd.SDOREQ.value << 12,\n"
    "                            cmd + toggle, data=d)\n"
    "                    type, rdata = await self.mbx_recv()\n"
    "                    if type is not MBXType.COE:\n"
    '                        raise EtherCatError(f"expected CoE, got {type}")\n'
    '                    coecmd, sdocmd = unpack("<HB", rdata[:3])\n'
    "                    if coecmd >> 12 != CoECmd.SDORES.value:\n"
    '                        raise EtherCatError(f"expected CoE SDORES")\n'
    "                    if sdocmd != 0x20 + toggle:\n"
    "                        raise EtherCatError(\n"
    '                            f"unexpected segment response {sdocmd:x}")\n')

FIX_UP_LIST = _sub("                ret += data[3:]\n",
                   "                ret.append(data[3:])\n")

FIX_UP_SHORT = _sub(
    "                if sdocmd & 1 and len(data) == 7:\n"
    "                    data = data[:3 + (sdocmd >> 1) & 7]\n",
    "                if len(data) == 10:\n"
    "                    data = data[:10 - ((sdocmd >> 1) & 7)]\n")

FIX_MAIL = _chain(
    _resub(r"(?m)^(\s+type, r?data) = await self\.mbx_recv\(\)$",
           r"\1 = await self.coe_recv()", 6),
    _sub("    async def coe_request(self, coecmd, odcmd, *args, **kwargs):\n",
         "    async def coe_recv(self):\n"
         '        """receive the next CoE mail that is not an emergency"""\n'
         "        while True:\n"
         "            type, data = await self.mbx_recv()\n"
         "            if type is MBXType.COE and len(data) >= 2 \\\n"
         "                    and data[1] >> 4 != CoECmd.EMERGENCY.value:\n"
         "                return type, data\n"
         '            logging.warning(f"skipped unrelated mail {type}, "\n'
         '                            f"for terminal {self.name}")\n'
         "\n"
         "    async def coe_request(self, coecmd, odcmd, *args, **kwargs):\n"))


# id -> (repair, matcher over the case, what)
KF = {
    "C16-mbx-full-trigger": (
        FIX_TRIGGER, lambda c: True,
        "mbx_send: a mail that fills the write mailbox completely (6 + "
        "length == mailbox size, e.g. the first message of every segmented "
        "download) is followed by the one-byte 'trigger' write to the end "
        "address, which a sync manager denies (buffer not entered through "
        "its start address): EtherCatError('datagram was not processed')"),
    "C16-down-expedited-len0": (
        FIX_LEN0, lambda c: c["dir"] == "w" and c["L"] == 0 and not c["ca"],
        "sdo_write(b'', index, subindex) is sent as an expedited download "
        "of 4 zero bytes instead of a normal download of size 0"),
    "C16-down-normal-size0": (
        FIX_SIZE0, lambda c: c["dir"] == "w" and (c["L"] > 4 or c["ca"]),
        "sdo_write of more than 4 bytes (or complete access): the download "
        "initiate request carries complete size 0 ('4x'); a conformant "
        "server aborts with 0x06070010, sdo_write raises EtherCatError"),
    "C16-down-ca-subindex": (
        FIX_CA_COMPARE, lambda c: c["dir"] == "w" and c["ca"],
        "sdo_write(..., subindex=None) compares the response's subindex "
        "with None: every complete-access download raises EtherCatError "
        "although the terminal stored the value"),
    "C16-down-data-clobbered": (
        FIX_CLOBBER,
        lambda c: c["dir"] == "w" and (c["L"] > 4 or c["ca"] or c["L"] == 0),
        "sdo_write normal download: the response overwrites the local "
        "`data`, so the segment loop runs over the 10 response bytes: "
        "values of < 10 bytes are followed by a bogus segment (abort, "
        "EtherCatError); longer values that need segments return without "
        "sending any (silent truncation)"),
    "C16-down-segments": (
        FIX_SEGMENTS,
        lambda c: c["dir"] == "w" and c["L"] > c["out"] - 16,
        "sdo_write segmented download: only the last segment is sent, in "
        "the layout of an initiate request (index/subindex/4 bytes before "
        "the data, so the mail exceeds the mailbox), and the segment "
        "response is parsed as an initiate response"),
    "C16-up-segments-list": (
        FIX_UP_LIST,
        lambda c: c["dir"] == "r",
        "sdo_read segmented upload: `ret += data[3:]` extends the list "
        "with ints, b''.join raises TypeError for every value that needs a "
        "segment"),
    "C16-up-short-segment": (
        FIX_UP_SHORT,
        lambda c: c["dir"] == "r",
        "sdo_read segmented upload: a segment of fewer than 7 bytes is "
        "not trimmed (length test `== 7` against a 10-byte mail, operator "
        "precedence, size field read as length): EtherCatError 'expected n "
        "bytes, got m'"),
    "C16-unrelated-mail": (
        FIX_MAIL, lambda c: True,
        "an unrelated mail queued before an SDO response (CoE emergency "
        "anywhere; any mail before a download response or an upload "
        "segment) is taken for the response: EtherCatError"),
}
ORDER = list(KF)

_VARIANTS = {}
_SOURCE = [None]


def source():
    if _SOURCE[0] is None:
        with open(ecmod.__file__) as f:
            _SOURCE[0] = f.read()
    return _SOURCE[0]


def patched_source(fixes):
    """-> (source, ids that could be applied)"""
    src, applied = source(), []
    for k in ORDER:
        if k in fixes:
            s2 = KF[k][0](src)
            if s2 is not None:
                src = s2
                applied.append(k)
    return src, applied


def variant(fixes):
    """the ethercat module with the repairs of `fixes` (a tuple of ids)"""
    fixes = tuple(k for k in ORDER if k in fixes)
    if not fixes:
        return ecmod
    if fixes not in _VARIANTS:
        src, applied = patched_source(fixes)
        if tuple(applied) != fixes:
            _VARIANTS[fixes] = None
        else:
            mod = types.ModuleType("ebpfcat.ethercat_" + core.digest(fixes))
            mod.__package__ = "ebpfcat"
            mod.__file__ = "<ethercat+%s>" % "+".join(fixes)
            exec(compile(src, mod.__file__, "exec"), mod.__dict__)
            _VARIANTS[fixes] = mod
    return _VARIANTS[fixes]


def proposed_diff():
    src, applied = patched_source(ORDER)
    return "".join(difflib.unified_diff(
        source().splitlines(True), src.splitlines(True),
        "a/ebpfcat/ethercat.py", "b/ebpfcat/ethercat.py")), applied


# ------------------------------------------------------------------ cases
def payload(n, seed, salt):
    return bytes((i * 7 + 1 + 13 * seed + salt) & 0xff for i in range(n))


def objects(case):
    n, seed = case["L"], case["seed"]
    old = payload(n, seed, 0x80)
    h1 = (n + 1) // 2
    return {(IDX, SUB): old, (CA_IDX, 0): b"\2", (CA_IDX, 1): old[:h1],
            (CA_IDX, 2): old[h1:],
            # a variable whose value lives at subindex 0, with a neighbour
            (VAR_IDX, 0): old, (VAR_IDX, 1): NEIGHBOUR}


def address(case):
    if case["ca"]:
        return CA_IDX, None
    if case.get("sub0"):
        return VAR_IDX, 0
    return IDX, SUB


def restrict(case, server):
    """give the addressed entry the access right case["acc"]"""
    acc = case.get("acc")
    if acc is None:
        return
    index, sub = address(case)
    entries = [(CA_IDX, 1), (CA_IDX, 2)] if case["ca"] else [(index, sub)]
    if acc == "wo":
        server.writeonly.update(entries)
    elif acc == "state":
        for e in entries:
            server.upload_refused[e] = coe.AB_STATE
    elif acc == "ro":
        server.readonly.update(entries)
    elif acc == "absent" and not case["ca"]:
        # the value lives in the next subindex, the addressed one is a gap
        value = server.objects.pop((index, sub))
        server.objects.setdefault((index, sub + 1), value)
    else:
        raise core.Internal(f"unknown access right {acc!r}")


def execute(ch, case, mod, k):
    """one execution on the real code -> observation (plain data)"""
    loop = vloop.VLoop()
    with loop:
        t = bussim.Terminal("t", station=7)
        coe.configure_mailbox(t, OUT_OFF, case["out"], IN_OFF, case["in"])
        coe.esc_mailbox_rules(t)
        server = coe.SdoServer(objects(case))
        restrict(case, server)
        before = dict(server.objects)
        if case["style"] == 1:
            server.expedited_upload = False
            server.upload_chunk = 7
        injected = []

        def handler(term, msg):
            n = server.requests
            if not injected:
                c = ch.choose(3, "mail")
                if c:
                    injected.append((n, c))
                    server.inject[n] = [coe.emergency_mail() if c == 1
                                        else coe.eoe_mail()]
            return server(term, msg)

        def latency(term):
            return ch.choose(k + 1, "latency", list(range(k + 1)))
        t.mbx_handler = handler
        t.mbx_latency = latency
        m = bussim.Master(bussim.Bus([t]), lambda: mod.EtherCat("sim"), loop)
        term = mod.Terminal(m.ec)
        term.position = 7
        term.mbx_lock = m.ec.get_mbx_lock(7)
        term.mbx_out_off, term.mbx_out_sz = OUT_OFF, case["out"]
        term.mbx_in_off, term.mbx_in_sz = IN_OFF, case["in"]
        new = payload(case["L"], case["seed"], 0)
        index, sub = address(case)
        if case["dir"] == "w":
            coro = term.sdo_write(new, index, sub)
        else:
            coro = term.sdo_read(index, sub)
        fut = asyncio.ensure_future(coro)
        done = m.run(fut, max_frames=4000)
        result = None
        if not done:
            outcome = ("pending",)
        elif fut.exception() is not None:
            e = fut.exception()
            outcome = ("raise", type(e).__name__, str(e)[:80])
        else:
            outcome = ("return",)
            result = fut.result()
        held = server.ca_value(CA_IDX, 1) if case["ca"] \
            else server.objects.get((index, sub), b"")
        neighbour = bytes(server.objects[VAR_IDX, 1])
        lo, hi = OUT_OFF, OUT_OFF + case["out"]
        beyond = [(a, len(d)) for a, d in t.write_log
                  if a < hi and a + len(d) > lo and (a < lo or
                                                     a + len(d) > hi)]
        obs = dict(
            outcome=outcome,
            result=None if result is None else (
                type(result).__name__,
                bytes(result).hex() if isinstance(result, (bytes, bytearray))
                else repr(result)[:80]),
            held=held.hex(),
            neighbour_ok=neighbour == NEIGHBOUR,
            unchanged=server.objects == before,
            errors=[list(e) for e in server.protocol_errors],
            aborts=[list(a) for a in server.aborts],
            toggles=list(server.toggles),
            open_transfer=server.xfer is not None,
            denied=[(a, d.hex()) for a, d in t.sm_denied],
            beyond=beyond,
            mails_in=[b.hex() for d, b in t.mbx_log if d == "in"],
            mails_out=len([1 for d, b in t.mbx_log if d == "out"]),
            injected=list(injected),
            frames=m.frames)
        loop.shutdown()
    return obs


def judge(case, obs):
    """the oracle of the property statement -> list of (what, exp, seen)"""
    bad = []
    new = payload(case["L"], case["seed"], 0).hex()
    old = payload(case["L"], case["seed"], 0x80).hex()
    if obs["beyond"]:
        bad.append(("mailbox write exceeds the mailbox",
                    f"writes within {case['out']} bytes", obs["beyond"]))
    for mh in obs["mails_in"]:
        b = bytes.fromhex(mh)
        ln = int.from_bytes(b[:2], "little")
        if ln + 6 > case["out"]:
            bad.append(("mail longer than the mailbox",
                        f"6 + length <= {case['out']}", ln + 6))
            break
    if obs["denied"]:
        bad.append(("mailbox access denied by the sync manager",
                    "buffer entered through its start address",
                    obs["denied"]))
    if obs["errors"]:
        bad.append(("request violates the SDO protocol", [], obs["errors"]))
    if case.get("acc"):
        return bad + judge_refused(case, obs, old)
    if obs["aborts"]:
        bad.append(("terminal aborted the transfer", [],
                    [[a[0], a[1], hex(a[2])] for a in obs["aborts"]]))
    if obs["toggles"] != [i % 2 for i in range(len(obs["toggles"]))]:
        bad.append(("toggle bits do not alternate from 0", "0,1,0,..",
                    obs["toggles"]))
    if obs["outcome"] != ("return",):
        bad.append(("transfer did not complete", ("return",),
                    obs["outcome"]))
    if obs["open_transfer"]:
        bad.append(("terminal still waits for segments", "transfer finished",
                    "open"))
    if not obs.get("neighbour_ok", True):
        bad.append(("another entry of the object changed", "untouched",
                    "changed"))
    if case["dir"] == "w":
        if obs["held"] != new:
            bad.append(("terminal does not hold the written bytes", new,
                        obs["held"]))
    else:
        if obs["held"] != old:
            bad.append(("upload changed the object", old, obs["held"]))
        if obs["outcome"] == ("return",) and obs["result"] != ("bytes", old):
            bad.append(("sdo_read result differs from the terminal's bytes",
                        ("bytes", old), obs["result"]))
    return bad


def judge_refused(case, obs, old):
    """the terminal answered the initiate request with an SDO abort: the
    call must not end as if the transfer had taken place"""
    bad = []
    index, sub = address(case)
    want = [[index, 1 if sub is None else sub, REFUSALS[case["acc"]][1]]]
    if obs["aborts"] != want:
        # the model's own business: exactly the refusal, nothing else
        bad.append(("terminal did not just refuse the transfer",
                    [[a, b, hex(c)] for a, b, c in want],
                    [[a[0], a[1], hex(a[2])] for a in obs["aborts"]]))
    if obs["toggles"]:
        bad.append(("segments after the transfer was aborted", [],
                    obs["toggles"]))
    if obs["open_transfer"]:
        bad.append(("terminal still waits for segments", "no transfer",
                    "open"))
    if not obs["unchanged"] or not obs.get("neighbour_ok", True):
        bad.append(("a refused transfer changed the dictionary", "untouched",
                    "changed"))
    if obs["outcome"] == ("return",):
        if case["dir"] == "w":
            bad.append(("sdo_write returned although the terminal aborted "
                        "the download", "an exception", obs["result"]))
        elif case["acc"] != "absent" and old == "" \
                and obs["result"] == ("bytes", ""):
            pass    # the refused entry / object is empty: b"" is its value
        else:
            bad.append(("sdo_read returned a value although the terminal "
                        "aborted the upload", "an exception", obs["result"]))
    return bad


def symptom(obs):
    return core.digest([obs["outcome"], obs["held"], obs["errors"],
                        obs["aborts"], obs["toggles"], obs["denied"],
                        obs["beyond"], obs["mails_in"], obs["result"],
                        obs["open_transfer"]], 16)


def coarse(case, obs, bad):
    """memo key for attributions: case class + kind of first failure"""
    out, inn, L = case["out"], case["in"], case["L"]
    cap = (out if case["dir"] == "w" else inn) - 16
    seg = (out if case["dir"] == "w" else inn) - 9
    if case["style"] == 1:
        cap = seg = 7
    if L <= 4:
        cls = ("small", L)
    elif L < 10:
        cls = ("lt10", L <= cap)
    elif L <= cap:
        cls = ("fits", L == cap)
    else:
        rest = L - cap
        cls = ("seg", min(3, -(-rest // seg)), rest % seg == 0,
               0 < rest % seg < 7)
    return (case["dir"], case["ca"], case.get("acc"), out, inn,
            case["style"], cls,
            tuple(tuple(i) for i in obs["injected"]),
            re.sub(r"\d+", "#", repr(obs["outcome"])),
            tuple(w for w, _, _ in bad))


class Attributor:
    """defect-model attribution with a per-worker memo"""

    def __init__(self, k):
        self.k = k
        self.memo = {}
        self.runs = 0

    def run(self, case, choices, fixes):
        mod = variant(fixes)
        if mod is None:
            return None
        self.runs += 1
        ch = explore.Chooser(tuple(choices))
        try:
            return execute(ch, case, mod, self.k)
        except explore.Diverged:
            return "diverged"

    def attribute(self, case, choices, obs, bad):
        """-> tuple of ids (complete explanation) or None"""
        key = coarse(case, obs, bad)
        if key in self.memo:
            s = self.memo[key]
            if s is None:
                return None
            o = self.run(case, choices, s)
            if isinstance(o, dict) and not judge(case, o):
                return s
        s = self.search(case, choices, obs)
        self.memo[key] = s
        return s

    def search(self, case, choices, obs):
        S = ()
        cur = obs
        for _ in range(len(ORDER) + 1):
            if isinstance(cur, dict) and not judge(case, cur):
                return S
            step = None
            for k in ORDER:
                if k in S or not KF[k][1](case):
                    continue
                o = self.run(case, choices, S + (k,))
                if o is None or o == "diverged":
                    continue
                if symptom(o) != symptom(cur):
                    step = (k, o)
                    break
            if step is None:
                return None
            S = tuple(x for x in ORDER if x in S + (step[0],))
            cur = step[1]
        return None


# ------------------------------------------------------------------ driving
def lengths(ctx, size):
    top = (size - 16) + 2 * (size - 9) + 8
    return list(range(0, top + 1))


def boundary(size, L):
    cap, seg = size - 16, size - 9
    marks = [0, 4, 10, cap, cap + seg, cap + 2 * seg, cap + 7]
    return L <= 12 or any(abs(L - m) <= 2 for m in marks)


def cases(ctx):
    out = []
    for d in "wr":
        for ca in (False, True):
            for a in SIZES:             # the mailbox carrying the data
                others = SIZES if not ctx.quick else \
                    sorted({a, SIZES[(SIZES.index(a) + 1 + ctx.seed) % 4]})
                for b in others:
                    o, i = (a, b) if d == "w" else (b, a)
                    for L in lengths(ctx, a):
                        styles = (0, 1) if d == "r" and L <= 40 else (0,)
                        for st in styles:
                            out.append(dict(dir=d, ca=ca, out=o, L=L,
                                            style=st, seed=ctx.seed,
                                            **{"in": i}))
                            # the same transfer addressed to subindex 0
                            if not ca and st == 0 and \
                                    (not ctx.quick or b == others[0]):
                                out.append(dict(dir=d, ca=ca, out=o, L=L,
                                                style=st, seed=ctx.seed,
                                                sub0=True, **{"in": i}))
    return out + refused(out)


def refused(plain):
    """the same grid (style 0) against an entry that refuses the transfer.
    An aborted complete-access upload is read as 'no data' by design, so it
    is enumerated for empty objects only."""
    out = []
    for c in plain:
        if c["style"] != 0:
            continue
        for acc, (dirs, _) in REFUSALS.items():
            if c["dir"] not in dirs or (c["ca"] and acc == "absent"):
                continue
            if c["ca"] and c["dir"] == "r" and c["L"] != 0:
                continue
            out.append(dict(c, acc=acc))
    return out


def work(item, res):
    case, bound, k = item
    att = work.att
    if att is None or att.k != k:
        att = work.att = Attributor(k)

    def on_exec(ch, obs):
        res.count("evaluations")
        res.count("transitions", obs["frames"])
        if case["L"] > 4 or len(obs["mails_in"]) > 1:
            res.nontrivial.add(core.digest([case, ch.choices]))
        bad = judge(case, obs)
        if not bad and case.get("acc"):
            res.count("refused_transfers")
            res.outcomes.add(("refused", case["dir"], case["ca"], case["acc"],
                              obs["outcome"][:2],
                              tuple(i[1] for i in obs["injected"])))
            return
        if not bad:
            res.outcomes.add(("ok", case["dir"], min(len(obs["mails_in"]), 4),
                              tuple(i[1] for i in obs["injected"])))
            return
        choices = list(ch.choices)
        s = att.attribute(case, choices, obs, bad)
        what, exp, seen = bad[0]
        res.outcomes.add(("bad", what, s))
        cj = dict(case=case, choices=choices, k=k)
        if s:
            for kf in s:
                res.violation(cj, exp, seen, kf=kf,
                              sig=core.digest([kf, case["dir"], case["ca"]]),
                              note=f"{what}; explained by the repairs "
                                   f"{list(s)}")
        else:
            res.violation(
                cj, exp, seen, kf=None,
                sig=core.digest([case["dir"], case["ca"], case.get("acc"),
                                 what,
                                 re.sub(r"\d+", "#", repr(seen))[:60]]),
                note=what + "; all problems: "
                + "; ".join(w for w, _, _ in bad))
    explore.dfs(lambda ch: execute(ch, case, ecmod, k), bound, on_exec)
    res.count("attribution_runs", att.runs)
    att.runs = 0


work.att = None


def run(ctx):
    try:
        stats = coe.selftest(os.path.dirname(os.path.dirname(ecmod.__file__)))
    except AssertionError as e:
        raise core.Internal(f"mc/coe.py self-test failed: {e!r}")
    k = 2
    items = []
    for c in cases(ctx):
        size = c["out"] if c["dir"] == "w" else c["in"]
        b = boundary(size, c["L"])
        if ctx.quick:
            bound = 1
        elif c.get("acc"):
            # a refusal is the answer to the first message: the lengths
            # away from the boundaries only vary the request
            bound = 3 if b else 1
        else:
            bound = 3 if b else 2
        items.append((c, bound, k))
    # determinism of the execution itself
    probe = dict(dir="r", ca=False, out=24, L=30, style=0, seed=ctx.seed,
                 **{"in": 24})
    a = execute(explore.Chooser((0, 1, 2)), probe, ecmod, k)
    b = execute(explore.Chooser((0, 1, 2)), probe, ecmod, k)
    if a != b:
        raise core.Internal("non-deterministic execution")
    res = core.pmap(ctx, work, items)
    res.cov["states"] = len(res.nontrivial)
    res.cov["traces_validated_against_impl"] = res.cov.get("evaluations", 0)
    res.cov["cases"] = len(items)
    res.cov["bound_completed"] = 1 if ctx.quick else 2
    res.cov["bound_boundary_lengths"] = 1 if ctx.quick else 3
    res.cov["bound_refused_transfers"] = 1
    res.cov["bound_refused_boundary_lengths"] = 1 if ctx.quick else 3
    res.cov["model_selftest"] = stats
    res.cov["repairs_applicable"] = [kf for kf in ORDER
                                     if KF[kf][0](source()) is not None]
    res.sample(dict(dir="w", ca=False, out=32, L=40, **{"in": 24},
                    meaning="sdo_write of 40 bytes to 0x2000:3 through a "
                            "32-byte write mailbox: initiate + 2 segments"))
    res.sample(dict(dir="r", ca=True, out=24, L=9, **{"in": 24},
                    meaning="complete-access sdo_read of 9 bytes: normal "
                            "response with 8 bytes + one 1-byte segment"))
    res.assumptions += [
        "entries of the terminal have a fixed length: a download of another "
        "length is aborted (0x06070010), as real terminals do",
        "a sync-manager buffer must be entered through its start address "
        "(ESC rule); a bare write to the mailbox's end address is denied",
        "the terminal never repeats a response and never sends more than "
        "one unrelated mail per transfer",
        "a transfer the terminal refuses (SDO abort request as the answer "
        "to the initiate request: write-only 0x06010001, present state "
        "0x08000022, read-only 0x06010002, no such subindex 0x06090011) "
        "must not end as if it had worked: sdo_write must not return, "
        "sdo_read must not return a value; any exception is accepted, and "
        "so is b'' for a refused entry that exists and is empty",
        "an aborted complete-access upload is read as 'no data' by design "
        "(Terminal.sdo_read returns b'') and is only enumerated for empty "
        "objects; aborted complete-access downloads are enumerated for "
        "every length",
        "a known finding is attributed only if its source repair, applied "
        "in memory, changes the observation and the complete set of "
        "attributed repairs makes the same execution satisfy the oracle",
        "quick: the mailbox not carrying the data takes 2 of the 4 sizes "
        "(which ones rotates with the seed)"]
    return res


def replay(ctx, rep):
    res = core.Result()
    c = rep["case"]
    case, choices, k = c["case"], c["choices"], c["k"]
    obs = execute(explore.Chooser(tuple(choices)), case, ecmod, k)
    for key in ("outcome", "errors", "aborts", "toggles", "denied", "beyond",
                "injected", "held", "result"):
        print(f"  {key}: {obs[key]}")
    for mh in obs["mails_in"]:
        print("  mail in:", mh[:120])
    bad = judge(case, obs)
    if bad:
        s = Attributor(k).attribute(case, choices, obs, bad)
        print("  attributed to:", s)
        for what, exp, seen in bad[:1]:
            res.violation(c, exp, seen, kf=list(s) if s else None, note=what)
    return res.violations


if __name__ == "__main__":
    d, applied = proposed_diff()
    sys.stdout.write(d)
    print("# applied:", applied, file=sys.stderr)
