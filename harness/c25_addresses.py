"""C25 - terminal addresses assigned by the master are unique.

Real EtherCat.find_free_address / assigned_address / scan_serial_numbers and
Terminal.initialize run concurrently on the virtual loop against a ring of ESC
models.  The address range is shrunk to a handful of addresses and every
randint answer is an explorer choice (so collisions are forced); frame
delivery order deviations are bounded.
"""
import asyncio
import contextlib
import itertools
import struct

from mc import seams, bussim, core, explore, vloop

import ebpfcat.ethercat as ecmod
from ebpfcat.ethercat import EtherCat, Terminal

PROP = "C25"
LEVEL = "model_checking"
RULE = ("buses of 2-4 terminals (pre-assigned inside/outside the range or "
        "unaddressed) x workloads (concurrent initialize, serial-number scan, "
        "both) x every randint answer from the shrunk range x bounded "
        "delivery-order deviations; non-trivial = at least one address was "
        "written; distinct = distinct (bus, workload, choices)")

LO, HI = 1000, 1004     # randint is inclusive: 5 addresses


def sii_image(serial):
    img = bytearray(0x80)
    struct.pack_into("<IIII", img, 16, 2, 0x1234, 1, serial)
    img += b"\xff\xff\xff\xff" + b"\xff" * 12
    return bytes(img)


class Exhausted(Exception):
    """raised into the code under test when every address of the range has
    been drawn: the caller's task fails, which C25 does not judge"""


def execute(ch, conf):
    pre, workload = conf
    loop = vloop.VLoop()
    with contextlib.ExitStack() as stack, loop:
        terms = [bussim.Terminal(f"t{i}", station=a, sii=sii_image(100 + i))
                 for i, a in enumerate(pre)]
        bus = bussim.Bus(terms)
        m = bussim.Master(bus, lambda: EtherCat("sim"), loop)
        ec = m.ec
        ec.terminal_addr_range = (LO, HI)
        repeats = [0]

        drawn = []

        def randint(a, b):
            if (a, b) != (LO, HI):
                return a + (7 * len(m.transport.sent)) % (b - a + 1)
            dom = list(range(a, b + 1))
            # the harness remembers its own answers: an answer given before
            # (or known to the master as used) may be repeated once in a
            # row, then a new one has to come - whatever the code under
            # test remembers
            old = [d for d in dom if d in ec.used_addresses or d in drawn]
            new = [d for d in dom if d not in old]
            opts = new + (old if repeats[0] < 1 else [])
            if not opts:
                raise Exhausted("no address left in the shrunk range")
            v = opts[ch.choose(len(opts), "randint", [0] * len(opts))]
            repeats[0] = repeats[0] + 1 if v in old else 0
            drawn.append(v)
            return v
        # every function of the random source is the harness's: randint
        # as above, randrange / choice as free explorer choices
        handlers = seams.default_handlers(
            lambda n: ch.choose(n, "randint", [0] * n))
        handlers["randint"] = randint
        stack.enter_context(seams.own_random([ecmod], handlers))
        try:
            writes = []      # (terminal index, address, others' addresses)
            for i, t in enumerate(terms):
                orig = t.write

                def write(ado, data, t=t, i=i, orig=orig):
                    before = t.station
                    ok = orig(ado, data)
                    if ado <= 0x10 < ado + len(data) and t.station != before:
                        writes.append((i, t.station,
                                       [o.station for o in terms
                                        if o is not t]))
                    return ok
                t.write = write
            coros = []
            tobjs = []
            if workload in ("init", "both"):
                for i in range(len(terms)):
                    tt = Terminal(ec)
                    tobjs.append(tt)
                    coros.append(tt.initialize(relative=-i))
            if workload in ("scan", "both"):
                coros.append(ec.scan_serial_numbers())
            if workload == "alloc":
                # allocate first, use later: three concurrent requests
                coros += [ec.find_free_address() for _ in range(3)]
            if workload == "alloc-seq":
                async def batch():
                    return [await ec.find_free_address() for _ in range(3)]
                coros.append(batch())
            if workload == "alloc-scan-alloc":
                # an address reserved ahead of its use survives a scan
                async def history():
                    a = await ec.find_free_address()
                    await ec.scan_serial_numbers()
                    return [a, await ec.find_free_address()]
                coros.append(history())
            if workload == "alloc+scan":
                coros += [ec.find_free_address(), ec.scan_serial_numbers(),
                          ec.find_free_address()]
            fut = asyncio.gather(*coros, return_exceptions=True)

            def on_idle(master):
                n = len(master.transport.inflight)
                if n and loop.next_timer() is not None:
                    # somebody waits with a time-out: the frame may be
                    # slower than that
                    if ch.choose(2, "late"):
                        loop.advance()
                        return True
                if n >= 2:
                    c = ch.choose(n, "deliver")
                    master.deliver(c)
                    return True
                return False
            done = m.run(fut, max_frames=400, on_idle=on_idle)
            results = None
            if done:
                results = [type(r).__name__ if isinstance(r, BaseException)
                           else "ok" for r in fut.result()]
            final = [t.station for t in terms]
            scan = None
            if done and workload in ("scan", "both") and \
                    not isinstance(fut.result()[-1], BaseException):
                scan = sorted(fut.result()[-1].items())
            positions = [getattr(t, "position", None) for t in tobjs]
            given = None
            if done and workload.startswith("alloc"):
                given = []
                for r in fut.result():
                    if isinstance(r, list):
                        given += r
                    elif isinstance(r, int):
                        given.append(r)
        finally:
            loop.shutdown()
    return dict(done=done, results=results, writes=writes, final=final,
                scan=scan, positions=positions, given=given)


def judge(conf, ch, obs, res):
    pre, workload = conf
    case = dict(conf=conf, choices=list(ch.choices))

    def bad(exp, seen, what):
        res.violation(case, exp, seen, sig=core.digest([what]), note=what)
    # whether the workload completes or raises is not C25's business (two
    # concurrent users re-addressing one terminal legitimately disturb each
    # other); only the addresses are judged
    clean = obs["done"] and all(r == "ok" for r in obs["results"])
    handed = {}
    for i, addr, others in obs["writes"]:
        if not LO <= addr <= HI:
            bad(f"address in [{LO}, {HI}]", addr, "address outside the range")
        if addr in handed and handed[addr] != i:
            bad("each address handed out once", (addr, handed[addr], i),
                "address handed out twice")
        handed.setdefault(addr, i)
        if addr in others:
            bad("address not in use by another terminal", (addr, others),
                "assigned an address at which a terminal already answers")
    for addr in obs.get("given") or []:
        if not LO <= addr <= HI:
            bad(f"address in [{LO}, {HI}]", addr, "address outside the range")
        if addr in pre:
            bad("address not in use by a terminal", (addr, pre),
                "handed out an address at which a terminal already answers")
    if obs.get("given") and len(set(obs["given"])) != len(obs["given"]):
        bad("each address handed out once", obs["given"],
            "address handed out twice")
    for addr in obs.get("given") or []:
        if addr in handed:
            bad("an address given to a caller is not also written to a "
                "terminal", (addr, handed[addr]),
                "address handed out twice")
    nz = [a for a in obs["final"] if a]
    if len(set(nz)) != len(nz):
        bad("distinct station addresses", obs["final"],
            "two terminals end with the same address")
    if workload == "init" and clean and 0 in obs["final"]:
        bad("all terminals addressed", obs["final"], "terminal left at 0")


def configs(ctx):
    out = []
    alphabet = [0, 1002, 50]    # unaddressed, inside the range, outside
    for n in (2, 3) if ctx.quick else (2, 3, 4):
        for pre in itertools.product(alphabet, repeat=n):
            nz = [a for a in pre if a]
            if len(set(nz)) != len(nz):
                continue
            if n == 4 and ctx.quick:
                continue
            for workload in ("init", "scan", "both"):
                out.append((pre, workload))
            if n == 2:
                out += [(pre, "alloc"), (pre, "alloc-seq"),
                        (pre, "alloc-scan-alloc"), (pre, "alloc+scan")]
    return out


def work(item, res):
    conf, bound, cap = item

    def on_exec(ch, obs):
        res.count("evaluations")
        res.count("transitions", len(ch.trace))
        if obs["writes"] or obs.get("given"):
            res.nontrivial.add(core.digest([conf, ch.choices]))
        res.outcomes.add((tuple(obs["final"]), obs["done"]))
        if not obs["done"]:
            res.count("horizon_reached")
        judge(conf, ch, obs, res)
    n, capped = explore.dfs(lambda ch: execute(ch, conf), bound, on_exec,
                            max_execs=cap)
    if capped:
        res.caps_hit.append(f"{conf}: capped at {n} executions")
    a = execute(explore.Chooser(()), conf)
    b = execute(explore.Chooser(()), conf)
    if a != b:
        raise core.Internal("non-deterministic execution")


def run(ctx):
    bound = 1 if ctx.quick else 2
    cap = 3000 if ctx.quick else 15000
    items = [(c, bound, cap) for c in configs(ctx)]
    res = core.pmap(ctx, work, items, chunk=1)
    res.cov["states"] = len(res.nontrivial)
    res.cov["traces_validated_against_impl"] = res.cov.get("evaluations", 0)
    res.cov["bound_completed"] = bound
    res.sample(dict(pre=[0, 1002, 0], workload="both",
                    meaning="three terminals, the middle one pre-assigned "
                            "inside the range; initialize all concurrently "
                            "with a serial-number scan"))
    res.assumptions += [
        "randint answers are free choices (cost 0) over the shrunk range "
        "1000..1004; an already used address is answered at most once in a "
        "row (the real loop retries without awaiting)",
        "frames are not lost (a lost frame only makes the workload pend)"]
    return res


def replay(ctx, rep):
    res = core.Result()
    c = rep["case"]
    conf = (tuple(c["conf"][0]), c["conf"][1])
    ch = explore.Chooser(tuple(c["choices"]))
    obs = execute(ch, conf)
    print(obs)
    judge(conf, ch, obs, res)
    return res.violations
