"""C02 - fixed-point arithmetic follows the per-100000 decimal semantics.

Three enumerations:
 * program side: expression trees mixing fixed-point and integer leaves x
   destinations x boundary operand vectors, compiled by the real DSL, the
   assembled bytes executed in the independent interpreter (a deterministic
   subset also by the kernel), judged by exact `fractions.Fraction` arithmetic
   under the statement's precondition; comparisons decide markers;
 * program constants: *every* decimal k/100000, k in 0..99999 (with sign and
   integer-part variants) is used as a constant in four positions of generated
   code and the value the bytecode really carries is read back;
 * Python side: the same decimals through ArrayGlobalVarDesc.__set__/unpack on
   a loaded program whose map memory is a bytearray (seams
   ebpfcat.arraymap.create_map / mmap).
"""
import contextlib
import itertools
import operator
import os
import struct
import traceback
from fractions import Fraction

from mc import bpfvm, core, dsl, kern
from ebpfcat.ebpf import LocalVar
from harness.c01_intexpr import sx, patch_signed_div, patch_sx_moves

PROP = "C02"
LEVEL = "model_checking"
RULE = ("programs = expression tree (operators + - * / // %, six comparisons) "
        "over fixed-point and integer leaves x destination, depth 1 complete "
        "over the stated alphabet, depth 2 on representatives; each runs on "
        "every operand vector of the boundary alphabet; constants: every "
        "k/100000 for k in 0..99999 x sign/integer-part variants x four code "
        "positions, and through ArrayGlobalVarDesc.__set__/unpack; a case is "
        "non-trivial when the generator accepted the program and the scaled "
        "operands and intermediates fit the narrowest width; distinct = "
        "distinct (tree, destination, vector) resp. (path, decimal)")

M64 = (1 << 64) - 1
FB = 100000
REGKIND = {"r": (8, False, False), "sr": (8, True, False),
           "w": (4, False, False), "sw": (4, True, False),
           "x": (8, True, True)}
FMT = {"B": (1, False, False), "b": (1, True, False),
       "H": (2, False, False), "h": (2, True, False),
       "I": (4, False, False), "i": (4, True, False),
       "Q": (8, False, False), "q": (8, True, False),
       "x": (8, True, True)}
ARITH = {"+": operator.add, "-": operator.sub, "*": operator.mul,
         "/": operator.truediv, "//": operator.floordiv, "%": operator.mod}
CMP = {">": operator.gt, ">=": operator.ge, "<": operator.lt,
       "<=": operator.le, "!=": operator.ne, "==": operator.eq}
FLOATS = [0.29, 1.15, 3.5, 0.00001, 2.5, -2.5, 123.456, 99999.99999]

KF_DIV = "C02-signed-div-unsigned"
KF_SX = "C02-sw-operand-zero-extended"
KF_CONST = "C02-constant-truncated"
KF_PYSET = "C02-arrayvar-set-truncated"
KF_WIDE = "C02-left-constant-makes-32bit"


# ------------------------------------------------------------------- leaves
# ("reg", kind, n) ("loc", fmt, n) ("const", v);  trees: leaf | (op, l, r)
def is_leaf(t):
    return t[0] in ("reg", "loc", "const")


def ltype(l):
    return REGKIND[l[1]] if l[0] == "reg" else FMT[l[1]]


def leaves_of(t, out=None):
    if out is None:
        out = []
    if is_leaf(t):
        out.append(t)
    else:
        leaves_of(t[1], out)
        leaves_of(t[2], out)
    return out


def is_fixed(t):
    """the type the statement gives the value: sums, differences, products
    and remainders are fixed-point as soon as one side is, true division
    always, floor division never"""
    if t[0] == "const":
        return isinstance(t[1], float)
    if is_leaf(t):
        return ltype(t)[2]
    if t[0] == "/":
        return True
    if t[0] == "//":
        return False
    return is_fixed(t[1]) or is_fixed(t[2])


def dec(c, double=False):
    """the decimal the programmer wrote"""
    return Fraction(repr(c)) if isinstance(c, float) else Fraction(c)


def dec_truncated(c, double=False):
    """defect model KF_CONST: the scaled constant is carried as the Python
    float c * 100000 (times 100000 once more when it is the numerator of a
    true division by a fixed-point value) and cut off, not rounded, when the
    instruction is emitted"""
    if isinstance(c, float):
        if double:
            return Fraction(int((c * FB) * FB), FB * FB)
        return Fraction(int(c * FB), FB)
    return Fraction(c)


def tgrid(v, unit=FB):
    """drop to the 1/unit grid, toward zero"""
    n = v * unit
    f = n.__floor__()
    if f < 0 and f != n:
        f += 1
    return Fraction(f, unit)


def fgrid(v, unit=FB):
    return Fraction((v * unit).__floor__(), unit)


class Outside(Exception):
    """outside the statement's precondition"""


def fitW(v, W, what):
    if not -(1 << (W - 1)) <= v < (1 << (W - 1)):
        raise Outside(f"{what} does not fit {W} bits")


def evaluate(t, env, W, cv=dec, double=False):
    """-> set of acceptable exact values (Fractions).  Every scaled operand
    and intermediate result (value * 100000; for a product of two fixed-point
    values and for the numerator of a true division the doubly scaled value)
    must fit W bits signed, otherwise Outside"""
    if t[0] == "const":
        v = cv(t[1], double)
        fitW(v * FB, W, "scaled constant")
        return {v}
    if is_leaf(t):
        raw = env[t]
        v = Fraction(raw, FB) if ltype(t)[2] else Fraction(raw)
        fitW(v * FB, W, "scaled operand")
        return {v}
    op = t[0]
    ls = evaluate(t[1], env, W, cv, op == "/" and is_fixed(t[2]))
    rs = evaluate(t[2], env, W, cv)
    out = set()
    for a in ls:
        for b in rs:
            if op == "+":
                out.add(a + b)
            elif op == "-":
                out.add(a - b)
            elif op == "*":
                p = a * b
                if is_fixed(t[1]) and is_fixed(t[2]):
                    fitW(p * FB * FB, W, "doubly scaled product")
                    out |= {p, tgrid(p), fgrid(p)}
                else:
                    out.add(p)
            elif op == "/":
                if b == 0:
                    raise Outside("division by zero")
                fitW(a * FB * FB, W, "doubly scaled numerator")
                q = a / b
                out |= {q, tgrid(q), fgrid(q)}
            elif op == "//":
                if b == 0:
                    raise Outside("division by zero")
                q = a / b
                out |= {tgrid(q, 1), fgrid(q, 1)}
            elif op == "%":
                if b == 0:
                    raise Outside("division by zero")
                q = a / b
                out |= {a - b * tgrid(q, 1), a - b * fgrid(q, 1)}
    pu = pure_unsigned(t)
    for v in out:
        fitW(v * FB, W, "scaled intermediate")
        if pu and v < 0:
            raise Outside("negative result of unsigned operands")
    return out


def pure_unsigned(t):
    """a sub-expression built from unsigned variables and non-negative
    constants only (fixed-point variables are signed): as in C01 such an
    operation is unsigned, its value has to fit the unsigned range as well,
    i.e. must not be negative"""
    if t[0] == "const":
        return t[1] >= 0
    if is_leaf(t):
        return not ltype(t)[1]
    return pure_unsigned(t[1]) and pure_unsigned(t[2])


def dest_type(d):
    # a memory destination may carry a byte-order prefix (">H", "<I", "!q")
    return REGKIND[d[1]] if d[0] == "reg" else FMT[d[1][-1]]


def width_of(trees, dest=None):
    sizes = [ltype(l)[0] for t in trees for l in leaves_of(t)
             if l[0] != "const"]
    if dest is not None:
        sizes.append(dest_type(dest)[0])
    return 32 if sizes and min(sizes) <= 4 else 64


def expected(tree, dest, env, cv=dec, W=None):
    """-> set of acceptable stored bit patterns, or raises Outside"""
    W = W or width_of([tree], dest)
    vals = evaluate(tree, env, W, cv)
    size, _, dfixed = dest_type(dest)
    out = set()
    for v in vals:
        if dfixed:
            cand = {tgrid(v) * FB, fgrid(v) * FB}
        else:
            cand = {tgrid(v, 1), fgrid(v, 1)}
        for c in cand:
            fitW(c, W, "stored value")
            out.add(int(c) & ((1 << (8 * size)) - 1))
    return out


def expected_truth(op, lt, rt, env, cv=dec, W=None):
    """-> set of acceptable truth values of a comparison"""
    W = W or width_of([lt, rt])
    ls, rs = evaluate(lt, env, W, cv), evaluate(rt, env, W, cv)
    return {CMP[op](a, b) for a in ls for b in rs}


# ----------------------------------------------------------------- programs
class Prog:
    """tree -> destination, or a comparison deciding markers; leaf i is
    planted from input slot i"""
    REGS = [2, 3, 4, 6, 7, 8]

    def __init__(self, tree, dest, alias=None, wide_sw=False):
        self.tree, self.dest = tree, dest
        self.iscmp = tree[0] == "cmp"
        trees = [tree[2], tree[3]] if self.iscmp else [tree]
        leaves = []
        for t in trees:
            for l in leaves_of(t):
                if l[0] != "const" and l not in leaves:
                    leaves.append(l)
        self.leaves = leaves
        attrs, self.names = {}, {}
        for i, l in enumerate(leaves):
            if l[0] == "loc":
                self.names[l] = f"v{i}"
                attrs[f"v{i}"] = LocalVar(l[1])
        if dest is not None and dest[0] == "loc":
            attrs["d"] = LocalVar(dest[1])
        b = self.b = dsl.Builder(attrs, n_in=max(1, len(leaves)), n_out=2)
        e = b.e
        self.regno = {}
        free = list(self.REGS)
        for i, l in enumerate(leaves):
            if l[0] == "loc":
                b.plant_local(self.names[l], i)
        for i, l in enumerate(leaves):
            if l[0] == "reg":
                no = free.pop(0)
                self.regno[l] = no
                b.plant_reg(no, i, long=ltype(l)[0] == 8
                            or (wide_sw and l[1] == "sw"))
        if self.iscmp:
            cond = CMP[tree[1]](self.mk(tree[2]), self.mk(tree[3]))
            with cond as Else:
                b.raw(0x72, 9, 0, b.out_off, 1)
            with Else:
                b.raw(0x72, 9, 0, b.out_off, 2)
            b.raw(0x72, 9, 0, b.out_off + 8, 7)
        else:
            expr = self.mk(tree)
            if dest[0] == "reg":
                dno = self.regno[leaves[alias]] if alias is not None else 0
                getattr(e, dest[1])[dno] = expr
                b.out_reg(dno, 0)
            else:
                setattr(e, "d", expr)
                b.out_local("d", 0)
        b.finish()
        b.code()

    def mk(self, t):
        e = self.b.e
        if t[0] == "const":
            return t[1]
        if t[0] == "reg":
            return getattr(e, t[1])[self.regno[t]]
        if t[0] == "loc":
            return getattr(e, self.names[t])
        return ARITH[t[0]](self.mk(t[1]), self.mk(t[2]))

    def inputs(self, env, sx_sw=False):
        out = []
        for l in self.leaves:
            v = env[l]
            if l[0] == "reg" and ltype(l)[0] == 4:
                v &= 0xffffffff
                if sx_sw and ltype(l)[1]:
                    v = sx(v, 32) & M64
            out.append(v & M64)
        return out

    def observe(self, outs):
        if self.iscmp:
            return (outs[0] & 0xff, outs[1] & 0xff)
        n = dest_type(self.dest)[0]
        raw = outs[0] & ((1 << (8 * n)) - 1)
        if self.dest[0] == "loc" and self.dest[1][0] in ">!":
            # the variable's bytes were read back as a native number
            raw = int.from_bytes(raw.to_bytes(n, "little"), "big")
        return raw


REJECTIONS = ("AssembleError", "TypeError", "error", "NotImplementedError",
              "OverflowError")


def build(tree, dest, alias, res, wide_sw=False):
    try:
        return Prog(tree, dest, alias, wide_sw)
    except core.Internal:
        raise
    except Exception as ex:
        tb = traceback.extract_tb(ex.__traceback__)
        if not tb or "/ebpfcat/" not in tb[-1].filename and not (
                isinstance(ex, (TypeError, ZeroDivisionError, OverflowError))
                and tb[-1].name in ("mk", "__init__")):
            raise core.Internal(
                f"harness error while building {tree!r} -> {dest!r}: {ex!r} "
                f"at {tb[-1].filename}:{tb[-1].lineno}")
        name = type(ex).__name__
        if name in REJECTIONS or "/ebpfcat/" not in tb[-1].filename:
            res.count("rejected_by_generator")
            res.outcomes.add("rejected:" + name)
            return None
        # an internal error of the generator, not a deliberate refusal
        res.count("generator_crashed")
        res.outcomes.add("crashed:" + name)
        res.violation(dict(tree=tree, dest=dest, alias=alias, env=[]),
                      "program is generated (or refused with AssembleError/"
                      "TypeError)", f"{name}: {ex} at "
                      f"{os.path.basename(tb[-1].filename)}:{tb[-1].name}",
                      sig=core.digest(["crash", name, tb[-1].name,
                                       shape(tree), dest]),
                      note="generator crashes with an internal error")
        return None


COMBOS = [c for n in (1, 2, 3, 4) for c in itertools.combinations(
    (KF_DIV, KF_CONST, KF_SX, KF_WIDE), n)]


def left_const(t):
    """some operator node has a constant as its left operand"""
    if is_leaf(t):
        return False
    return t[1][0] == "const" or left_const(t[1]) or left_const(t[2])


@contextlib.contextmanager
def wide_constants():
    """defect model KF_WIDE: the generator with constants announcing
    themselves as 64 bit wide (the checked run never uses this)"""
    import ebpfcat.ebpf as eb
    orig = eb.Constant.calculate

    @contextlib.contextmanager
    def calculate(self, dst, long, force=False):
        with orig(self, dst, long, force) as (d, _l):
            yield d, True
    eb.Constant.calculate = calculate
    try:
        yield
    finally:
        eb.Constant.calculate = orig


def has_const(t, pred):
    return any(l[0] == "const" and pred(l[1]) for l in leaves_of(t))


def inexact(c):
    return isinstance(c, float) and int(c * FB) != dec(c) * FB


def shape(t):
    if t[0] == "const":
        v = t[1]
        return ("const", "float" if isinstance(v, float) else "int",
                "neg" if v < 0 else "pos")
    if is_leaf(t):
        return t[:2]
    if t[0] == "cmp":
        return ("cmp", t[1], shape(t[2]), shape(t[3]))
    return (t[0],) + tuple(shape(s) for s in t[1:])


def envj(env):
    return [[list(k), v] for k, v in env.items()]


def run_case(tree, dest, alias, envs, res, kernel=False):
    """one program (value or comparison) on all its vectors"""
    p = build(tree, dest, alias, res)
    if p is None:
        return
    res.count("programs")
    iscmp = p.iscmp
    trees = [tree[2], tree[3]] if iscmp else [tree]
    case = dict(tree=tree, dest=dest, alias=alias)
    kfd = None
    if kernel and kern.available():
        try:
            kfd = p.b.load_kernel()
        except kern.LoadError:
            res.count("kernel_rejected")

    def oracle(env, cv, W=None):
        if iscmp:
            ts = expected_truth(tree[1], tree[2], tree[3], env, cv, W)
            return {((1 if t else 2), 7) for t in ts}
        return expected(tree, dest, env, cv, W)

    variants = {}
    recorded = {}

    def vm_variant(env, sx_, div, wide):
        key = (sx_, wide)
        if key not in variants:
            if wide:
                with wide_constants():
                    variants[key] = build(tree, dest, alias, core.Result(),
                                          wide_sw=sx_)
            elif sx_:
                variants[key] = build(tree, dest, alias, core.Result(),
                                      wide_sw=True)
            else:
                variants[key] = p
        q = variants[key]
        if q is None:
            return None
        ins = q.b._decoded
        if sx_:
            ins = patch_sx_moves(ins, {q.regno[l] for l in q.leaves
                                       if l[0] == "reg" and l[1] == "sw"})
        if div:
            ins = patch_signed_div(ins)
        vm = bpfvm.VM(bpfvm.Kernel(), ins,
                      q.b.packet(q.inputs(env, sx_sw=sx_)))
        try:
            vm.run()
        except bpfvm.Trap:
            return None
        return q.observe(q.b.outputs(vm.packet))

    try:
        for env in envs:
            res.count("evaluations")
            try:
                exp, outside = oracle(env, dec), None
            except Outside as ex:
                exp, outside = None, str(ex)
            inp = p.inputs(env)
            try:
                _, outs, _, vm = p.b.run_vm(inp)
                obs, trap = p.observe(outs), None
                res.count("transitions", vm.steps)
            except bpfvm.Trap as t:
                obs, trap = None, str(t)
            if kfd is not None and trap is None:
                res.count("kernel_validated")
                _, kouts, _ = p.b.run_kernel(kfd, inp)
                if p.observe(kouts) != obs:
                    raise core.Internal(
                        f"VM/kernel disagreement on {case} env={env}: "
                        f"vm={obs} kernel={p.observe(kouts)}")
            if outside is not None:
                res.count("outside_precondition")
                continue
            res.count("checked")
            res.nontrivial.add(core.digest([tree, dest, alias, envj(env)]))
            if trap is not None:
                res.outcomes.add("trap")
                res.violation(dict(case, env=envj(env)), fmt(exp), trap,
                              sig=core.digest(["trap", shape(tree), dest]),
                              note="generated program traps")
                continue
            if obs in exp:
                res.outcomes.add(("ok", "cmp" if iscmp else
                                  ("fixed" if dest_type(dest)[2] else "int"),
                                  obs if iscmp else (obs == 0)))
                continue
            # ---- wrong: exactly a combination of the documented defects?
            kf = None
            can_sx = any(l[0] == "reg" and l[1] == "sw" and env[l] < 0
                         for l in p.leaves)
            can_const = any(has_const(t, inexact) for t in trees)
            can_wide = iscmp and any(left_const(t) for t in trees)
            for combo in COMBOS:
                if KF_SX in combo and not can_sx:
                    continue
                if KF_CONST in combo and not can_const:
                    continue
                if KF_WIDE in combo and not can_wide:
                    continue
                try:
                    exp2 = oracle(env, dec_truncated if KF_CONST in combo
                                  else dec)
                except Outside:
                    # with the truncated constant an intermediate may leave
                    # the narrow range; the prediction itself is still exact
                    try:
                        exp2 = oracle(env, dec_truncated, 64) \
                            if KF_CONST in combo else None
                    except Outside:
                        exp2 = None
                    if exp2 is None:
                        continue
                if set(combo) - {KF_CONST}:
                    obs2 = vm_variant(env, KF_SX in combo, KF_DIV in combo,
                                      KF_WIDE in combo)
                else:
                    obs2 = obs
                if obs2 is not None and obs2 in exp2:
                    kf = combo[0] if len(combo) == 1 else list(combo)
                    break
            res.outcomes.add(("wrong", str(kf)))
            res.count("violating_evaluations")
            recorded[str(kf)] = recorded.get(str(kf), 0) + 1
            if recorded[str(kf)] > 3:
                # same program, same attribution, same signature: counted
                res.count("violations_beyond_3_per_program_and_kind")
                continue
            res.violation(dict(case, env=envj(env)), fmt(exp), fmt({obs}),
                          kf=kf, sig=core.digest([shape(tree), dest, str(kf)]),
                          note="wrong value" if not iscmp
                          else "wrong branch / markers")
    finally:
        if kfd is not None:
            os.close(kfd)


def fmt(s):
    return sorted((hex(v) if isinstance(v, int) else str(v)) for v in s)


# ------------------------------------------------------------------ values
def uniq(xs):
    out = []
    for x in xs:
        if x not in out:
            out.append(x)
    return out


def values(l, seed, small):
    """small: False full alphabet, True reduced, "tiny" for depth 2"""
    import random
    size, signed, fixed = ltype(l)
    rnd = random.Random(seed * 131 + size * 4 + signed * 2 + fixed)
    if small == "tiny":
        if fixed:
            return [0, 1, -250000, 350000, 3 * 10 ** 13,
                    rnd.randrange(-10 ** 7, 10 ** 7)]
        vs = [0, 3, -7, 21474, 9 * 10 ** 8]
        bits = 8 * size
        lo, hi = (-(1 << (bits - 1)), (1 << (bits - 1)) - 1) if signed \
            else (0, (1 << bits) - 1)
        return [v for v in vs if lo <= v <= hi] + [rnd.randrange(1, 120)]
    if fixed:
        vs = [0, 1, -1, FB, 250000, -250000, 29000, 99999, -350000,
              123456789, 3 * 10 ** 13, -(10 ** 10) - 1, 50000, -99999,
              9 * 10 ** 13, (1 << 63) - 1, -(1 << 63)]
        if small:
            vs = vs[:9] + vs[10:12]
        vs.append(rnd.randrange(-10 ** 9, 10 ** 9))
        return uniq(vs)
    bits = 8 * size
    lo, hi = (-(1 << (bits - 1)), (1 << (bits - 1)) - 1) if signed \
        else (0, (1 << bits) - 1)
    vs = [0, 1, 2, 3, -1, 7, -7, 100, 21474, -21475, 1000003, -(10 ** 8),
          9 * 10 ** 8, hi, lo, hi - 1]
    if small:
        vs = vs[:7] + [21474, 9 * 10 ** 8, hi, lo]
    vs.append(rnd.randrange(-30000, 30000))
    return uniq([v for v in vs if lo <= v <= hi])


def vectors(leaves, seed, small):
    doms = [values(l, seed, small) for l in leaves]
    for combo in itertools.product(*doms):
        yield dict(zip(leaves, combo))


def var_leaves(trees):
    out = []
    for t in trees:
        for l in leaves_of(t):
            if l[0] != "const" and l not in out:
                out.append(l)
    return out


# ------------------------------------------------------------------ families
def alphabet(ctx):
    import random
    rnd = random.Random(ctx.seed + 11)
    if ctx.quick:
        leaves = [("reg", k, 0) for k in ("x", "r", "sr", "sw")] + \
            [("loc", f, 0) for f in "xhQ"]
        ints = [3, -2, 100000]
        floats = FLOATS[:4] + FLOATS[5:6]
        dests = [("reg", "x"), ("loc", "x"), ("reg", "sr"), ("reg", "w"),
                 ("loc", "q"), ("loc", "i"), ("loc", ">H"), ("loc", "<I")]
    else:
        leaves = [("reg", k, 0) for k in ("x", "r", "sr", "w", "sw")] + \
            [("loc", f, 0) for f in "xBhiQq"]
        ints = [0, 1, 3, -2, 7, 100000, 1 << 31]
        floats = list(FLOATS)
        dests = [("reg", "x"), ("loc", "x"), ("reg", "r"), ("reg", "sr"),
                 ("reg", "w"), ("reg", "sw"), ("loc", "q"), ("loc", "Q"),
                 ("loc", "i"), ("loc", "h"), ("loc", ">H"), ("loc", ">I"),
                 ("loc", "!q"), ("loc", "<I"), ("loc", "<h")]
    floats = floats + [rnd.randrange(1, 10 ** 7) / FB]
    ints = ints + [rnd.randrange(2, 50000)]
    return leaves, ints, floats, dests


def relevant(lt, rt, op, dest):
    """C02 is about programs in which fixed point takes part"""
    return op == "/" or is_fixed(lt) or is_fixed(rt) or \
        (dest is not None and dest_type(dest)[2])


def work_d1(item, res):
    lt, rt, dests, seed, quick, kernel_every = item
    n = 0
    leaves = var_leaves([lt, rt])
    envs = list(vectors(leaves, seed, quick))
    for op in ARITH:
        for dest in dests:
            if not relevant(lt, rt, op, dest):
                continue
            aliases = [None]
            if dest[0] == "reg" and lt[:2] == ("reg", dest[1]):
                aliases.append(0)
            elif dest[0] == "reg" and rt[:2] == ("reg", dest[1]):
                aliases.append(len(leaves) - 1)
            for alias in aliases:
                n += 1
                run_case((op, lt, rt), dest, alias, envs, res,
                         n % kernel_every == 0)
    for op in CMP:
        if is_fixed(lt) or is_fixed(rt):
            n += 1
            run_case(("cmp", op, lt, rt), None, None, envs, res,
                     n % kernel_every == 0)


def work_copy(item, res):
    """conversions: leaf -> destination"""
    lt, dests, seed, quick = item
    envs = list(vectors(var_leaves([lt]), seed, False))
    for k, dest in enumerate(dests):
        if is_fixed(lt) or dest_type(dest)[2]:
            run_case(lt, dest, None, envs, res, k % 3 == 0)


def work_d2(item, res):
    a, b, c, op1, dests, seed, kernel_every, cap = item
    n = 0

    def envs_for(trees):
        envs = list(vectors(var_leaves(trees), seed, "tiny"))
        step = -(-len(envs) // cap)
        return [e for i, e in enumerate(envs) if i % step == n % step]
    for op2 in ARITH:
        for tree in ((op2, (op1, a, b), c), (op1, a, (op2, b, c))):
            for dest in dests:
                if not (dest_type(dest)[2] or "/" in (op1, op2) or
                        any(is_fixed(l) for l in (a, b, c))):
                    continue        # pure integer programs belong to C01
                n += 1
                run_case(tree, dest, None, envs_for([tree]), res,
                         n % kernel_every == 0)


def work_cmpx(item, res):
    """comparisons whose sides are expressions"""
    a, b, c, op1, cmps, seed, kernel_every, cap = item
    n = 0
    if not (op1 == "/" or any(is_fixed(l) for l in (a, b, c))):
        return                      # pure integer comparisons: C01/C03
    for op in cmps:
        for tree in (("cmp", op, (op1, a, b), c), ("cmp", op, c, (op1, a, b))):
            n += 1
            envs = list(vectors(var_leaves([tree[2], tree[3]]), seed,
                                "tiny"))
            run_case(tree, None, None, envs, res, n % kernel_every == 0)


# ---- program constants: every k/100000
VARIANTS = [(1, 0), (-1, 0), (1, 1), (-1, 3), (1, 123), (1, 99999),
            (-1, 99999), (1, 21474), (1, 8388608), (-1, 33554431)]
CHUNK = 50


def decimal_str(sign, ip, k):
    return f"{'-' if sign < 0 else ''}{ip}.{k:05d}"


def work_const(item, res):
    """CHUNK decimals in four code positions of one program"""
    sign, ip, k0, kernel = item
    ks = list(range(k0, min(k0 + CHUNK, FB)))
    cs = [float(decimal_str(sign, ip, k)) for k in ks]
    want = [sign * (ip * FB + k) for k in ks]
    b = dsl.Builder({"xv": LocalVar("x")}, n_in=1, n_out=3 * len(ks))
    e = b.e
    b.plant_reg(2, 0)                       # x2 = 0
    imm_at = []
    try:
        for j, c in enumerate(cs):
            e.x[3] = c                      # Constant.calculate
            b.out_reg(3, 3 * j)
            e.xv = c                        # Memory._set immediate
            b.out_local("xv", 3 * j + 1)
            e.x[4] = e.x[2] + c             # Binary immediate / register
            b.out_reg(4, 3 * j + 2)
            with e.x[2] >= c:               # comparison immediate
                pass
            imm_at.append(len(e.opcodes) - 1)
        b.finish()
        b.code()
    except Exception as ex:
        tb = traceback.extract_tb(ex.__traceback__)
        if not tb or "/ebpfcat/" not in tb[-1].filename:
            raise core.Internal(f"harness error in work_const: {ex!r}")
        res.count("rejected_by_generator", len(ks))
        res.outcomes.add("rejected:" + type(ex).__name__)
        return
    res.count("programs")
    _, outs, _, vm = b.run_vm([0])
    res.count("transitions", vm.steps)
    if kernel and kern.available():
        try:
            kfd = b.load_kernel()
        except kern.LoadError:
            res.count("kernel_rejected")
        else:
            try:
                _, kouts, _ = b.run_kernel(kfd, [0])
            finally:
                os.close(kfd)
            res.count("kernel_validated")
            if kouts != outs:
                raise core.Internal("VM/kernel disagreement in work_const "
                                    f"{item}")
    for j, (k, c, w) in enumerate(zip(ks, cs, want)):
        ins = b._decoded[imm_at[j]]
        if ins is None or ins[0] & 7 != 5:
            raise core.Internal(f"no jump at {imm_at[j]}: {ins}")
        if ins[0] & 8:      # register form: the constant was loaded before
            prev = b._decoded[imm_at[j] - 2]
            if prev is None or prev[0] != 0x18:
                raise core.Internal(f"cannot locate constant load: {prev}")
            cmpimm = sx(prev[4], 64)
        else:
            cmpimm = sx(ins[4], 32)
        got = dict(reg=sx(outs[3 * j], 64), mem=sx(outs[3 * j + 1], 64),
                   add=sx(outs[3 * j + 2], 64), cmp=cmpimm)
        res.nontrivial.add(core.digest(["const", sign, ip, k]))
        for path, g in got.items():
            res.count("evaluations")
            res.count("checked")
            if g == w:
                res.outcomes.add(("const-ok", path))
                continue
            kf = KF_CONST if g == int(c * FB) and round(c * FB) == w else None
            res.outcomes.add(("const-wrong", path, str(kf)))
            res.violation(dict(kind="const", path=path, sign=sign, ip=ip, k=k,
                               decimal=decimal_str(sign, ip, k)),
                          w, g, kf=kf,
                          sig=core.digest(["const", path, sign, str(kf)]),
                          note="program constant not represented exactly")


# ---- Python side
def make_array_prog():
    import ebpfcat.arraymap as am
    from ebpfcat.ebpf import EBPF
    from ebpfcat.bpf import ProgType
    saved = am.create_map, am.mmap
    am.create_map = lambda *a, **kw: 3
    am.mmap = lambda fd, size: bytearray(size)
    try:
        amap = am.ArrayMap()
        cls = type("PyArr", (EBPF,), dict(
            m=amap, pad=amap.globalVar("I"), fx=amap.globalVar("x"),
            n=amap.globalVar("q")))
        e = cls(ProgType.XDP, "GPL")
    finally:
        am.create_map, am.mmap = saved
    buf = e.__dict__["m"]
    if not isinstance(buf, bytearray):
        raise core.Internal("array map seam did not take")
    e.loaded = True
    return e, buf, e.__dict__["fx"]


def work_pyset(item, res):
    sign, ip, k0, k1 = item
    e, buf, addr = make_array_prog()
    for k in range(k0, k1):
        s = decimal_str(sign, ip, k)
        c = float(s)
        w = sign * (ip * FB + k)
        res.count("evaluations")
        res.count("checked")
        res.nontrivial.add(core.digest(["pyset", sign, ip, k]))
        buf[:] = bytes(len(buf))
        try:
            e.fx = c
            raw = struct.unpack_from("q", buf, addr)[0]
            back = e.fx
        except Exception as ex:
            tb = traceback.extract_tb(ex.__traceback__)
            if not tb or "/ebpfcat/" not in tb[-1].filename:
                raise core.Internal(f"harness error in work_pyset: {ex!r}")
            res.violation(dict(kind="pyset", sign=sign, ip=ip, k=k,
                               decimal=s), w, repr(ex),
                          sig=core.digest(["pyset-exc", type(ex).__name__]),
                          note="assignment from Python raises")
            continue
        other = bytes(buf[:addr]) + bytes(buf[addr + 8:])
        if any(other):
            res.violation(dict(kind="pyset", sign=sign, ip=ip, k=k,
                               decimal=s), "only the variable's 8 bytes",
                          bytes(buf).hex(), sig="pyset-neighbour",
                          note="assignment wrote outside the variable")
            continue
        if raw == w and abs(Fraction(back) - Fraction(w, FB)) < \
                Fraction(1, 2 * FB):
            res.outcomes.add(("pyset-ok", sign))
            continue
        kf = KF_PYSET if raw == int(c * FB) and round(c * FB) == w and \
            back == raw / FB else None
        res.outcomes.add(("pyset-wrong", str(kf)))
        res.violation(dict(kind="pyset", sign=sign, ip=ip, k=k, decimal=s),
                      dict(raw=w, back=s), dict(raw=raw, back=repr(back)),
                      kf=kf, sig=core.digest(["pyset", sign, str(kf)]),
                      note="decimal assigned from Python not represented "
                           "exactly")
    # read side alone: every raw value on the grid reads back as its decimal
    for k in range(k0, k1):
        w = sign * (ip * FB + k)
        struct.pack_into("q", buf, addr, w)
        back = e.fx
        res.count("evaluations")
        if abs(Fraction(back) - Fraction(w, FB)) >= Fraction(1, 2 * FB):
            res.violation(dict(kind="pyget", sign=sign, ip=ip, k=k),
                          str(Fraction(w, FB)), repr(back),
                          sig="pyget", note="unpack of a fixed variable")


X0, X1, X2 = ("reg", "x", 0), ("reg", "x", 1), ("loc", "x", 2)
SR1, SW0 = ("reg", "sr", 1), ("reg", "sw", 0)
NAMED = [      # shapes behind the documented findings: in every tier
    (("cmp", ">", ("//", ("const", 2.5), X1), X2), None),
    (("cmp", "<=", ("-", ("const", 3), X1), X2), None),
    (("cmp", "==", ("%", ("const", 7), X1), X2), None),
    (("cmp", ">", X0, ("const", 0.29)), None),
    (("*", X0, X1), ("reg", "x")),
    (("+", X0, X1), ("reg", "sr")),
    (("+", SR1, ("const", 0.29)), ("reg", "x")),
    (("/", ("const", 0.29), X1), ("reg", "x")),
    (("-", ("const", 2), X1), ("reg", "sr")),
    (("+", SW0, X1), ("reg", "x")),
    (("/", SR1, X0), ("loc", "x")),
]


def work_named(item, res):
    tree, dest, seed = item
    trees = [tree[2], tree[3]] if tree[0] == "cmp" else [tree]
    envs = list(vectors(var_leaves(trees), seed, False))
    run_case(tree, dest, None, envs, res, True)


def work(item, res):
    {"named": work_named, "d1": work_d1, "copy": work_copy, "d2": work_d2, "cmpx": work_cmpx,
     "const": work_const, "pyset": work_pyset}[item[0]](item[1:], res)


def items_for(ctx):
    leaves, ints, floats, dests = alphabet(ctx)
    consts = [("const", c) for c in floats + ints]
    ke = 9 if ctx.quick else 6
    items = [("named", tree, dest, ctx.seed) for tree, dest in NAMED]
    for lt in leaves + consts:
        for rt in leaves + consts:
            if lt[0] == "const" and rt[0] == "const":
                continue
            rt2 = rt if rt[0] == "const" else rt[:2] + (1,)
            items.append(("d1", lt, rt2, dests, ctx.seed, ctx.quick, ke))
    for lt in leaves + consts:
        items.append(("copy", lt, dests, ctx.seed, ctx.quick))
    if ctx.quick:
        l2 = [("reg", "x"), ("loc", "x"), ("reg", "sr"), ("const", 2.5),
              ("const", 3)]
        d2 = [("reg", "x"), ("loc", "q")]
        cap = 250
        cmps = [">", "=="]
    else:
        l2 = [("reg", "x"), ("loc", "x"), ("reg", "sr"), ("reg", "w"),
              ("loc", "h"), ("const", 0.29), ("const", -2.5), ("const", 3)]
        d2 = [("reg", "x"), ("reg", "sr"), ("loc", "i")]
        cap = 250
        cmps = list(CMP)
    m = 0
    for a, b, c in itertools.product(l2, repeat=3):
        if sum(x[0] == "const" for x in (a, b, c)) >= 2:
            continue
        a, b, c = [x if x[0] == "const" else x + (i,)
                   for i, x in enumerate((a, b, c))]
        for op1 in ARITH:
            m += 1
            if ctx.quick and (m + ctx.seed) % 3:
                continue
            items.append(("d2", a, b, c, op1, d2, ctx.seed, ke, cap))
            items.append(("cmpx", a, b, c, op1, cmps, ctx.seed, ke, cap))
    variants = VARIANTS[:3] if ctx.quick else VARIANTS
    n = 0
    for k0 in (83600, 83650):       # 21474.83648 * 100000 = 2^31
        items.append(("const", 1, 21474, k0, True))
        items.append(("const", -1, 21474, k0, False))
    for sign, ip in variants:
        for k0 in range(0, FB, CHUNK):
            n += 1
            items.append(("const", sign, ip, k0, n % 40 == 0))
        for k0 in range(0, FB, 5000):
            items.append(("pyset", sign, ip, k0, k0 + 5000))
    return items


def selftest():
    """the oracle on hand-computed cases"""
    x, r = ("reg", "x", 0), ("reg", "sr", 1)
    chk = [
        (("*", x, ("const", 0.5)), ("reg", "x"), {x: 1}, {0}),
        (("*", x, ("const", 0.5)), ("reg", "x"), {x: -1}, {0, M64}),
        (("/", r, ("const", 3)), ("reg", "x"), {r: -1},
         {(-33333) & M64, (-33334) & M64}),
        (("//", x, ("const", 2)), ("reg", "sr"), {x: 350000}, {1}),
        (("%", x, ("const", 2)), ("reg", "x"), {x: 750000}, {150000}),
        (("+", r, ("const", 0.29)), ("reg", "sr"), {r: 2}, {2}),
        (("-", ("const", 2), x), ("reg", "sr"), {x: 350000},
         {M64, (-2) & M64}),
    ]
    for tree, dest, env, want in chk:
        got = expected(tree, dest, env)
        if got != want:
            raise core.Internal(f"oracle self-test: {tree} {env}: {got} "
                                f"!= {want}")
    try:
        expected(("*", x, x), ("reg", "x"), {x: 1 << 40})
    except Outside:
        pass
    else:
        raise core.Internal("oracle self-test: precondition not enforced")


def run(ctx):
    selftest()
    items = items_for(ctx)
    res = core.pmap(ctx, work, items, chunk=6)
    res.cov["work_items"] = len(items)
    res.cov["families"] = {k: sum(1 for i in items if i[0] == k)
                           for k in ("named", "d1", "copy", "d2", "cmpx", "const",
                                     "pyset")}
    res.cov["states"] = len(res.nontrivial)
    res.cov.setdefault("transitions", 0)
    res.cov["traces_validated_against_impl"] = res.cov.get("evaluations", 0)
    res.cov["kernel_available"] = kern.available()
    res.sample(dict(tree=["*", ["reg", "x", 0], ["const", 0.29]],
                    dest=["loc", "q"]))
    res.sample(dict(kind="const", decimal="0.29000"))
    res.assumptions += [
        "narrowest width W = 32 as soon as one variable operand or the "
        "destination is 1..4 bytes wide, else 64; every leaf and every "
        "intermediate value times 100000 must fit W bits signed, and the "
        "doubly scaled value (times 10^10) for a product of two fixed-point "
        "values and for the numerator of a true division; otherwise the case "
        "is executed and counted but not judged",
        "as in C01 a sub-expression built only from unsigned integer "
        "variables and non-negative constants is an unsigned operation: a "
        "negative exact value of it does not fit and puts the case outside "
        "the precondition (fixed-point variables are signed)",
        "an intermediate fixed-point product or quotient may be carried "
        "exactly or dropped to the 1/100000 grid (toward zero or toward minus "
        "infinity); floor division and remainder accept both roundings; the "
        "stored result accepts both roundings",
        "a decimal is what the programmer wrote: float constant c stands for "
        "Fraction(repr(c))",
        "Python read-back of a fixed variable only has to round to the same "
        "five-digit decimal",
        "32-bit register operands are planted zero-extended",
        "programs the generator refuses (TypeError/AssembleError/"
        "struct.error) are counted, not judged; an internal error of the "
        "generator (AssertionError, AttributeError ...) is reported as a "
        "violation"]
    return res


def tup(x):
    return tuple(tup(y) for y in x) if isinstance(x, list) else x


def replay(ctx, rep):
    res = core.Result()
    c = rep["case"]
    if c.get("kind") == "const":
        k0 = c["k"] - c["k"] % CHUNK
        work_const((c["sign"], c["ip"], k0, False), res)
        return [v for v in res.violations if v["case"]["k"] == c["k"]
                and v["case"]["path"] == c["path"]]
    if c.get("kind") in ("pyset", "pyget"):
        work_pyset((c["sign"], c["ip"], c["k"], c["k"] + 1), res)
        return res.violations
    tree = tup(c["tree"])
    dest = tup(c["dest"]) if c["dest"] is not None else None
    env = {tup(k): v for k, v in c["env"]}
    run_case(tree, dest, c["alias"], [env], res)
    p = build(tree, dest, c["alias"], core.Result())
    if p is not None:
        print(bpfvm.disasm(p.b._decoded))
    return res.violations
