#!/bin/bash
# run every claimed check's quick tier sequentially; one summary line each
cd "$(dirname "$0")/.."
for p in $(python3 -c "import json;print(' '.join(c['property_id'] for c in json.load(open('MANIFEST.json'))['checks']))") "$@"; do
  /usr/bin/time -f "%e s" -o /tmp/allquick.time ./check $p ${TIER:+--tier $TIER} > /tmp/allquick.one 2>&1
  rc=$?
  echo "$p rc=$rc $(cat /tmp/allquick.time | tail -1) | $(grep -c '^KNOWN-FINDING' /tmp/allquick.one) KF | $(grep -v '^  \|Trace\|resource_tracker\|KNOWN-FINDING' /tmp/allquick.one | tail -1 | cut -c1-150)"
done
