#!/usr/bin/env python3
"""markdown table of measured sizes / wall times from two allquick logs
usage: cost_table.py QUICKLOG THOROUGHLOG"""
import re
import sys


def parse(path):
    out = {}
    for line in open(path):
        m = re.match(r"(C\d\d) rc=(\d+) ([\d.]+) s \| (\d+) KF \| .*?: (\d+) "
                     r"evaluations, (\d+) distinct", line)
        if m:
            out[m.group(1)] = (int(m.group(2)), float(m.group(3)),
                               int(m.group(4)), int(m.group(5)),
                               int(m.group(6)))
    return out


q, t = parse(sys.argv[1]), parse(sys.argv[2])
print("| Prop | quick: evaluations / wall | thorough: evaluations / wall | "
      "known findings reported |")
print("|---|---|---|---|")
for p in sorted(q):
    a, b = q[p], t.get(p)
    tt = f"{b[3]:,} / {b[1]:.0f} s" if b else "-"
    print(f"| {p} | {a[3]:,} / {a[1]:.0f} s | {tt} | {a[2]} |")
print()
print(f"Sum of the quick tiers: {sum(v[1] for v in q.values()) / 60:.1f} min; "
      f"of the thorough tiers: {sum(v[1] for v in t.values()) / 60:.0f} min.")
