"""C09 - hash-map variables and Dict entries agree between Python and program.

Explicit-state breadth-first search over operation sequences.  A state is
the content of the kernel map (for LRU maps including the recency order of
the simulated kernel); it is re-established before every transition by
writing the map directly (simulated kernel: the BpfMap; real kernel: raw
bpf() calls from mc/kern), so every edge of the reachable graph is executed
once on the real ebpfcat code:

* Python operations go through the real descriptors / TheDict methods and
  the (simulated or real) bpf() wrappers;
* program operations are blocks emitted by the real DSL (`Dict.update()`,
  `lookup()`+Else, member access, hash-map variable reads and writes),
  selected at run time by a packet byte through raw guard jumps, loaded with
  the real `EBPF.load()` and executed by the independent interpreter.

Every transition is judged locally by a reference model (independent 64-bit
cells; a plain dict of packed tuples).  A deterministic subset of
configurations runs the same edges unpatched on the real kernel and must
give the same results.

Python-side Dict operations include those that first *collect* what the
iteration hands out (list(d), list(d.keys()), sorted(d), list(d.items()))
and only then use it (compare, look every key up, delete / pop every key).
Formats with their own byte order ('>H', '!i', '<Q' ...) are enumerated for
Dict key / value members and for hash-map variables; for the latter only
values are judged (what either side wrote must be read back by both), not
the layout of the cell.

Program classes with two and three HashMap objects (the variables
distributed over them in different numbers, the declarations of the maps
interleaved, defaults, plain and byte-order-prefixed formats) and classes
with a Dict (key B, value Q, keys 1 and 2 - the keys the variables of every
HashMap have, too) next to the HashMap(s) go through the same search: the
state is the tuple of all variables' cells (and the Dict's entries), the
reference is the same - independent cells -, so a write to a variable of one
map that shows in a variable of another map (or in the Dict, or a Dict
operation that shows in a variable) is an edge that differs from the model.

Dict declarations whose Key / Value Structure classes have ancestors
(dict_inherit_configs): the class handed to the Dict is the last of a chain
base class - subclass adding members [- sub-subclass], members of all sizes,
cut at every place; the program class has only that Dict, or a second Dict
declared with the base classes before / after it; instances of the base
classes are made in Python before the library ever instantiates the derived
ones, or after load().  The layout oracle is the same (what one side stores
the other finds, member by member, the program addressing the inherited and
the added members through the Dict's key / value on its stack); the second
Dict holds one entry that every operation on the first must leave alone and
that Python (with base class instances) and the program must find.  There
the universe also holds Structure instances of which only the inherited
members (or only the first member) were assigned - the rest must be 0 on
both sides -, and every instance made in Python is read back member by
member after the operation it was made for.

A second search runs several program instances in one process (two and three
instances of one program class, two classes built from the same declaration,
an instance that was close()d next to a later one, an instance created after
an earlier one was used, closed and garbage-collected): breadth-first over
the interleavings of a reduced operation alphabet, a state being the tuple of
the instances' map contents; every instance has its own reference model and
no operation may change another instance's map.

A third search enumerates life-cycle histories of program objects with
hash-map variables: starting from one loaded instance, the alphabet {Python
write, program write (test run), close(), load() again on the same program
object (closed before or not), one more instance of the same class loaded} -
thorough also program copies between variables, load(log_level=1), an
instance of a second class built from the same declaration, three instances -
breadth-first up to a depth bound, deduplicated on the state of the
reference (per instance: program open or closed, the variables' cells).
Every edge runs in a world of its own (a fresh simulated kernel / fresh
descriptors of the real one): the shortest history leading to the state is
executed literally on the real code, then the operation, then every instance
is read from Python and (if its program is open) by a run of its program.
Reference: every load() of an instance leaves its variables at their
declared defaults and touches no other instance, close() changes nothing,
writes are read back by the other side.  Some configurations run the same
histories on the real kernel, which must give the same observations.
"""
import contextlib
import gc
import itertools
import struct

from mc import core, dsl, kern, simkernel
from ebpfcat.bpf import ProgType, UpdateFlags
from ebpfcat.ebpf import EBPF, Instruction, Member, Structure
from ebpfcat.hashmap import Dict, HashMap
from harness.c08_arraymap import real_kernel

PROP = "C09"
LEVEL = "model_checking"
RULE = ("configurations = hash-map variable sets (formats I i Q q B h and, "
        "judged on values only, >H >I !h <I >q <Q !B >i <h; defaults 0 5 -1, "
        "1-3 variables; classes with two and three HashMaps, 2-5 variables "
        "distributed 1+1 (all format pairs), 1+2, 2+1, 2+2, 3+1, 1+3, "
        "1+1+1, 2+1+1 ... with interleaved declarations; classes with a "
        "Dict(B -> Q) before / after one or two HashMaps, the Dict's "
        "entries being part of the state and Python / program writes, "
        "deletes and lookups of its keys part of the alphabet) "
        "and Dict declarations (packed Structure member lists "
        "over sizes 1/2/4/8 for key and value, plus declarations whose "
        "members carry their own byte order, size 2/31, lru on/off; plus "
        "declarations whose Key and / or Value class is the last of an "
        "inheritance chain of Structure classes - every packed list of 2-3 "
        "members cut into base class + subclass at every place or into "
        "three classes - x {only that Dict, a second Dict with the base "
        "classes declared before / after it} x {base class instances made "
        "in Python never / before the first derived instance / after "
        "load()}, keys and values partly assigned (all members / inherited "
        "members only), Python and program operations on the second Dict "
        "part of the alphabet, every Python-made instance read back); per "
        "configuration a breadth-first search over operation sequences "
        "(Python operations including collect-then-use iterations: list, "
        "keys, sorted, items, look up / delete / pop every listed key; "
        "program operations) from the freshly loaded program up to the depth "
        "bound, deduplicated on the map content; plus, for a few "
        "configurations x six instance plans (two / three instances of one "
        "class, two classes, closed first, reborn after close + garbage "
        "collection, dropped), a breadth-first search over the interleaved "
        "operations of all instances alive, a state being the tuple of their "
        "map contents; every edge (state, operation) is executed on the real "
        "code and compared with the reference model of the instance acted "
        "on, all other instances must stay as they were; plus life-cycle "
        "histories of hash-map variable classes (1-4 variables, one to three "
        "HashMaps, all plain formats x defaults): from one loaded instance, "
        "operations {Python write, program write, close(), load() again on "
        "the same object whether closed or not, one more instance of the "
        "class loaded; thorough: program copy, load(log_level=1), an "
        "instance of a second class, up to three instances} breadth-first "
        "to depth 3-4, deduplicated on the reference state (per instance "
        "open / closed and cells), every edge executed as a literal history "
        "in a fresh kernel and every instance then read from both sides: "
        "after each load() of an instance its variables hold the declared "
        "defaults, nobody else's change; an edge is "
        "non-trivial when the operation was accepted by the library and had "
        "an observable result; distinct = distinct (configuration [, plan], "
        "state, [instance,] operation)")

M64 = (1 << 64) - 1
HDR = 16
SEL = 14                 # packet byte selecting the program operation
E2BIG, EEXIST, ENOENT = 7, 17, 2

KF_ITER = "C09-dict-iterate-empty"
KF_POP = "C09-dict-pop-does-not-delete"


def sx64(v):
    v &= M64
    return v - (1 << 64) if v >> 63 else v


# ====================================================================
# backends
# ====================================================================
class SimBackend:
    name = "sim"

    def __init__(self, n_possible=1):
        self.sk = simkernel.SimKernel(n_possible=n_possible)

    def context(self):
        return self.sk.installed()

    def run(self, fd, pkt):
        pkt = bytearray(pkt)
        ret, vm = self.sk.run_prog(fd, pkt)
        self.steps = vm.steps
        return ret, bytes(pkt)

    def snapshot(self, mapfd):
        m = self.sk.map_of(mapfd)
        return [(bytes(k), bytes(v)) for k, v in m.entries.items()]

    def restore(self, mapfd, entries):
        m = self.sk.map_of(mapfd)
        m.entries = {bytes(k): bytearray(v) for k, v in entries}

    def ordered(self, mapfd):
        return self.sk.map_of(mapfd).type == 9

    def close(self):
        self.sk.close_all()


class RealBackend:
    name = "real"
    steps = 0

    def context(self):
        return real_kernel()

    def run(self, fd, pkt):
        return kern.test_run(fd, bytes(pkt))

    def __init__(self):
        self.sizes = {}         # map fd -> (key size, value size)

    def snapshot(self, mapfd):
        ks, vs = self.sizes[mapfd]
        out, k = [], None
        while True:
            k = kern.map_next_key(mapfd, k, ks)
            if k is None:
                break
            out.append((k, kern.map_lookup(mapfd, k, vs)))
        return sorted(out)

    def restore(self, mapfd, entries):
        for k, _ in self.snapshot(mapfd):
            kern.map_delete(mapfd, k)
        for k, v in entries:
            kern.map_update(mapfd, k, v)

    def ordered(self, mapfd):
        return False

    def close(self):
        pass


@contextlib.contextmanager
def guard(b, sel):
    """raw `if packet[SEL] != sel: skip the block` around DSL statements"""
    e = b.e
    with e.get_free_register(None) as tmp:
        b.raw(0x71, tmp, 9, SEL, 0)
        idx = len(e.opcodes)
        e.opcodes.append(None)
    yield
    e.opcodes[idx] = Instruction(dsl.Raw(0x55), tmp, 0,
                                 len(e.opcodes) - idx - 1, sel)


def fmt_range(fmt):
    bits = struct.calcsize(fmt) * 8
    if fmt.islower():
        return -(1 << (bits - 1)), (1 << (bits - 1)) - 1
    return 0, (1 << bits) - 1


def has_prefix(fmt):
    """does the format carry its own byte order ('>H', '!i', '<Q')"""
    return fmt[0] in "<>!"


def sf(fmt):
    """struct format of the reference encoding: a format with its own byte
    order keeps it, everything else is little endian"""
    return fmt if has_prefix(fmt) else "<" + fmt


def preamble_of(e):
    """the Builder's raw preamble in a program under construction (maps
    may have emitted their own initialisation before it)"""
    return [i for i in e.opcodes if isinstance(i.opcode, dsl.Raw)][:7]


class SiblingBuilder(dsl.Builder):
    """a Builder around one more instance of the program class of `first`
    (same packet layout, same raw preamble)"""

    def __init__(self, first, preamble):
        for k in ("pv_area", "in_off", "n_in", "n_out", "out_off", "pkt_len",
                  "cls"):
            setattr(self, k, getattr(first, k))
        if len(preamble) != 7 or not all(
                isinstance(i.opcode, dsl.Raw) for i in preamble):
            raise core.Internal("unexpected Builder preamble")
        self.e = self.cls(prog_type=ProgType.XDP, license="GPL",
                          subprograms=())
        self.e.opcodes.extend(preamble)
        self.e.owners.add(9)
        self._decoded = None


# ====================================================================
# hash-map variables
# ====================================================================
HFMT = ["I", "i", "Q", "q", "B", "h"]
# formats with their own byte order: judged on values, see HashVarCase
XHFMT = [">H", ">I", "!h", "<I", ">q", "<Q", "!B", ">i", "<h"]
DEFAULTS = [0, 5, -1]
KF_BEGET = "C09-hashvar-bigendian-python-read"


def hv_values(fmt):
    lo, hi = fmt_range(fmt)
    out = [hi, lo if lo else (hi + 1) >> 1]
    if has_prefix(fmt):
        # one value that is no byte palindrome: a swapped read shows
        out.append(0x0102030405060708 >> (64 - 8 * struct.calcsize(fmt)))
    return out


DK = (1, 2)             # keys of the Dict next to hash maps (the keys of
                        # the first two variables of every HashMap, too)


def hv_maps(cfg):
    """for every variable the number of the HashMap it is declared in"""
    return tuple(cfg.get("maps") or (0,) * len(cfg["vars"]))


class HashVarCase:
    """class with HashMaps and variables v0..; program:
    sel 1+j: v_j = packet value; sel 8+j: v_j = packet value + 1;
    sel 16+5j+k: v_j = v_k; always: every variable is copied to the packet.

    cfg["vars"]: (format, default) per variable; cfg["maps"] (optional): for
    every variable the number of the HashMap it is declared in (default: one
    map) - a map is declared right before its first variable, so the
    declarations of several maps interleave as the numbers do; cfg["dict"]
    (optional, "first" / "last"): the class also has a Dict (key B, value Q)
    declared before / after everything else; the program then also has
    sel 60+k: ht[DK[k]] = packet value, and always looks both keys up.

    Two ways of judging.  Variable sets of plain formats ("cell mode"): the
    program writes whole 64-bit cells (a 64-bit packet value, another
    variable's cell), the variable is the low calcsize(fmt) bytes of its
    cell, and the raw map content is part of the verdict.  Sets containing a
    format with its own byte order ("value mode"): how such a variable is
    laid out in its cell is the library's business, so only values are
    judged - the program writes the number it read from the packet with the
    variable's own (native) letter, copies only between variables of equal
    format, and a number written by either side must be read back by both.

    sibling_of: build one more instance of that case's program class"""

    def __init__(self, cfg, backend, with_program=True, sibling_of=None):
        self.cfg = cfg
        self.be = backend
        self.vars = cfg["vars"]
        self.maps = hv_maps(cfg)
        self.dictpos = cfg.get("dict")
        self.nd = len(DK) if self.dictpos else 0
        self.valmode = any(has_prefix(f) for f, d in self.vars)
        n = len(self.vars)
        if n > 5 or len(self.maps) != n or (self.nd and self.valmode):
            raise core.Internal(f"C09: configuration {cfg}")
        if sibling_of is None:
            attrs, Ms = {}, {}
            if self.dictpos:
                self.Key = type("Key", (Structure,), {"k0": Member("B")})
                self.Value = type("Value", (Structure,), {"m0": Member("Q")})
                ht = Dict(key=self.Key, value=self.Value, size=4, lru=False)
            if self.dictpos == "first":
                attrs["ht"] = ht
            for j, (f, d) in enumerate(self.vars):
                k = self.maps[j]
                if k not in Ms:
                    Ms[k] = HashMap()
                    attrs["hmap" if k == 0 else f"hmap{k}"] = Ms[k]
                attrs[f"v{j}"] = Ms[k].globalVar(f, default=d)
            if self.dictpos == "last":
                attrs["ht"] = ht
            b = dsl.Builder(attrs, n_in=4 if self.nd else 1,
                            n_out=n + 2 * self.nd, pv_area=HDR)
        else:
            if self.dictpos:
                self.Key, self.Value = sibling_of.Key, sibling_of.Value
            b = SiblingBuilder(sibling_of.b, sibling_of.preamble)
        self.b = b
        e = self.e = b.e
        self.preamble = preamble_of(e)
        if with_program:
            self.emit()
        b.finish(2)
        e.load()
        self.closed = False
        self.fds = [e.__dict__[f"v{j}"].fd for j in range(n)]
        self.mapfd = self.fds[0]
        self.dictfd = e.ht.fd if self.nd else None
        if isinstance(backend, RealBackend):
            for fd in self.fds + ([self.dictfd] if self.nd else []):
                backend.sizes[fd] = (1, 8)
        self.keys = None

    def copies(self, j, k):
        return j != k and (not self.valmode or
                           self.vars[j][0] == self.vars[k][0])

    def emit(self):
        b, e, n = self.b, self.e, len(self.vars)
        for j, (f, d) in enumerate(self.vars):
            src = getattr(e, "m" + f[-1]) if self.valmode else e.mQ
            with guard(b, 1 + j):
                setattr(e, f"v{j}", src[e.r9 + b.in_off])
            # a computed value: goes through the generator's spill
            # temporary (Expression.get_address)
            with guard(b, 8 + j):
                setattr(e, f"v{j}", src[e.r9 + b.in_off] + 1)
        for j in range(n):
            for k in range(n):
                if self.copies(j, k):
                    with guard(b, 16 + 5 * j + k):
                        setattr(e, f"v{j}", getattr(e, f"v{k}"))
        if self.nd:
            d = e.ht
            with guard(b, 60):
                d.key.k0 = e.mB[e.r9 + (b.in_off + 8)]
                d.value.m0 = e.mQ[e.r9 + b.in_off]
                d.update(UpdateFlags.ANY)
        if self.nd:
            # the first key is put in place before the variables are read
            # and used afterwards: the Dict keeps its key on the stack
            e.ht.key.k0 = e.mB[e.r9 + (b.in_off + 16)]
        for j, (f, d) in enumerate(self.vars):
            getattr(e, "m" + f[-1])[e.r9 + (b.out_off + 8 * j)] = \
                getattr(e, f"v{j}")
        for k in range(self.nd):
            d = e.ht
            o = b.out_off + 8 * (n + 2 * k)
            if k:
                d.key.k0 = e.mB[e.r9 + (b.in_off + 16 + 8 * k)]
            with d.lookup() as (value, Else):
                e.mQ[e.r9 + (o + 8)] = value.m0
                e.mB[e.r9 + o] = 1
            with Else:
                e.mB[e.r9 + o] = 2

    def close(self):
        """EBPF.close(): the program's descriptor goes, the maps stay in use
        (what XDP.run does after attaching)"""
        self.e.close()
        self.closed = True

    def mapfds(self):
        return list(dict.fromkeys(self.fds))

    def snapshot_all(self):
        """{(descriptor, key): value} of all maps the variables are in"""
        return {(fd, k): v for fd in self.mapfds()
                for k, v in self.be.snapshot(fd)}

    def restore_all(self, content):
        for fd in self.mapfds():
            self.be.restore(fd, [(k, v) for (f, k), v in content.items()
                                 if f == fd])

    def learn_keys(self):
        """which map entry (of which map) belongs to which variable (by
        probing)"""
        before = self.snapshot_all()
        if len(before) != len(self.vars):
            return None
        keys = []
        for j, (f, d) in enumerate(self.vars):
            marker = 0x5a if d != 0x5a else 0x33
            setattr(self.e, f"v{j}", marker)
            now = self.snapshot_all()
            ch = [k for k in now if now[k] != before.get(k)]
            if len(ch) != 1 or ch[0] in keys or len(now) != len(before):
                return None
            keys.append(ch[0])
            self.restore_all(before)
        self.keys = keys
        return keys

    def cells(self):
        """the variables' cells, then (with a Dict) the values under DK -
        None: no such entry - and, should there be any, the other entries"""
        snap = self.snapshot_all()
        out = [struct.unpack("<Q", snap[k])[0] if k in snap and
               len(snap[k]) == 8 else None for k in self.keys]
        if self.nd:
            cont = dict(self.be.snapshot(self.dictfd))
            for k in DK:
                v = cont.pop(bytes([k]), None)
                out.append(None if v is None else
                           struct.unpack("<Q", v)[0] if len(v) == 8 else v)
            if cont:
                out.append(sorted(cont.items()))
        return tuple(out)

    def set_cells(self, cells):
        n = len(self.vars)
        self.restore_all({k: struct.pack("<Q", c)
                          for k, c in zip(self.keys, cells[:n])})
        if self.nd:
            self.be.restore(self.dictfd, [
                (bytes([k]), struct.pack("<Q", c))
                for k, c in zip(DK, cells[n:]) if c is not None])

    def ops(self):
        n = len(self.vars)
        out = []
        for j, (f, d) in enumerate(self.vars):
            vals = hv_values(f)
            for v in vals:
                out.append(("pyset", j, v))
            if self.closed:
                continue
            if self.valmode:
                hi = fmt_range(f)[1]
                for v in vals:
                    out.append(("progset", j, v))
                for v in vals[:2]:
                    out.append(("progexpr", j, v - 1 if v == hi else v))
            else:
                for v in vals:
                    out.append(("progset", j, v & M64))
                for v in vals[:3]:
                    out.append(("progexpr", j, v & M64))
            for k in range(n):
                if self.copies(j, k):
                    out.append(("progcopy", j, k))
        for k in range(self.nd):
            for v in hv_values("Q"):
                out.append(("dpyset", k, v))
                if not self.closed:
                    out.append(("dprogset", k, v))
            out.append(("dpydel", k))
        return out

    def _plant(self, pkt, j, v):
        f = "<" + self.vars[j][0][-1] if self.valmode else "<Q"
        struct.pack_into(f, pkt, self.b.in_off, v)

    def _lookup_keys(self, pkt):
        for k in range(self.nd):
            pkt[self.b.in_off + 16 + 8 * k] = DK[k]

    def _dkey(self, k):
        o = self.Key()
        o.k0 = DK[k]
        return o

    def apply(self, op):
        kind = op[0]
        if kind in ("pyset", "dpyset", "dpydel"):
            try:
                if kind == "pyset":
                    setattr(self.e, f"v{op[1]}", op[2])
                elif kind == "dpyset":
                    o = self.Value()
                    o.m0 = op[2]
                    self.e.ht[self._dkey(op[1])] = o
                else:
                    del self.e.ht[self._dkey(op[1])]
                return ("ok",)
            except Exception as ex:
                if isinstance(ex, simkernel.SimTrap):
                    raise
                return ("exc", type(ex).__name__)
        pkt = bytearray(self.b.pkt_len)
        self._lookup_keys(pkt)
        if kind == "progset":
            pkt[SEL] = 1 + op[1]
            self._plant(pkt, op[1], op[2])
        elif kind == "progexpr":
            pkt[SEL] = 8 + op[1]
            self._plant(pkt, op[1], op[2])
        elif kind == "dprogset":
            pkt[SEL] = 60
            struct.pack_into("<Q", pkt, self.b.in_off, op[2])
            pkt[self.b.in_off + 8] = DK[op[1]]
        else:
            pkt[SEL] = 16 + 5 * op[1] + op[2]
        try:
            ret, out = self.be.run(self.e.file_descriptor, pkt)
        except simkernel.SimTrap as t:
            return ("trap", str(t))
        return ("ret", ret)

    def observe(self):
        """-> (python reads, program reads as raw bytes); with a Dict both
        are followed by what is found under DK"""
        py = []
        for j, (f, d) in enumerate(self.vars):
            try:
                py.append(getattr(self.e, f"v{j}"))
            except Exception as ex:
                if isinstance(ex, simkernel.SimTrap):
                    raise
                py.append("exc:" + type(ex).__name__)
        for k in range(self.nd):
            try:
                py.append(self.e.ht[self._dkey(k)].m0)
            except KeyError:
                py.append("absent")
            except Exception as ex:
                if isinstance(ex, simkernel.SimTrap):
                    raise
                py.append("exc:" + type(ex).__name__)
        if self.closed:
            return py, ("closed",)
        pkt = bytearray(self.b.pkt_len)
        self._lookup_keys(pkt)
        try:
            ret, out = self.be.run(self.e.file_descriptor, pkt)
        except simkernel.SimTrap as t:
            return py, ("trap", str(t))
        prog = [bytes(out[self.b.out_off + 8 * j:self.b.out_off + 8 * j + 8])
                for j in range(len(self.vars) + 2 * self.nd)]
        return py, (ret, prog)


def hv_expected(vars_, cells, op):
    """reference, cell mode: independent 64-bit cells (and, behind them,
    the Dict: one value or None per key of DK)
    -> (expected result, cells)"""
    cells = list(cells)
    n = len(vars_)
    if op[0] == "pyset":
        cells[op[1]] = op[2] & M64
        return ("ok",), tuple(cells)
    if op[0] == "dpyset":
        cells[n + op[1]] = op[2] & M64
        return ("ok",), tuple(cells)
    if op[0] == "dpydel":
        if cells[n + op[1]] is None:
            return ("exc", "KeyError"), tuple(cells)
        cells[n + op[1]] = None
        return ("ok",), tuple(cells)
    if op[0] == "progset":
        cells[op[1]] = op[2] & M64
    elif op[0] == "progexpr":
        cells[op[1]] = (op[2] + 1) & M64
    elif op[0] == "dprogset":
        cells[n + op[1]] = op[2] & M64
    else:
        cells[op[1]] = cells[op[2]]
    return ("ret", 2), tuple(cells)


def hv_expected_val(vars_, vals, op):
    """reference, value mode: independent variables holding numbers
    -> (expected result, values)"""
    vals = list(vals)
    if op[0] == "pyset":
        vals[op[1]] = op[2]
        return ("ok",), tuple(vals)
    if op[0] == "progset":
        vals[op[1]] = op[2]
    elif op[0] == "progexpr":
        vals[op[1]] = op[2] + 1
    else:
        vals[op[1]] = vals[op[2]]
    return ("ret", 2), tuple(vals)


def hv_cfgj(cfg):
    """a configuration as it is written into a report"""
    cj = dict(kind="hashvars", vars=[list(v) for v in cfg["vars"]])
    if cfg.get("maps"):
        cj["maps"] = list(cfg["maps"])
    if cfg.get("dict"):
        cj["dict"] = cfg["dict"]
    return cj


def hv_cfg_of(c):
    """... and back"""
    cfg = dict(vars=[tuple(v) for v in c["vars"]])
    if c.get("maps"):
        cfg["maps"] = tuple(c["maps"])
    if c.get("dict"):
        cfg["dict"] = c["dict"]
    return cfg


def hv_decode(fmt, cell):
    raw = struct.pack("<Q", cell)[:struct.calcsize(fmt)]
    return struct.unpack("<" + fmt, raw)[0]


def kf_beget(fmt, exp, ob):
    """the documented deviation C09-hashvar-bigendian-python-read: the cell
    holds the number natively (that is how Python's __set__, load() and the
    program store it and how the program reads it), and Python's __get__
    decodes the first bytes of that cell with the big-endian format"""
    if fmt[0] not in ">!" or struct.calcsize(fmt) == 1 or \
            not isinstance(ob, int) or isinstance(ob, bool) or ob == exp:
        return False
    try:
        raw = struct.pack("<q" if fmt.islower() else "<Q", exp)
    except struct.error:
        return False
    return ob == struct.unpack_from(fmt, raw)[0]


def hv_check_observation(vars_, model, obs, valmode=False):
    """model: the cells (cell mode; behind them the Dict's values, if the
    class has one) or the values (value mode)
    -> list of (what, expected, observed, known-finding id or None)"""
    py, prog = obs
    bad = []
    n = len(vars_)
    want = [model[j] if valmode else hv_decode(f, model[j])
            for j, (f, d) in enumerate(vars_)]
    for j, (f, d) in enumerate(vars_):
        if py[j] != want[j] or isinstance(py[j], bool):
            bad.append((f"Python read of v{j} ({f})", want[j], py[j],
                        KF_BEGET if valmode and kf_beget(f, want[j], py[j])
                        else None))
    dvals = list(model[n:])
    for k, v in enumerate(dvals):
        exp = "absent" if v is None else v
        if py[n + k] != exp:
            bad.append((f"Python read of ht[{DK[k]}]", exp, py[n + k], None))
    if prog[0] == "closed":
        pass
    elif prog[0] == "trap":
        bad.append(("program run", "returns 2", prog[1], None))
    elif prog[0] != 2:
        bad.append(("program return value", 2, prog[0], None))
    else:
        for j, (f, d) in enumerate(vars_):
            exp = struct.pack("<" + f[-1], want[j])
            exp += bytes(8 - len(exp))
            if prog[1][j] != exp:
                bad.append((f"program read of v{j} ({f})", exp, prog[1][j],
                            None))
        for k, v in enumerate(dvals):
            exp = [bytes([2]) + bytes(7), bytes(8)] if v is None else \
                [bytes([1]) + bytes(7), struct.pack("<Q", v)]
            got = list(prog[1][n + 2 * k:n + 2 * k + 2])
            if got != exp:
                bad.append((f"program lookup of ht[{DK[k]}] (found / Else, "
                            "value)", exp, got, None))
    return bad


def explore_hashvars(cfg, depth, backend_cls, res, sink, shadow=None):
    """BFS; -> list of edge observations (for the differential)"""
    be = backend_cls()
    log = []
    cj = hv_cfgj(cfg)
    try:
        with be.context():
            try:
                case = HashVarCase(cfg, be)
            except Exception as ex:
                if isinstance(ex, simkernel.SimTrap):
                    raise
                log.append(("rejected", type(ex).__name__))
                return log
            vars_ = case.vars
            valmode = case.valmode
            # ---- defaults after load()
            init = tuple(d if valmode else d & M64 for f, d in vars_) + \
                (None,) * case.nd
            if case.learn_keys() is None:
                snap = sorted(case.snapshot_all().items())
                log.append(("nokeys", snap))
                if sink:
                    try:
                        py = case.observe()[0]
                    except Exception as ex:
                        if isinstance(ex, simkernel.SimTrap):
                            raise
                        py = type(ex).__name__
                    sink(cj, f"{len(vars_)} independent cells",
                         snap, "cells-not-independent",
                         note="cannot attribute one map entry per variable: "
                         "the maps do not hold one entry for each, or a "
                         "write to one variable changes none or several "
                         f"entries; Python reads {py} where the defaults "
                         f"{[d for f, d in vars_]} were declared (variables "
                         f"in maps {list(case.maps)})")
                return log
            got = case.cells()
            log.append(("init", got))
            if not valmode and got != init and sink:
                sink(cj, init, got, "defaults",
                     note="cells after load() differ from the defaults")
            obs = case.observe()
            log.append(("obs0", obs))
            fresh = False
            for what, exp, ob, kf in hv_check_observation(
                    vars_, init if valmode else got, obs, valmode):
                fresh = fresh or kf is None
                if sink:
                    sink(dict(cj, state=list(got), seq=[]), exp, ob,
                         "observe", kf=kf, note=what + " after load()")
            if valmode and (fresh or None in got):
                return log
            # a state: the cells; in value mode (cells, values of the model)
            st0 = (got, init) if valmode else got
            seen = {st0: ()}
            frontier = [st0]
            ops = case.ops()
            for level in range(depth):
                nxt = []
                for st in frontier:
                    for op in ops:
                        case.set_cells(st[0] if valmode else st)
                        r = case.apply(op)
                        post = case.cells()
                        obs = case.observe()
                        log.append((st, op, r, post, obs))
                        if res is not None:
                            res.count("transitions")
                            res.count("vm_steps", getattr(be, "steps", 0))
                            res.nontrivial.add(core.digest(
                                [cj["vars"], cj.get("maps"),
                                 cj.get("dict"), st, op]))
                        if valmode:
                            er, emod = hv_expected_val(vars_, st[1], op)
                            epost = "every variable keeps its 8-byte entry"
                            cells_ok = None not in post
                            nst = (post, emod)
                        else:
                            er, emod = hv_expected(vars_, st, op)
                            epost = emod
                            cells_ok = post == emod
                            nst = post
                        c2 = dict(cj, state=core.jsonable(st), op=list(op),
                                  seq=[list(o) for o in seen[st]])
                        ok = True
                        if r != er:
                            ok = False
                            if sink:
                                sink(c2, er, r, "op-result",
                                     note=f"result of {op}")
                        if not cells_ok:
                            ok = False
                            if sink:
                                sink(c2, epost, post, "cells",
                                     note=f"cells after {op}")
                        else:
                            for what, exp, ob, kf in hv_check_observation(
                                    vars_, emod if valmode else post, obs,
                                    valmode):
                                if kf is None:
                                    ok = False
                                if sink:
                                    sink(c2, exp, ob, "observe", kf=kf,
                                         note=f"{what} after {op}")
                        if res is not None:
                            res.outcomes.add(("hv", op[0], r[0], ok))
                            if level == 1 and op[0] == "progcopy":
                                res.sample(dict(cj, seq=[list(o) for o in
                                                         seen[st]],
                                                op=list(op),
                                                cells_after=list(post)),
                                           limit=5)
                        if ok and nst not in seen:
                            seen[nst] = seen[st] + (op,)
                            nxt.append(nst)
                frontier = nxt
            if res is not None:
                res.count("states", len(seen))
    finally:
        be.close()
    return log


# ====================================================================
# Dict
# ====================================================================
UNSIGNED = {1: "B", 2: "H", 4: "I", 8: "Q"}
SIGNED = {1: "b", 2: "h", 4: "i", 8: "q"}


def packed_lists():
    """all member size lists (<= 3 members) that Member accepts as packed"""
    out = []
    for n in (1, 2, 3):
        for sizes in itertools.product((1, 2, 4, 8), repeat=n):
            off, ok = 0, True
            for s in sizes:
                if off & (s - 1):
                    ok = False
                off += s
            if ok:
                out.append(sizes)
    return out


def key_fmts(sizes):
    return tuple(UNSIGNED[s] for s in sizes)


def value_fmts(sizes):
    # signed for the 2- and 8-byte members, so that sign handling shows
    return tuple(SIGNED[s] if s in (2, 8) else UNSIGNED[s] for s in sizes)


def universe(fmts, which):
    """member value tuples: a small universe of keys / values"""
    out = []
    for n in which:
        tup = []
        for i, f in enumerate(fmts):
            lo, hi = fmt_range(f)
            if n == 0:
                v = 1 + i
            elif n == 1:
                v = hi - i
            elif n == 2:
                v = lo if lo else (hi >> 1) + 1 + i
            else:
                v = (0x1122334455667788 >> (3 * i + n)) & (hi if not lo
                                                           else hi >> 1)
            tup.append(v)
        out.append(tuple(tup))
    return out


def enc(fmts, tup):
    return b"".join(struct.pack(sf(f), v) for f, v in zip(fmts, tup))


def dec(fmts, raw):
    out, off = [], 0
    for f in fmts:
        out.append(struct.unpack_from(sf(f), raw, off)[0])
        off += struct.calcsize(f)
    return tuple(out)


# optional keys of a Dict configuration (see DictCase)
DICT_EXTRA = ("ksplit", "vsplit", "kbase", "vbase", "other", "pybase")
OTHER_OPS = ("oset", "oget", "oitems", "odel", "olookup")


def dict_cfgj(cfg):
    """a Dict configuration as it is written into a report"""
    cj = dict(kind="dict", key=list(cfg["key"]), value=list(cfg["value"]),
              size=cfg["size"], lru=cfg["lru"])
    for k in DICT_EXTRA:
        if cfg.get(k) is not None:
            cj[k] = list(cfg[k]) if isinstance(cfg[k], tuple) else cfg[k]
    return cj


def dict_cfg_of(c):
    """... and back"""
    cfg = dict(key=tuple(c["key"]), value=tuple(c["value"]),
               size=c["size"], lru=c["lru"])
    for k in DICT_EXTRA:
        if c.get(k) is not None:
            cfg[k] = tuple(c[k]) if isinstance(c[k], list) else c[k]
    return cfg


def structure_chain(name, names, fmts, split):
    """Structure classes forming an inheritance chain: the first holds the
    first split[0] members, every further one derives from the one before
    and adds the next split[i] members; the last one is called `name`"""
    if sum(split) != len(fmts) or not split or min(split) < 1:
        raise core.Internal(f"C09: split {split} of {fmts}")
    chain, cls, i = [], Structure, 0
    for lvl, n in enumerate(split):
        cls = type(name if lvl == len(split) - 1 else f"{name}Base{lvl}",
                   (cls,), {nm: Member(f) for nm, f in
                            zip(names[i:i + n], fmts[i:i + n])})
        chain.append(cls)
        i += n
    return chain


def assign_counts(n, split, which):
    """how many leading members the instances of the universe get assigned
    (`which` = 3: keys, 2: values): all of them / only those of the first
    class of the chain / (keys, chains of three) those of all classes but
    the last.  A structure without ancestors counts as (1, n - 1)"""
    ms = tuple(split) if len(split) > 1 else ((1, n - 1) if n > 1 else (n,))
    out = [n, ms[0], sum(ms[:-1]) if len(ms) > 2 else n]
    return out[:which]


class DictCase:
    """one Dict declaration in a program class.  The packet carries numbers
    in native letters; the program moves them into / out of the key and value
    members with the members' own formats (so a member with its own byte
    order is stored in that order by both sides).

    Optional keys of cfg (any of them makes it a configuration "with
    ancestors"; DICT_EXTRA):
    ksplit / vsplit  the Key / Value class is the last of a chain of
                     Structure classes, each deriving from the one before and
                     adding that many members ((1, 2): a base class with the
                     first member, the Dict's class adds two; (1, 1, 1):
                     base class, subclass, sub-subclass)
    kbase / vbase    which class of the chain "the base class" is (default
                     0, the root)
    other            "before" / "after": the program class also has a second
                     Dict `ho` (key = the Key base class, value = the Value
                     base class, 4 entries) declared before / after `ht`.
                     It holds one entry, put there through Python when the
                     case is set up and re-established before every edge;
                     OTHER_OPS act on it (Python set / get / items / delete
                     with base class instances, a program lookup)
    pybase           "before" / "after": instances of the base classes are
                     created (all members assigned and read back) from
                     Python before the program object exists - so before the
                     library made its first instance of the derived classes
                     - or after load()
    In these configurations the universe holds Structure instances of which
    only some members were assigned (assign_counts; the others must hold 0),
    and every instance made in Python for an operation is read back, member
    by member, after the operation.

    sibling_of: build one more instance of that case's program class"""
    OPS_PY = ("pset", "pget", "ppop", "ppopd", "pdel", "piter", "pvalues")
    # operations that first collect what the iteration hands out and only
    # then use it
    COLLECT = ("plist", "pkeys", "psorted", "plitems", "plookupall",
               "pdelall", "ppopall")

    def __init__(self, cfg, backend, with_program=True, sibling_of=None):
        self.cfg = cfg
        self.be = backend
        kf, vf = self.kf, self.vf = tuple(cfg["key"]), tuple(cfg["value"])
        self.knames = [f"k{i}" for i in range(len(kf))]
        self.vnames = [f"m{i}" for i in range(len(vf))]
        self.hier = any(cfg.get(k) is not None for k in DICT_EXTRA)
        ksplit = tuple(cfg.get("ksplit") or (len(kf),))
        vsplit = tuple(cfg.get("vsplit") or (len(vf),))
        self.other, self.pybase = cfg.get("other"), cfg.get("pybase")
        if self.other not in (None, "before", "after") or \
                self.pybase not in (None, "before", "after"):
            raise core.Internal(f"C09: configuration {cfg}")
        kb = min(cfg.get("kbase") or 0, len(ksplit) - 1)
        vb = min(cfg.get("vbase") or 0, len(vsplit) - 1)
        # the base classes' members, their universe (one key, two values)
        self.okf, self.ovf = kf[:sum(ksplit[:kb + 1])], vf[:sum(vsplit[:vb + 1])]
        self.oknames = self.knames[:len(self.okf)]
        self.ovnames = self.vnames[:len(self.ovf)]
        self.okeys = universe(self.okf, (0,))
        self.ovalues = universe(self.ovf, (0, 2))
        self.ofixed = [(enc(self.okf, self.okeys[0]),
                        enc(self.ovf, self.ovalues[0]))]
        self.keys = universe(kf, (0, 1, 2))
        self.values = universe(vf, (0, 2))
        self.kassign, self.vassign = [len(kf)] * 3, [len(vf)] * 2
        if self.hier:
            self.kassign = assign_counts(len(kf), ksplit, 3)
            self.vassign = assign_counts(len(vf), vsplit, 2)
            self.keys = [tuple(x if i < c else 0 for i, x in enumerate(t))
                         for t, c in zip(self.keys, self.kassign)]
            self.values = [tuple(x if i < c else 0 for i, x in enumerate(t))
                           for t, c in zip(self.values, self.vassign)]
        self._made = []
        self.setup_bad = None
        if sibling_of is None:
            kchain = structure_chain("Key", self.knames, kf, ksplit)
            vchain = structure_chain("Value", self.vnames, vf, vsplit)
            self.Key, self.Value = kchain[-1], vchain[-1]
            self.KeyBase, self.ValueBase = kchain[kb], vchain[vb]
            if self.pybase == "before":
                self._pybase()
            attrs = {"ht": Dict(key=self.Key, value=self.Value,
                                size=cfg["size"], lru=cfg["lru"])}
            if self.other:
                ho = {"ho": Dict(key=self.KeyBase, value=self.ValueBase,
                                 size=4, lru=False)}
                attrs = {**ho, **attrs} if self.other == "before" \
                    else {**attrs, **ho}
            b = dsl.Builder(attrs, n_in=6, n_out=5, pv_area=HDR)
        else:
            for k in ("Key", "Value", "KeyBase", "ValueBase"):
                setattr(self, k, getattr(sibling_of, k))
            b = SiblingBuilder(sibling_of.b, sibling_of.preamble)
        self.b = b
        e = self.e = b.e
        self.preamble = preamble_of(e)
        self.can_add = vf[0][-1] in "IiQq"
        if with_program:
            self.emit()
        b.finish(2)
        e.load()
        self.closed = False
        self.mapfd = e.ht.fd
        self.otherfd = e.ho.fd if self.other else None
        if isinstance(backend, RealBackend):
            backend.sizes[self.mapfd] = (len(enc(kf, self.keys[0])),
                                         len(enc(vf, self.values[0])))
            if self.other:
                backend.sizes[self.otherfd] = tuple(
                    len(x) for x in self.ofixed[0])
        if self.pybase == "after" and sibling_of is None:
            self._pybase()
        if self.other:
            # the second Dict's entry goes in through Python
            try:
                e.ho[self._okey()] = self._ovalue(0)
                got = self.other_snapshot()
                if got != self.ofixed:
                    self.setup_bad = f"the second Dict holds {got!r}"
            except Exception as ex:
                if isinstance(ex, (simkernel.SimTrap, core.Internal)):
                    raise
                self.setup_bad = "storing into the second Dict: " \
                    f"{type(ex).__name__}"
        self.setup_bad = self.setup_bad or self.instances_bad()

    # ---- Structure instances made in Python
    def _make(self, cls, names, tup, count=None):
        """an instance of cls with the first `count` members assigned"""
        o = cls()
        for n, v in list(zip(names, tup))[:count]:
            setattr(o, n, v)
        self._made.append((o, cls.__name__, tuple(names), tuple(tup)))
        return o

    def instances_bad(self):
        """read every instance made since the last call back, member by
        member: what was assigned, 0 for what was not -> None or what is
        wrong with the first bad one"""
        made, self._made = self._made, []
        for o, cname, names, tup in made:
            try:
                got = tuple(getattr(o, n) for n in names)
            except Exception as ex:
                if isinstance(ex, (simkernel.SimTrap, core.Internal)):
                    raise
                got = "exc:" + type(ex).__name__
            if got != tup:
                return (f"a {cname} instance made in Python with the values "
                        f"{list(tup)} for {list(names)} (0 = never "
                        f"assigned) reads back as {got!r}")
        return None

    def _pybase(self):
        self._make(self.KeyBase, self.oknames, self.okeys[0])
        self._make(self.ValueBase, self.ovnames, self.ovalues[0])

    def _okey(self):
        return self._make(self.KeyBase, self.oknames, self.okeys[0])

    def _ovalue(self, v):
        return self._make(self.ValueBase, self.ovnames, self.ovalues[v])

    def _ovt(self, o):
        return tuple(getattr(o, n) for n in self.ovnames)

    def _okt(self, o):
        return tuple(getattr(o, n) for n in self.oknames)

    def other_snapshot(self):
        return sorted(self.be.snapshot(self.otherfd)) if self.other else []

    def restore_other(self):
        if self.other:
            self.be.restore(self.otherfd, self.ofixed)

    def other_expected(self, op):
        """the second Dict's content after op"""
        if not self.other or op[0] == "odel":
            return []
        if op[0] == "oset":
            return [(self.ofixed[0][0], enc(self.ovf, self.ovalues[op[1]]))]
        return list(self.ofixed)

    def other_result(self, op):
        """reference for OTHER_OPS (the second Dict holds its one entry)"""
        kind = op[0]
        if kind in ("oset", "odel"):
            return ("ok",)
        if kind == "oget":
            return ("ok", self.ovalues[0])
        if kind == "oitems":
            return ("ok", ((self.okeys[0], self.ovalues[0]),))
        if kind == "olookup":
            return ("found", self.ovalues[0])
        raise core.Internal(f"unknown op {op}")

    def emit(self):
        b, e, kf, vf = self.b, self.e, self.kf, self.vf
        d = e.ht
        for i, (n, f) in enumerate(zip(self.knames, kf)):
            setattr(d.key, n, getattr(e, "m" + f[-1])[
                e.r9 + (b.in_off + 8 * i)])
        for sel, flags in ((1, UpdateFlags.ANY), (2, UpdateFlags.NOEXIST),
                           (3, UpdateFlags.EXIST)):
            with guard(b, sel):
                for i, (n, f) in enumerate(zip(self.vnames, vf)):
                    setattr(d.value, n, getattr(e, "m" + f[-1])[
                        e.r9 + (b.in_off + 8 * (3 + i))])
                d.update(flags)
                b.out_reg(0, 0)
        with guard(b, 4):
            with d.lookup() as (value, Else):
                for i, (n, f) in enumerate(zip(self.vnames, vf)):
                    getattr(e, "m" + f[-1])[
                        e.r9 + (b.out_off + 8 * (2 + i))] = getattr(value, n)
                e.mB[e.r9 + (b.out_off + 8)] = 1
            with Else:
                e.mB[e.r9 + (b.out_off + 8)] = 2
        with guard(b, 5):
            with d.lookup() as (value, Else):
                for i, (n, f) in enumerate(zip(self.vnames, vf)):
                    setattr(value, n, getattr(e, "m" + f[-1])[
                        e.r9 + (b.in_off + 8 * (3 + i))])
                e.mB[e.r9 + (b.out_off + 8)] = 1
            with Else:
                e.mB[e.r9 + (b.out_off + 8)] = 2
        if self.can_add:
            with guard(b, 6):
                with d.lookup() as (value, Else):
                    value.m0 += 3
                    e.mB[e.r9 + (b.out_off + 8)] = 1
                with Else:
                    e.mB[e.r9 + (b.out_off + 8)] = 2
        if self.other:
            o = e.ho
            with guard(b, 7):
                for i, (n, f) in enumerate(zip(self.oknames, self.okf)):
                    setattr(o.key, n, getattr(e, "m" + f[-1])[
                        e.r9 + (b.in_off + 8 * i)])
                with o.lookup() as (value, Else):
                    for i, (n, f) in enumerate(zip(self.ovnames, self.ovf)):
                        getattr(e, "m" + f[-1])[
                            e.r9 + (b.out_off + 8 * (2 + i))] = \
                            getattr(value, n)
                    e.mB[e.r9 + (b.out_off + 8)] = 1
                with Else:
                    e.mB[e.r9 + (b.out_off + 8)] = 2

    def close(self):
        """EBPF.close(): the program's descriptor goes, the map stays in use
        from Python (what XDP.run does after attaching)"""
        self.e.close()
        self.closed = True

    def ops(self, python_only=False):
        out = []
        for k in range(3):
            for v in range(2):
                out.append(("pset", k, v))
            out += [("pget", k), ("ppop", k), ("ppopd", k), ("pdel", k)]
        out += [("piter",), ("pvalues",)]
        # the MutableMapping mix-ins, built on the methods above
        out += [("pitems",), ("ppopitem",), ("pclear",)]
        for k in range(3):
            out += [("pgetd", k), ("pin", k), ("psetdef", k, k % 2)]
        out += [(c,) for c in self.COLLECT]
        if self.other:
            out += [("oset", 1), ("oget",), ("oitems",), ("odel",)]
        if python_only or self.closed:
            return out
        for k in range(3):
            for v in range(2):
                for fl in (1, 2, 3):
                    out.append(("upd", fl, k, v))
            out.append(("lookup", k))
            out.append(("modify", k, 1))
            if self.can_add:
                out.append(("modadd", k))
        if self.other:
            out.append(("olookup",))
        return out

    def ops_small(self):
        """the reduced alphabet of the several-instances searches: two keys,
        one value each, both sides, one collecting operation"""
        out = []
        for k in (0, 1):
            out += [("pset", k, k), ("pget", k), ("pdel", k)]
        out += [("plitems",), ("ppopitem",)]
        if not self.closed:
            for k in (0, 1):
                out += [("upd", 1, k, 1 - k), ("lookup", k), ("modify", k, k)]
        return out

    @staticmethod
    def readonly(op):
        return op[0] in ("pget", "piter", "pvalues", "lookup", "pitems",
                         "pgetd", "pin", "plist", "pkeys", "psorted",
                         "plitems", "plookupall", "oget", "oitems",
                         "olookup")

    def _key(self, k):
        return self._make(self.Key, self.knames, self.keys[k],
                          self.kassign[k])

    def _value(self, v):
        return self._make(self.Value, self.vnames, self.values[v],
                          self.vassign[v])

    def _vt(self, o):
        return tuple(getattr(o, n) for n in self.vnames)

    def _kt(self, o):
        return tuple(getattr(o, n) for n in self.knames)

    def apply(self, op):
        self._made = []
        r = self._apply(op)
        bad = self.instances_bad()
        return ("instance", bad) if bad else r

    def _apply(self, op):
        d = self.e.ht
        kind = op[0]
        try:
            if kind == "oset":
                self.e.ho[self._okey()] = self._ovalue(op[1])
                return ("ok",)
            if kind == "oget":
                return ("ok", self._ovt(self.e.ho[self._okey()]))
            if kind == "oitems":
                its = list(self.e.ho.items())
                return ("ok", tuple(sorted((self._okt(k), self._ovt(v))
                                           for k, v in its)))
            if kind == "odel":
                del self.e.ho[self._okey()]
                return ("ok",)
            if kind == "pset":
                d[self._key(op[1])] = self._value(op[2])
                return ("ok",)
            if kind == "pget":
                return ("ok", self._vt(d[self._key(op[1])]))
            if kind == "ppop":
                return ("ok", self._vt(d.pop(self._key(op[1]))))
            if kind == "ppopd":
                r = d.pop(self._key(op[1]), "default")
                return ("ok", r if r == "default" else self._vt(r))
            if kind == "pdel":
                del d[self._key(op[1])]
                return ("ok",)
            if kind == "piter":
                return ("ok", tuple(sorted(self._kt(k) for k in d)))
            if kind == "pvalues":
                return ("ok", tuple(sorted(self._vt(v) for v in d.values())))
            if kind == "pitems":
                return ("ok", tuple(sorted((self._kt(k), self._vt(v))
                                           for k, v in d.items())))
            if kind == "ppopitem":
                k, v = d.popitem()
                return ("ok", (self._kt(k), self._vt(v)))
            if kind == "pclear":
                d.clear()
                return ("ok",)
            if kind == "pgetd":
                r = d.get(self._key(op[1]), "default")
                return ("ok", r if r == "default" else self._vt(r))
            if kind == "pin":
                return ("ok", self._key(op[1]) in d)
            if kind == "psetdef":
                return ("ok", self._vt(d.setdefault(self._key(op[1]),
                                                    self._value(op[2]))))
            # ---- collect first, use afterwards
            if kind == "plist":
                ks = list(d)
                return ("ok", tuple(sorted(self._kt(k) for k in ks)))
            if kind == "pkeys":
                ks = list(d.keys())
                return ("ok", tuple(sorted(self._kt(k) for k in ks)))
            if kind == "psorted":
                ks = sorted(d, key=self._kt)
                return ("ok", tuple(self._kt(k) for k in ks))
            if kind == "plitems":
                its = list(d.items())
                return ("ok", tuple(sorted((self._kt(k), self._vt(v))
                                           for k, v in its)))
            if kind == "plookupall":
                ks = list(d)
                return ("ok", tuple(sorted((self._kt(k), self._vt(d[k]))
                                           for k in ks)))
            if kind == "pdelall":
                ks = list(d)
                for k in ks:
                    del d[k]
                return ("ok", len(ks))
            if kind == "ppopall":
                ks = [k for k in d]
                return ("ok", tuple(sorted((self._kt(k), self._vt(d.pop(k)))
                                           for k in ks)))
        except Exception as ex:
            if isinstance(ex, simkernel.SimTrap):
                raise
            return ("exc", type(ex).__name__)
        b = self.b
        pkt = bytearray(b.pkt_len)
        if kind == "olookup":
            kfs, key, vfs = self.okf, self.okeys[0], self.ovf
        else:
            kfs, key, vfs = self.kf, self.keys[
                op[2] if kind == "upd" else op[1]], self.vf
        for i, (f, v) in enumerate(zip(kfs, key)):
            struct.pack_into("<" + f[-1], pkt, b.in_off + 8 * i, v)
        if kind in ("upd", "modify"):
            val = self.values[op[3] if kind == "upd" else op[2]]
            for i, (f, v) in enumerate(zip(self.vf, val)):
                struct.pack_into("<" + f[-1], pkt, b.in_off + 8 * (3 + i), v)
        pkt[SEL] = {"upd": op[1] if kind == "upd" else 0, "lookup": 4,
                    "modify": 5, "modadd": 6, "olookup": 7}[kind]
        try:
            ret, out = self.be.run(self.e.file_descriptor, pkt)
        except simkernel.SimTrap as t:
            return ("trap", str(t))
        if ret != 2:
            return ("ret", ret)
        if kind == "upd":
            return ("r0", sx64(struct.unpack_from("<Q", out, b.out_off)[0]))
        flag = out[b.out_off + 8]
        if kind in ("lookup", "olookup") and flag == 1:
            return ("found", tuple(
                struct.unpack_from("<" + f[-1], out,
                                   b.out_off + 8 * (2 + i))[0]
                for i, f in enumerate(vfs)))
        return ("found",) if flag == 1 else ("else",) if flag == 2 \
            else ("flag", flag)


def dict_expected(case, pre, op):
    """-> list of acceptable (result, content dict).  One element, except
    for an update of a *full LRU* map: the kernel may evict any entries
    (even the one being updated, and before it looks at the flags) to make
    room, so every outcome "some entries vanish first, then the operation
    acts on the rest" is accepted as long as the size limit holds"""
    cfg = case.cfg
    lru_write = op[0] in ("pset", "upd") or (
        op[0] == "psetdef" and
        enc(case.kf, case.keys[op[1]]) not in dict(pre))
    if cfg["lru"] and len(pre) >= cfg["size"] and lru_write:
        alts = []
        keys = [k for k, _ in pre]
        for n in range(len(keys) + 1):
            for gone in itertools.combinations(keys, n):
                rest = [(k, v) for k, v in pre if k not in gone]
                r, ref, _ = dict_expected1(case, rest, op, nolimit=True)
                if len(ref) <= cfg["size"] and (r, ref) not in alts:
                    alts.append((r, ref))
        return alts
    if op[0] == "ppopitem" and pre:
        # any entry may be the one that goes
        alts = []
        for k, v in pre:
            ref = dict(pre)
            del ref[k]
            alts.append((("ok", (dec(case.kf, k), dec(case.vf, v))), ref))
        return alts
    r, ref, _ = dict_expected1(case, pre, op)
    return [(r, ref)]


def dict_expected1(case, pre, op, nolimit=False):
    """reference model: a plain dict of packed tuples.
    pre: ordered list of (key bytes, value bytes).
    -> (expected result, expected content as dict, False)"""
    kf, vf, cfg = case.kf, case.vf, case.cfg
    ref = dict(pre)
    kind = op[0]
    full = len(ref) >= cfg["size"] and not nolimit
    if kind in OTHER_OPS:       # the second Dict: `ht` stays as it is
        return case.other_result(op), ref, False
    if kind in ("piter", "pvalues"):
        if kind == "piter":
            return ("ok", tuple(sorted(dec(kf, k) for k in ref))), ref, False
        return ("ok", tuple(sorted(dec(vf, v) for v in ref.values()))), ref, False
    if kind in ("plist", "pkeys", "psorted"):
        return ("ok", tuple(sorted(dec(kf, k) for k in ref))), ref, False
    if kind in ("pitems", "plitems", "plookupall"):
        return ("ok", tuple(sorted((dec(kf, k), dec(vf, v))
                                   for k, v in ref.items()))), ref, False
    if kind == "pdelall":
        return ("ok", len(ref)), {}, False
    if kind == "ppopall":
        return ("ok", tuple(sorted((dec(kf, k), dec(vf, v))
                                   for k, v in ref.items()))), {}, False
    if kind == "ppopitem":      # only reached for an empty map
        return ("exc", "KeyError"), ref, False
    if kind == "pclear":
        return ("ok",), {}, False
    kidx = op[2] if kind == "upd" else op[1]
    kb = enc(kf, case.keys[kidx])
    if kind == "pset":
        vb = enc(vf, case.values[op[2]])
        if kb not in ref and full:
            return ("exc", "IndexError"), ref, False
        ref[kb] = vb
        return ("ok",), ref, False
    if kind == "pget":
        if kb not in ref:
            return ("exc", "KeyError"), ref, False
        return ("ok", dec(vf, ref[kb])), ref, False
    if kind in ("ppop", "ppopd"):
        if kb not in ref:
            return (("exc", "KeyError") if kind == "ppop"
                    else ("ok", "default")), ref, False
        return ("ok", dec(vf, ref.pop(kb))), ref, False
    if kind == "pdel":
        if kb not in ref:
            return ("exc", "KeyError"), ref, False
        del ref[kb]
        return ("ok",), ref, False
    if kind == "pgetd":
        return ("ok", dec(vf, ref[kb]) if kb in ref else "default"), ref, False
    if kind == "pin":
        return ("ok", kb in ref), ref, False
    if kind == "psetdef":
        if kb in ref:
            return ("ok", dec(vf, ref[kb])), ref, False
        if full:
            return ("exc", "IndexError"), ref, False
        ref[kb] = enc(vf, case.values[op[2]])
        return ("ok", dec(vf, ref[kb])), ref, False
    if kind == "upd":
        fl = {1: 0, 2: 1, 3: 2}[op[1]]
        vb = enc(vf, case.values[op[3]])
        if kb in ref:
            if fl == 1:
                return ("r0", -EEXIST), ref, False
            ref[kb] = vb
            return ("r0", 0), ref, False
        if fl == 2:
            return ("r0", -ENOENT), ref, False
        if full:
            return ("r0", -E2BIG), ref, False
        ref[kb] = vb
        return ("r0", 0), ref, False
    if kind == "lookup":
        if kb not in ref:
            return ("else",), ref, False
        return ("found", dec(vf, ref[kb])), ref, False
    if kind == "modify":
        if kb not in ref:
            return ("else",), ref, False
        ref[kb] = enc(vf, case.values[op[2]])
        return ("found",), ref, False
    if kind == "modadd":
        if kb not in ref:
            return ("else",), ref, False
        t = list(dec(vf, ref[kb]))
        bits = struct.calcsize(vf[0]) * 8
        raw = (t[0] + 3) & ((1 << bits) - 1)
        t[0] = struct.unpack("<" + vf[0][-1],
                             raw.to_bytes(bits // 8, "little"))[0]
        ref[kb] = enc(vf, t)
        return ("found",), ref, False
    raise core.Internal(f"unknown op {op}")


def explore_dict(cfg, depth, backend_cls, res, sink, python_only=False,
                 on_edge=None):
    be = backend_cls()
    log = []
    cj = dict_cfgj(cfg)
    try:
        with be.context():
            try:
                case = DictCase(cfg, be, with_program=not python_only)
            except Exception as ex:
                if isinstance(ex, (simkernel.SimTrap, core.Internal)):
                    raise
                log.append(("rejected", type(ex).__name__))
                return log
            if case.hier:
                # base class instances made in Python, the second Dict's
                # entry stored through Python
                if on_edge:
                    on_edge(cj, (), ("setup",), ("ok",), ())
                log.append(("setup", case.setup_bad))
                if case.setup_bad and sink:
                    sink(cj, "structures read back what was assigned, the "
                         "second Dict holds its entry", case.setup_bad,
                         "dict-setup", note="setting the case up (base "
                         f"class instances: {case.pybase}, second Dict: "
                         f"{case.other})")
            ordered = be.ordered(case.mapfd)
            canon = (lambda s: tuple(s)) if ordered \
                else (lambda s: tuple(sorted(s)))
            init = canon(be.snapshot(case.mapfd))
            log.append(("init", init))
            if init and sink:
                sink(cj, [], list(init), "not-empty",
                     note="Dict not empty after load()")
            seen = {init: ()}
            frontier = [init]
            ops = case.ops(python_only)
            for level in range(depth + 1):
                nxt = []
                for st in frontier:
                    for op in ops:
                        if level == depth and not case.readonly(op):
                            continue
                        be.restore(case.mapfd, st)
                        case.restore_other()
                        if cfg["lru"] and res is None and \
                                canon(be.snapshot(case.mapfd)) != st:
                            # real kernel: an LRU map may evict before it
                            # holds max_entries, the state is not reachable
                            # by writing it
                            continue
                        r = case.apply(op)
                        post = canon(be.snapshot(case.mapfd))
                        opost = case.other_snapshot()
                        if on_edge:
                            on_edge(cj, st, op, r, seen[st])
                        alts = dict_expected(case, st, op)
                        er, eref = alts[0]
                        loose = len(alts) > 1
                        ok = any(r == ar and dict(post) == aref and
                                 len(dict(post)) == len(post)
                                 for ar, aref in alts)
                        main_ok = ok
                        if opost != case.other_expected(op):
                            ok = False
                            if sink:
                                sink(dict(cj, state=[list(x) for x in st],
                                          op=list(op),
                                          seq=[list(o) for o in seen[st]]),
                                     case.other_expected(op), opost,
                                     "dict-other", note="content of the "
                                     f"second Dict (the one with the base "
                                     f"classes) after {op}")
                        # the log is what the differential compares; edges
                        # with several acceptable outcomes are not part of it
                        log.append((tuple(sorted(st)), op, r,
                                    tuple(sorted(post)) if not loose
                                    else "lru-full-update"))
                        if res is not None:
                            res.count("transitions")
                            res.count("vm_steps", getattr(be, "steps", 0))
                            be.steps = 0
                            res.nontrivial.add(core.digest(
                                [cj, [list(x) for x in st], op]))
                            res.outcomes.add(("dict", op[0], r[0], ok))
                            if level == 2 and op[0] in ("upd", "ppop"):
                                res.sample(dict(cj, seq=[list(o) for o in
                                                         seen[st]],
                                                op=list(op), result=r),
                                           limit=3)
                        if not main_ok and sink:
                            c2 = dict(cj, state=[list(x) for x in st],
                                      op=list(op),
                                      seq=[list(o) for o in seen[st]])
                            kf = None
                            if op[0] in ("piter", "pvalues") and not st \
                                    and r == ("exc", "RuntimeError"):
                                kf = KF_ITER
                            if op[0] in ("ppop", "ppopd") and r == er and \
                                    r[0] == "ok" and r[1] != "default" and \
                                    sorted(post) == sorted(st):
                                kf = KF_POP
                            if loose:
                                sink(c2, [[a, sorted(c.items())]
                                          for a, c in alts][:4],
                                     [r, list(post)], "dict-any-" + op[0],
                                     note=f"{op} with several acceptable "
                                     "outcomes (full LRU map / popitem)")
                            elif r != er:
                                sink(c2, er, r, "dict-" + op[0], kf=kf,
                                     note=f"result of {op} in state of "
                                     f"{len(st)} entries")
                            else:
                                sink(c2, sorted(eref.items()), list(post),
                                     "dict-content-" + op[0], kf=kf,
                                     note=f"map content after {op}")
                        if ok and post not in seen:
                            seen[post] = seen[st] + (op,)
                            nxt.append(post)
                frontier = nxt
            if res is not None:
                res.count("states", len(seen))
    finally:
        be.close()
    return log


# ====================================================================
# several program instances in one process
# ====================================================================
# who is alive while the operations are enumerated:
#   same2 / same3   two / three instances of one program class
#   diff2           one instance each of two program classes (built from the
#                   same declaration, sharing no object)
#   closed-first    an instance that was close()d (its maps stay in use from
#                   Python) and a later instance of the same class
#   reborn          an instance created after an earlier one of the same
#                   class was used, close()d and garbage-collected
#   dropped         the same, the earlier one never closed
PLANS = ("same2", "same3", "diff2", "closed-first", "reborn", "dropped")


class MultiDict:
    what = "dict"

    @staticmethod
    def cfgj(cfg):
        return dict(key=list(cfg["key"]), value=list(cfg["value"]),
                    size=cfg["size"], lru=cfg["lru"])

    @staticmethod
    def make(cfg, be, sibling_of=None):
        return DictCase(cfg, be, sibling_of=sibling_of)

    @staticmethod
    def ready(case):
        return True

    @staticmethod
    def snap(case):
        s = case.be.snapshot(case.mapfd)
        return tuple(s) if case.be.ordered(case.mapfd) else tuple(sorted(s))

    @staticmethod
    def restore(case, st):
        case.be.restore(case.mapfd, st)

    @staticmethod
    def initial(case):
        return ()

    @staticmethod
    def ops(case):
        return case.ops_small()

    readonly = staticmethod(DictCase.readonly)

    @staticmethod
    def prefix(case):
        return [("pset", 0, 0), ("upd", 1, 1, 1)]

    @staticmethod
    def judge(case, pre, op, r, post):
        """-> (ok, expected for the report, several outcomes acceptable)"""
        alts = dict_expected(case, pre, op)
        ok = any(r == ar and dict(post) == aref and
                 len(dict(post)) == len(post) for ar, aref in alts)
        return ok, [[a, sorted(c.items())] for a, c in alts][:3], \
            len(alts) > 1

    @staticmethod
    def observe(case, model):
        return None, []


class MultiHV:
    what = "hashvars"

    @staticmethod
    def cfgj(cfg):
        cj = hv_cfgj(cfg)
        del cj["kind"]
        return cj

    @staticmethod
    def make(cfg, be, sibling_of=None):
        return HashVarCase(cfg, be, sibling_of=sibling_of)

    @staticmethod
    def ready(case):
        return case.learn_keys() is not None

    @staticmethod
    def snap(case):
        return case.cells()

    @staticmethod
    def restore(case, st):
        case.set_cells(st)

    @staticmethod
    def initial(case):
        return tuple(d & M64 for f, d in case.vars)

    @staticmethod
    def ops(case):
        return case.ops()

    @staticmethod
    def readonly(op):
        return False

    @staticmethod
    def prefix(case):
        j = len(case.vars) - 1
        return [("pyset", 0, hv_values(case.vars[0][0])[0]),
                ("progset", j, hv_values(case.vars[j][0])[1] & M64)]

    @staticmethod
    def judge(case, pre, op, r, post):
        er, epost = hv_expected(case.vars, pre, op)
        return r == er and post == epost, [er, list(epost)], False

    @staticmethod
    def observe(case, model):
        obs = case.observe()
        if None in model:
            return obs, []
        return obs, hv_check_observation(case.vars, model, obs)


MULTI = {"dict": MultiDict, "hashvars": MultiHV}


def build_plan(ad, cfg, plan, be):
    """-> the live instances, in the order of their creation"""
    first = ad.make(cfg, be)
    if plan == "same2":
        return [first, ad.make(cfg, be, sibling_of=first)]
    if plan == "same3":
        second = ad.make(cfg, be, sibling_of=first)
        return [first, second, ad.make(cfg, be, sibling_of=first)]
    if plan == "diff2":
        return [first, ad.make(cfg, be)]
    if plan == "closed-first":
        first.close()
        return [first, ad.make(cfg, be, sibling_of=first)]
    if plan in ("reborn", "dropped"):
        if not ad.ready(first):
            return [first]
        for op in ad.prefix(first):
            first.apply(op)
        if plan == "reborn":
            first.close()
        first.e = first.b.e = None      # the instance is gone ...
        gc.collect()
        return [ad.make(cfg, be, sibling_of=first)]     # ... long live the next
    raise core.Internal(f"unknown plan {plan}")


def explore_multi(what, cfg, plan, depth, backend_cls, res, sink):
    """breadth-first search over the interleavings of the instances'
    operations; a state is the tuple of the instances' map contents, every
    instance has its own reference model and must not see the others"""
    ad = MULTI[what]
    be = backend_cls()
    log = []
    cj = dict(kind="multi", what=what, plan=plan, **ad.cfgj(cfg))
    try:
        with be.context():
            try:
                cases = build_plan(ad, cfg, plan, be)
            except Exception as ex:
                if isinstance(ex, (simkernel.SimTrap, core.Internal)):
                    raise
                log.append(("rejected", type(ex).__name__))
                return log
            n = len(cases)
            # the log is what the differential compares: no recency order
            lf = (lambda s: tuple(tuple(sorted(x)) for x in s)) \
                if what == "dict" else (lambda s: s)
            for i, c in enumerate(cases):
                if not ad.ready(c):
                    log.append(("nokeys", i))
                    if sink:
                        sink(dict(cj, inst=i), "one map entry per variable",
                             be.snapshot(c.mapfd), "cells-not-independent",
                             note=f"instance {i}: cannot attribute one map "
                             "entry per variable")
                    return log
            init = tuple(ad.snap(c) for c in cases)
            want = tuple(ad.initial(c) for c in cases)
            log.append(("init", init))
            if init != want:
                if sink:
                    sink(cj, [list(w) for w in want], [list(s) for s in init],
                         "multi-init", note="map contents of the instances "
                         f"right after load() (plan {plan})")
                return log
            for i, c in enumerate(cases):
                obs, bad = ad.observe(c, init[i])
                log.append(("obs0", i, obs))
                for whatbad, exp, ob, kf in bad:
                    if sink:
                        sink(dict(cj, inst=i, state=core.jsonable(init),
                                  seq=[]), exp, ob, "multi-observe", kf=kf,
                             note=f"instance {i}: {whatbad} after load()")
            ops = [(i, op) for i, c in enumerate(cases) for op in ad.ops(c)]
            seen = {init: ()}
            frontier = [init]
            for level in range(depth + 1):
                nxt = []
                for st in frontier:
                    for i, op in ops:
                        if level == depth and not ad.readonly(op):
                            continue
                        c = cases[i]
                        for j in range(n):
                            ad.restore(cases[j], st[j])
                        c2 = dict(cj, state=core.jsonable(st), inst=i,
                                  op=list(op),
                                  seq=[[k, list(o)] for k, o in seen[st]])
                        now = tuple(ad.snap(x) for x in cases)
                        if now != st:
                            log.append((lf(st), (i, op), "establish", lf(now)))
                            if sink:
                                sink(c2, core.jsonable(st),
                                     core.jsonable(now), "multi-establish",
                                     note="writing each instance's map does "
                                     "not establish the state: the instances "
                                     "do not have maps of their own")
                            break
                        r = c.apply(op)
                        post = tuple(ad.snap(x) for x in cases)
                        ok, exp, loose = ad.judge(c, st[i], op, r, post[i])
                        others = all(post[j] == st[j]
                                     for j in range(n) if j != i)
                        log.append((lf(st), (i, op), r,
                                    "loose" if loose else lf(post)))
                        if not ok and sink:
                            sink(c2, exp, [r, core.jsonable(post[i])],
                                 "multi-op", note=f"instance {i}: result / "
                                 f"map content after {op}")
                        if not others and sink:
                            sink(c2, core.jsonable(st), core.jsonable(post),
                                 "multi-other", note=f"{op} on instance {i} "
                                 "changed the map of another instance")
                        ok = ok and others
                        if ok:
                            for j in range(n):
                                obs, bad = ad.observe(cases[j], post[j])
                                if obs is not None:
                                    log.append(("obs", j, obs))
                                for whatbad, e2, ob, kf in bad:
                                    ok = False
                                    if sink:
                                        sink(c2, e2, ob, "multi-observe",
                                             kf=kf, note=f"instance {j}: "
                                             f"{whatbad} after {op} on "
                                             f"instance {i}")
                        if res is not None:
                            res.count("transitions")
                            res.count("multi_transitions")
                            res.count("vm_steps", getattr(be, "steps", 0))
                            be.steps = 0
                            res.nontrivial.add(core.digest(
                                [cj, core.jsonable(st), i, op]))
                            res.outcomes.add(("multi", what, plan, op[0],
                                              r[0], ok))
                            if level == 1 and i == n - 1 and \
                                    op[0] in ("upd", "progset"):
                                res.sample(dict(c2, result=r), limit=2)
                        if ok and post not in seen:
                            seen[post] = seen[st] + ((i, op),)
                            nxt.append(post)
                frontier = nxt
            if res is not None:
                res.count("states", len(seen))
    finally:
        be.close()
    return log


# ====================================================================
# life cycles: load, write, close, load again, further instances
# ====================================================================
# A history starts with one loaded instance of the program class and goes on
# with operations of the alphabet
#   ("pyset", i, j, v)      Python writes variable j of instance i
#   ("progset", i, j, v)    a test run of instance i's program writes it
#   ("progcopy", i, j, k)   a test run copies variable k to variable j
#   ("close", i)            EBPF.close() (instance i's program is open)
#   ("load", i)             EBPF.load() on the same program object, whether
#   ("loadlog", i)          it was closed before or not; ... (log_level=1)
#   ("new",)                one more instance of the same class, loaded
#   ("newclass",)           an instance of a new class (same declaration)
# Reference: an instance is (program open?, its variables' cells); load()
# of an instance puts the declared defaults into its cells and into no
# other instance's; close() changes no cell; writes as in hv_expected.  After
# the last operation of a history every instance is read from Python and -
# if its program is open - by a run of its program.
LC_WRITES = ("pyset", "progset", "progcopy")


def lc_ops(vars_, state, max_inst, wide):
    """the operations possible in a (model) state.  Narrow alphabet: per
    variable one value written by Python, another by the program, no
    copies"""
    out = []
    n = len(vars_)
    for i, (is_open, cells) in enumerate(state):
        for j, (f, d) in enumerate(vars_):
            vals = hv_values(f)[:2]
            for v in (vals if wide else vals[:1]):
                out.append(("pyset", i, j, v))
            if not is_open:
                continue
            for v in (vals if wide else vals[1:]):
                out.append(("progset", i, j, v & M64))
            if wide:
                for k in range(n):
                    if k != j:
                        out.append(("progcopy", i, j, k))
        if is_open:
            out.append(("close", i))
        out.append(("load", i))
        if wide:
            out.append(("loadlog", i))
    if len(state) < max_inst:
        out.append(("new",))
        if wide:
            out.append(("newclass",))
    return out


def lc_expected(vars_, state, op):
    """the reference -> (expected result, state)"""
    defaults = tuple(d & M64 for f, d in vars_)
    kind = op[0]
    if kind in ("new", "newclass"):
        return ("ok",), state + ((True, defaults),)
    i = op[1]
    is_open, cells = state[i]
    if kind in ("load", "loadlog"):
        r, new = ("ok",), (True, defaults)
    elif kind == "close":
        if not is_open:
            raise core.Internal(f"C09: {op} in {state}")
        r, new = ("ok",), (False, cells)
    elif kind in LC_WRITES:
        r, c2 = hv_expected(vars_, cells, (kind,) + tuple(op[2:]))
        new = (is_open, c2)
    else:
        raise core.Internal(f"C09: unknown life-cycle operation {op}")
    return r, state[:i] + (new,) + state[i + 1:]


class LifeWorld:
    """the instances of one history, on one backend of its own"""

    def __init__(self, cfg, be, realfds):
        self.cfg, self.be, self.realfds = cfg, be, realfds
        self.cases = []

    def start(self):
        self.cases.append(HashVarCase(self.cfg, self.be))

    def apply(self, op):
        kind = op[0]
        if kind in LC_WRITES:
            return self.cases[op[1]].apply((kind,) + tuple(op[2:]))
        try:
            if kind == "new":
                self.cases.append(HashVarCase(self.cfg, self.be,
                                              sibling_of=self.cases[0]))
            elif kind == "newclass":
                self.cases.append(HashVarCase(self.cfg, self.be))
            elif kind == "close":
                c = self.cases[op[1]]
                fd = c.e.file_descriptor
                c.close()
                if self.realfds is not None and fd in self.realfds:
                    self.realfds.remove(fd)     # closed: not ours any more
            elif kind in ("load", "loadlog"):
                c = self.cases[op[1]]
                if kind == "load":
                    c.e.load()
                else:
                    c.e.load(log_level=1)
                c.closed = False
            else:
                raise core.Internal(f"C09: unknown life-cycle operation {op}")
        except Exception as ex:
            if isinstance(ex, (simkernel.SimTrap, core.Internal)):
                raise
            return ("exc", type(ex).__name__)
        return ("ok",)

    def observe_all(self):
        return [c.observe() for c in self.cases]


@contextlib.contextmanager
def life_world(cfg, backend_cls):
    be = backend_cls()
    try:
        with be.context() as handle:
            yield LifeWorld(cfg, be, handle if isinstance(handle, list)
                            else None)
    finally:
        be.close()


def lc_text(op):
    kind = op[0]
    if kind in ("new", "newclass"):
        return {"new": "one more instance of the class loaded",
                "newclass": "an instance of a new class loaded"}[kind]
    who = f"instance {op[1]}"
    if kind == "pyset":
        return f"Python writes {op[3]} to v{op[2]} of {who}"
    if kind == "progset":
        return f"the program of {who} writes {op[3]:#x} to v{op[2]}"
    if kind == "progcopy":
        return f"the program of {who} copies v{op[3]} to v{op[2]}"
    return {"close": f"close() of {who}", "load": f"load() of {who}",
            "loadlog": f"load(log_level=1) of {who}"}[kind]


def explore_lifecycle(cfg, depth, backend_cls, res, sink, max_inst=2,
                      wide=False):
    """breadth-first search over life-cycle histories, deduplicated on the
    model state (per instance: program open?, cells).  Every edge (state,
    operation) is executed in a world of its own: a fresh backend, the
    shortest history that led to the state executed literally on the real
    code, then the operation; then all instances are observed from both
    sides and compared with the reference.  -> log (for the differential)"""
    log = []
    cj = dict(hv_cfgj(cfg), kind="lifecycle", instances=max_inst, wide=wide)
    vars_ = cfg["vars"]
    if any(has_prefix(f) for f, d in vars_) or cfg.get("dict"):
        raise core.Internal(f"C09: life-cycle configuration {cfg}")
    decl = [d for f, d in vars_]
    st0 = ((True, tuple(d & M64 for f, d in vars_)),)

    def judge(c2, nst, obs, after):
        ok = True
        if len(obs) != len(nst):
            raise core.Internal(f"C09: {len(obs)} instances observed, "
                                f"{len(nst)} in the model ({c2})")
        for i, (o, (is_open, cells)) in enumerate(zip(obs, nst)):
            if (o[1][0] == "closed") != (not is_open):
                raise core.Internal(f"C09: instance {i} open/closed differs "
                                    f"from the model ({c2})")
            for what, exp, ob, kf in hv_check_observation(vars_, cells, o):
                ok = False
                if sink:
                    sink(c2, exp, ob, "life-observe", kf=kf,
                         note=f"instance {i}: {what} after {after} (declared "
                         f"defaults {decl}; every load() of an instance "
                         "puts them into its variables, and only there)")
        return ok

    with life_world(cfg, backend_cls) as w:
        try:
            w.start()
        except Exception as ex:
            if isinstance(ex, (simkernel.SimTrap, core.Internal)):
                raise
            log.append(("rejected", type(ex).__name__))
            return log
        obs = w.observe_all()
    log.append(("obs0", obs))
    if not judge(dict(cj, state=core.jsonable(st0), seq=[]), st0, obs,
                 "the first load()"):
        return log
    seen = {st0: ()}
    frontier = [st0]
    for level in range(depth):
        nxt = []
        for st in frontier:
            for op in lc_ops(vars_, st, max_inst, wide):
                with life_world(cfg, backend_cls) as w:
                    w.start()
                    cur = st0
                    for o in seen[st]:
                        r = w.apply(o)
                        er, cur = lc_expected(vars_, cur, o)
                        if r != er:
                            raise core.Internal(
                                f"C09: the history {seen[st]} was accepted "
                                f"before and now {o} gives {r} ({cfg})")
                    r = w.apply(op)
                    obs = w.observe_all() if r[0] != "trap" else None
                    steps = getattr(w.be, "steps", 0)
                er, nst = lc_expected(vars_, st, op)
                log.append((st, op, r, obs))
                hist = [list(o) for o in seen[st]]
                c2 = dict(cj, state=core.jsonable(st), op=list(op), seq=hist)
                after = "; ".join(["the first load()"] +
                                  [lc_text(o) for o in seen[st] + (op,)])
                if r != er:
                    ok = False
                    if sink:
                        sink(c2, er, r, "life-op-result",
                             note=f"result of the last step of: {after}")
                else:
                    ok = judge(c2, nst, obs, after)
                if res is not None:
                    res.count("transitions")
                    res.count("life_transitions")
                    res.count("vm_steps", steps)
                    res.nontrivial.add(core.digest(
                        [cj["vars"], cj.get("maps"), "life", max_inst, wide,
                         core.jsonable(st), op]))
                    res.outcomes.add(("life", op[0], r[0], ok,
                                      len(st), st[op[1]][0]
                                      if len(op) > 1 else None))
                    if level == 2 and op[0] == "load" and not st[op[1]][0]:
                        res.sample(dict(c2, result=list(r),
                                        observed=core.jsonable(obs)), limit=2)
                if ok and nst not in seen:
                    seen[nst] = seen[st] + (op,)
                    nxt.append(nst)
        frontier = nxt
    if res is not None:
        res.count("states", len(seen))
    return log


def descriptor_selftest():
    """what the life-cycle histories rely on in the kernels: a hash map that
    was just created is empty, whatever the map that had the same descriptor
    number before it held; a closed descriptor denotes nothing"""
    import errno
    import os
    key, val = b"\x01", bytes(range(8))
    sk = simkernel.SimKernel()
    try:
        fd = sk.u_create(1, 1, 8, 4)
        sk.u_update(fd, key, val)
        if sk.u_lookup(fd, key, 8) != val:
            raise core.Internal("simulated kernel: entry not stored")
        os.close(fd)
        try:
            sk.u_lookup(fd, key, 8)
            raise core.Internal("simulated kernel: a closed map descriptor "
                                "still denotes the map")
        except OSError as ex:
            if ex.errno != errno.EBADF:
                raise core.Internal(f"simulated kernel: closed fd: {ex}")
        fd2 = sk.u_create(1, 1, 8, 4)
        try:
            sk.u_lookup(fd2, key, 8)
            raise core.Internal("simulated kernel: a new map is not empty")
        except OSError as ex:
            if ex.errno != errno.ENOENT:
                raise core.Internal(f"simulated kernel: new map: {ex}")
        recycled = fd2 == fd
    finally:
        sk.close_all()
    if kern.available():
        fd = kern.map_create(1, 1, 8, 4)
        kern.map_update(fd, key, val)
        if kern.map_lookup(fd, key, 8) != val:
            raise core.Internal("real kernel: entry not stored")
        os.close(fd)
        fd2 = kern.map_create(1, 1, 8, 4)
        try:
            if kern.map_lookup(fd2, key, 8) is not None:
                raise core.Internal("real kernel: a new map is not empty")
        finally:
            os.close(fd2)
    return dict(descriptor_number_recycled=recycled)


# ====================================================================
# configurations
# ====================================================================
def lifecycle_configs(ctx):
    """(hash-map variable configuration, instances at most, wide alphabet,
    depth, also on the real kernel) of the life-cycle searches"""
    H = HFMT
    one = [[(f, d)] for f in H for d in DEFAULTS]
    two = [[(H[i], DEFAULTS[i % 3 if H[i].islower() else i % 2]),
            (H[(i + s) % 6], DEFAULTS[(i + 1) % 2])]
           for i in range(6)
           for s in ((1, 3) if not ctx.quick else (1 + i % 3,))]
    three = [[(H[i], 5), (H[(i + 1) % 6], 0), (H[(i + 3) % 6], -1 if
                                                H[(i + 3) % 6].islower() else 5)]
             for i in (range(0, 6, 3) if ctx.quick else range(6))]
    several = [dict(vars=[("i", -1), ("B", 5)], maps=(0, 1)),
               dict(vars=[("Q", 5), ("h", -1), ("I", 0)], maps=(0, 1, 0)),
               dict(vars=[("I", 3), ("h", -20), ("Q", 1000), ("I", 0)],
                    maps=(0, 0, 1, 1))]
    if not ctx.quick:
        several += [dict(vars=[("q", -1), ("h", 5), ("B", 0)], maps=(0, 1, 2)),
                    dict(vars=[("B", 5), ("q", 0)], maps=(0, 1))]
    if ctx.seed:
        two.append([(H[ctx.seed % 6], 5), (H[(ctx.seed + 4) % 6], 0)])
        one.append([(H[(3 * ctx.seed) % 6], 100 + ctx.seed)])
    out = []
    if ctx.quick:
        for i, v in enumerate(one):
            out.append((dict(vars=v), 2, False, 4, i % 6 == 1))
        for i, v in enumerate(two):
            out.append((dict(vars=v), 2, False, 4, False))
        for v in three:
            out.append((dict(vars=v), 2, False, 3, False))
        for c in several:
            out.append((c, 2, False, 4 if len(c["vars"]) < 3 else 3, False))
        # one more two-variable and one more two-map class, one level less
        # deep, on both kernels
        out.append((dict(vars=[("h", -1), ("I", 5)]), 2, False, 3, True))
        out.append((dict(vars=[("q", 5), ("B", 0)], maps=(0, 1)), 2, False,
                    3, True))
        # three instances, the wide alphabet: one variable
        out.append((dict(vars=[("q", -1)]), 3, True, 3, False))
        out.append((dict(vars=[("B", 5)]), 3, False, 4, False))
    else:
        for i, v in enumerate(one):
            out.append((dict(vars=v), 3, True, 4, i % 3 == 1))
        for i, v in enumerate(two):
            out.append((dict(vars=v), 2, True, 4, False))
            out.append((dict(vars=v), 3, False, 4, False))
        for v in three:
            out.append((dict(vars=v), 2, True, 3, False))
            out.append((dict(vars=v), 2, False, 4, False))
        for c in several:
            out.append((c, 2, True, (4, 4, 4, 3, 2)[len(c["vars"])], False))
            out.append((c, 3, False, 4 if len(c["vars"]) < 4 else 3, False))
        out.append((dict(vars=[("h", -1), ("I", 5)]), 2, False, 4, True))
        out.append((dict(vars=[("i", 0), ("Q", 5)]), 2, True, 3, True))
        out.append((dict(vars=[("q", 5), ("B", 0)], maps=(0, 1)), 2, False,
                    4, True))
    return out


def hashvar_configs(ctx):
    out = []
    one = [(f, d) for f in HFMT for d in DEFAULTS]
    out += [[v] for v in one]
    if ctx.quick:
        for i, f in enumerate(HFMT):
            for s in (1, 3):
                g = HFMT[(i + s) % 6]
                out.append([(f, DEFAULTS[i % 2]), (g, DEFAULTS[(i + s) % 2])])
        for i in range(0, 6, 2):
            out.append([(HFMT[i], 5), (HFMT[(i + 1) % 6], 0),
                        (HFMT[(i + 3) % 6], 5)])
    else:
        for i, f in enumerate(HFMT):
            for j, g in enumerate(HFMT):
                for dd in ((0, 5), (5, 0), (5, 5)):
                    out.append([(f, dd[0]), (g, dd[1])])
                out.append([(f, 0), (g, -1)])
        for i in range(6):
            for s in (1, 2):
                out.append([(HFMT[i], 5), (HFMT[(i + s) % 6], 0),
                            (HFMT[(i + 2 * s + 1) % 6], 5)])
    # ---- formats with their own byte order (value mode)
    X = XHFMT
    out += [[(f, 5)] for f in X]
    out += [[(">H", 0)], [("!h", -1)], [(">q", -1)]]
    out += [[(">H", 5), (">H", 0)], [(">I", 0), ("I", 5)],
            [("!h", 5), ("<h", 0)], [(">q", 5), (">q", 0)],
            [(">H", 5), ("B", 0), (">H", 0)]]
    if not ctx.quick:
        out += [[(f, d)] for f in X for d in (0, -1)]
        for i, f in enumerate(X):
            out.append([(f, 5), (f, 0)])
            out.append([(f, 0), (X[(i + 4) % len(X)], 5)])
            out.append([(f, 5), (HFMT[i % 6], 0), (f, 0)])
    if ctx.seed:
        import random
        rnd = random.Random(ctx.seed)
        for _ in range(4):
            out.append([(rnd.choice(HFMT), rnd.choice([0, 5]))
                        for _ in range(rnd.randint(2, 3))])
        for _ in range(3):
            out.append([(rnd.choice(X), rnd.choice([0, 5]))
                        for _ in range(rnd.randint(1, 2))])
    return [dict(vars=v) for v in out]


def hashvar_multimap_configs(ctx):
    """program classes with two and three HashMaps (the variables
    distributed over them: different numbers per map, declarations of the
    maps interleaved, defaults, plain formats and formats with their own
    byte order) and classes with a Dict next to the HashMap(s)"""
    out = []

    def add(vars_, maps=None, dct=None):
        cfg = dict(vars=list(vars_))
        if maps:
            cfg["maps"] = tuple(maps)
        if dct:
            cfg["dict"] = dct
        out.append(cfg)
    H = HFMT
    # ---- two maps, one variable each: every ordered pair of formats
    for i, f in enumerate(H):
        for j, g in enumerate(H):
            if ctx.quick and (i + 2 * j) % 3:
                continue
            add([(f, DEFAULTS[(i + j) % 2]), (g, DEFAULTS[(i + j + 1) % 2])],
                (0, 1))
    add([("q", -1), ("i", -1)], (0, 1))
    # ---- two maps, 1 + 2, 2 + 1, interleaved, 2 + 2, 3 + 1, 1 + 3, 3 + 2
    shapes = [(0, 1, 1), (0, 0, 1), (0, 1, 0), (0, 0, 1, 1), (0, 1, 0, 1),
              (0, 0, 0, 1), (0, 1, 1, 1), (0, 1, 1, 0)]
    if not ctx.quick:
        shapes += [(0, 0, 1, 1, 1), (0, 1, 0, 1, 0), (0, 0, 0, 1, 1)]
    for n, maps in enumerate(shapes):
        for r in range(1 if ctx.quick or len(maps) > 4 else 3):
            add([(H[(n + 2 * r + 3 * j) % 6], DEFAULTS[(n + r + j) % 2] if j
                  else 5) for j in range(len(maps))], maps)
    # the program of the library's documentation: settings and counters
    add([("I", 3), ("h", -20), ("Q", 1000), ("I", 0)], (0, 0, 1, 1))
    # ---- three maps
    shapes = [(0, 1, 2), (0, 1, 2, 0), (0, 1, 1, 2)]
    if not ctx.quick:
        shapes += [(0, 1, 2, 2, 1), (0, 0, 1, 2, 2), (0, 1, 2, 1, 0),
                   (0, 1, 0, 2)]
    for n, maps in enumerate(shapes):
        for r in range(1 if ctx.quick or len(maps) > 4 else 3):
            add([(H[(2 * n + r + 5 * j) % 6], DEFAULTS[(n + r + j + 1) % 2]
                  if j != 1 else 5) for j in range(len(maps))], maps)
    add([("q", -1), ("h", -1), ("i", -1)], (0, 1, 2))
    # ---- formats with their own byte order (value mode)
    X = XHFMT
    add([(">H", 5), (">H", 0)], (0, 1))
    add([(">I", 0), ("I", 5), (">I", 5)], (0, 1, 1))
    add([("!h", -1), ("<h", 0), ("!h", 5)], (0, 1, 2))
    add([(">q", 5), ("Q", 0), (">q", 0), ("Q", 5)], (0, 0, 1, 1))
    if not ctx.quick:
        for i, f in enumerate(X):
            add([(f, 5), (f, 0)], (0, 1))
            add([(f, 0), (H[i % 6], 5), (f, 5)], (0, 1, (i % 2) * 2))
    # ---- a Dict in the same class
    for i, pos in enumerate(("first", "last")):
        add([("I", 5)], None, pos)
        add([("q", -1), ("B", 0)], (0, 1), pos)
        add([(H[i], 0), (H[i + 2], 5)], None, pos)
        if not ctx.quick:
            add([("Q", 5), ("h", 0), ("i", 5)], (0, 1, 0), pos)
            add([("B", 5), ("Q", 0), ("I", 5)], (0, 1, 2), pos)
            for f in H:
                add([(f, 5)], None, pos)
    if ctx.seed:
        import random
        rnd = random.Random(1000 + ctx.seed)
        for _ in range(4):
            n = rnd.randint(2, 4)
            maps = [0] + [rnd.randint(0, 2) for _ in range(n - 1)]
            if len(set(maps)) == 1:
                maps[-1] = 1
            # number the maps in the order of their first variable
            order = list(dict.fromkeys(maps))
            add([(rnd.choice(H), rnd.choice([0, 5])) for _ in range(n)],
                [order.index(m) for m in maps])
        add([(rnd.choice(H), 5), (rnd.choice(H), 0)], (0, 1),
            rnd.choice(["first", "last"]))
    return out


# Dict declarations whose members carry their own byte order
XDICTS = [
    ((">H",), (">q",)), ((">I", "<H", "B"), ("!h", ">I")),
    (("<Q",), ("<i", ">H", "!B")), (("!I", "!I"), (">Q", "<q")),
    (("B", ">H"), (">i",)), ((">Q",), ("!I", "B")),
    (("!H", "!H", ">I"), (">h", "<H", "!i")), (("<I",), ("<q",)),
    ((">q",), (">I", ">I")), (("B", "!B", ">H"), ("!q",)),
]


def multi_configs(ctx):
    """(what, configuration, plan) of the several-instances searches"""
    dicts = [dict(key=("I", "B"), value=("q", "I", "B"), size=31, lru=False),
             dict(key=("B",), value=("h",), size=2, lru=False),
             dict(key=("H", "H"), value=("Q",), size=31, lru=True)]
    hvs = [[("I", 5)], [("q", -1), ("B", 0)], [("h", 5), ("Q", 0)]]
    if not ctx.quick:
        dicts += [dict(key=("Q",), value=("I", "H"), size=2, lru=True),
                  dict(key=(">H", "B"), value=(">q",), size=31, lru=False),
                  dict(key=("B", "B", "H"), value=("B",), size=31, lru=False)]
        hvs += [[("Q", 0)], [("B", 5), ("i", 5), ("h", 0)],
                [("i", -1), ("I", 0)]]
    if ctx.seed:
        lists = packed_lists()
        ks = lists[(5 * ctx.seed) % len(lists)]
        vs = lists[(11 * ctx.seed + 2) % len(lists)]
        dicts.append(dict(key=key_fmts(ks), value=value_fmts(vs), size=31,
                          lru=False))
        hvs.append([(HFMT[ctx.seed % 6], 5), (HFMT[(ctx.seed + 2) % 6], 0)])
    out = []
    for plan in PLANS:
        out += [("dict", c, plan) for c in dicts]
        out += [("hashvars", dict(vars=v), plan) for v in hvs]
        # instances of a class with several HashMaps
        out.append(("hashvars", dict(vars=[("i", -1), ("B", 5)],
                                     maps=(0, 1)), plan))
        if not ctx.quick:
            out.append(("hashvars", dict(vars=[("Q", 5), ("h", 0), ("I", 5)],
                                         maps=(0, 1, 0)), plan))
    return out


def dict_configs(ctx):
    lists = packed_lists()
    combos = [(2, False), (31, False), (2, True), (31, True)]
    out = []
    n = len(lists)
    rounds = 1 if ctx.quick else 3
    for r in range(rounds):
        for i, ks in enumerate(lists):
            vs = lists[(i * 7 + 3 + 11 * r + ctx.seed) % n]
            size, lru = combos[(i + r) % 4]
            out.append(dict(key=key_fmts(ks), value=value_fmts(vs),
                            size=size, lru=lru))
    if not ctx.quick:
        # every size/lru combination on the structures of the repo's test
        for size, lru in combos:
            out.append(dict(key=("I", "B"), value=("q", "I", "B"),
                            size=size, lru=lru))
    else:
        out.append(dict(key=("I", "B"), value=("q", "I", "B"), size=2,
                        lru=False))
    xd = XDICTS[:4] if ctx.quick else XDICTS
    for i, (k, v) in enumerate(xd):
        size, lru = combos[(i + ctx.seed) % 4]
        out.append(dict(key=k, value=v, size=size, lru=lru))
    return out


# who else uses the base classes: (second Dict, base class instances made in
# Python), each never / before / after the Dict with the derived classes
SCENARIOS = [(o, p) for o in (None, "before", "after")
             for p in (None, "before", "after")]


def chain_shapes():
    """(member sizes, split, base level) of Structure inheritance chains:
    every packed list of two or three members cut into a base class and a
    subclass in every way, and into base class, subclass and sub-subclass
    (there the root or the middle class is "the base class")"""
    out = []
    for sizes in packed_lists():
        if len(sizes) == 2:
            out.append((sizes, (1, 1), 0))
        elif len(sizes) == 3:
            out += [(sizes, (1, 2), 0), (sizes, (2, 1), 0),
                    (sizes, (1, 1, 1), 0), (sizes, (1, 1, 1), 1)]
    return out


def dict_inherit_configs(ctx):
    """Dict declarations whose Key and / or Value class derives from other
    Structure classes (chain_shapes), in program classes that have only that
    Dict, or a second Dict with the base classes declared before / after
    it, with base class instances made in Python before / after the derived
    ones (SCENARIOS): every (which side has ancestors, scenario) combination
    over rotating shapes (thorough: every shape three times); plus a few
    declarations without any ancestor whose instances are only partly
    assigned"""
    shapes, lists = chain_shapes(), packed_lists()
    combos = [(31, False), (2, False), (31, True), (2, True)]
    n = len(shapes)
    step = next(p for p in (7, 11, 13, 17, 19) if n % p)
    total = 27 if ctx.quick else 3 * n
    total += -total % 27
    out = []
    for t in range(total):
        side = ("value", "key", "both")[t % 3]
        other, pybase = SCENARIOS[(t // 3) % 9]
        size, lru = combos[(t + t // 27) % 4]
        cfg = dict(size=size, lru=lru)
        ks, ksplit, kb = shapes[(step * t + ctx.seed) % n]
        vs, vsplit, vb = shapes[(step * t + 5 * (t // n) + 3 + 2 * ctx.seed)
                                % n]
        if side == "value":
            ks, ksplit = lists[(5 * t + ctx.seed) % len(lists)], None
        elif side == "key":
            vs, vsplit = lists[(3 * t + 1 + ctx.seed) % len(lists)], None
        cfg.update(key=key_fmts(ks), value=value_fmts(vs))
        if ksplit:
            cfg.update(ksplit=ksplit, kbase=kb)
        if vsplit:
            cfg.update(vsplit=vsplit, vbase=vb)
        if other:
            cfg["other"] = other
        if pybase:
            cfg["pybase"] = pybase
        out.append(cfg)
    # ---- no ancestors, partly assigned instances
    flat = [(("I", "B"), ("q", "I", "B")), (("Q", "H", "B"), ("B", "B")),
            ((">I", "<H", "B"), (">I", "!h"))]
    if not ctx.quick:
        flat += [(key_fmts(lists[(9 * i + ctx.seed) % len(lists)]),
                  value_fmts(lists[(4 * i + 7 + ctx.seed) % len(lists)]))
                 for i in range(9)]
    for i, (k, v) in enumerate(flat):
        size, lru = combos[i % 4]
        cfg = dict(key=k, value=v, size=size, lru=lru, ksplit=(len(k),),
                   vsplit=(len(v),))
        if i % 3 == 1:
            cfg["pybase"] = "before"
        out.append(cfg)
    return out


def make_sink(res, cap=3):
    counts = {}

    def sink(case, expected, observed, kind, kf=None, note=""):
        sig = core.digest([kind, case.get("kind"), str(kf),
                           (case.get("op") or [""])[0]])
        counts[sig] = counts.get(sig, 0) + 1
        sink.n += 1
        if kf is None:
            sink.fresh += 1
        if counts[sig] <= cap:
            res.violation(case, expected, observed, kf=kf, sig=sig, note=note)
        else:
            res.count("violations_not_stored")
    sink.n = 0
    sink.fresh = 0
    return sink


def work(item, res):
    kind, cfg, depth, differential = item
    sink = make_sink(res)
    if kind == "life":
        lcfg, max_inst, wide = cfg

        def fn(_, depth, backend_cls, res, sink):
            return explore_lifecycle(lcfg, depth, backend_cls, res, sink,
                                     max_inst, wide)
    elif kind == "multi":
        what, mcfg, plan = cfg

        def fn(_, depth, backend_cls, res, sink):
            return explore_multi(what, mcfg, plan, depth, backend_cls, res,
                                 sink)
        cfg = dict(mcfg, lru=True)      # compared edge by edge where both
    else:                               # backends have the edge
        fn = explore_hashvars if kind == "hv" else explore_dict
    log = fn(cfg, depth, SimBackend, res, sink)
    res.count("evaluations")
    if log and log[0][0] == "rejected":
        res.count("rejected_by_generator")
        res.outcomes.add(("rejected", log[0][1]))
        return
    res.count("traces_validated_against_impl", len(log))
    if differential and kern.available() and not sink.fresh:
        rlog = fn(cfg, depth, RealBackend, None, None)
        compare_logs(cfg, kind, log, rlog, res)
        res.count("configurations_on_real_kernel")


def compare_logs(cfg, kind, log, rlog, res):
    """the simulated and the real kernel must agree on every edge both
    explored (all edges, unless LRU eviction made the searches diverge)"""
    if kind in ("hv", "life"):
        if log != rlog:
            for a, b in zip(log, rlog):
                if a != b:
                    raise core.Internal(
                        f"simulated and real kernel disagree on {cfg}: "
                        f"sim={a!r} real={b!r}")
            raise core.Internal(f"logs differ in length for {cfg}")
        res.count("kernel_validated", len(rlog))
        return
    def table(lg):
        out = {}
        for ent in lg:
            if ent[0] in ("init", "rejected", "setup"):
                out[ent[0]] = ent[1:]
            elif ent[0] in ("obs0", "obs", "nokeys"):
                out.setdefault(("obs", ent[1]), set()).add(repr(ent[2:]))
            elif ent[3] not in ("lru-full-update", "loose"):
                out.setdefault((ent[0], ent[1]), set()).add((ent[2], ent[3]))
        return out
    ts, tr = table(log), table(rlog)
    if not cfg["lru"] and set(ts) != set(tr):
        raise core.Internal(f"simulated and real kernel explored different "
                            f"edges for {cfg}: "
                            f"{sorted(set(ts) ^ set(tr), key=repr)[:2]}")
    for k in tr:
        if k in ts and ts[k] != tr[k]:
            raise core.Internal(f"simulated and real kernel disagree on "
                                f"{cfg} edge {k!r}: sim={ts[k]!r} "
                                f"real={tr[k]!r}")
        if k in ts:
            res.count("kernel_validated")


def run(ctx):
    st = simkernel.selftest_once()
    depth = 3 if ctx.quick else 4
    items = []
    hv = hashvar_configs(ctx)
    dc = dict_configs(ctx)
    for i, cfg in enumerate(hv):
        items.append(("hv", cfg, depth, i % 3 == 0))
    hm = hashvar_multimap_configs(ctx)
    for i, cfg in enumerate(hm):
        # (the searches branch by the number of variables: one level less
        # from four variables on and next to a Dict)
        big = len(cfg["vars"]) + (1 if cfg.get("dict") else 0) > 3
        items.append(("hv", cfg, depth - 1 if big else depth, i % 3 == 0))
    for i, cfg in enumerate(dc):
        # (a real LRU map of two entries evicts before it is full, and not
        # reproducibly: no edge-by-edge comparison there)
        items.append(("dict", cfg, depth, i % 4 == 0 and
                      not (cfg["lru"] and cfg["size"] < 31)))
    di = dict_inherit_configs(ctx)
    for i, cfg in enumerate(di):
        items.append(("dict", cfg, depth, i % 4 == 1 and
                      not (cfg["lru"] and cfg["size"] < 31)))
    mc_ = multi_configs(ctx)
    mdepth = 2 if ctx.quick else 3
    for i, m in enumerate(mc_):
        # no close() on the real kernel (descriptor numbers of the worker
        # process are none of the check's business)
        items.append(("multi", m, mdepth,
                      m[2] in ("same2", "diff2", "same3") and i % 2 == 0))
    lc = lifecycle_configs(ctx)
    for cfg, max_inst, wide, ldepth, differential in lc:
        items.append(("life", (cfg, max_inst, wide), ldepth, differential))
    dst = descriptor_selftest()
    res = core.pmap(ctx, work, items, chunk=1)
    res.cov["configurations_run"] = res.cov.pop("evaluations", 0)
    res.cov["evaluations"] = res.cov.get("transitions", 0)
    res.cov["configurations"] = dict(hashvars=len(hv), dicts=len(dc),
                                     dicts_with_ancestors=len(di),
                                     hashvars_several_maps=len(hm),
                                     several_instances=len(mc_),
                                     life_cycles=len(lc))
    res.cov["bound_life_cycles"] = max(x[3] for x in lc)
    res.cov["descriptor_selftest"] = dst
    res.cov["bound_completed"] = depth
    res.cov["bound_several_instances"] = mdepth
    res.cov["kernel_available"] = kern.available()
    res.cov["simkernel_selftest"] = st
    res.sample(dict(kind="dict", key=["I", "B"], value=["q", "I", "B"],
                    size=2, lru=False, op=["upd", 1, 2, 0]))
    res.assumptions += [
        "a hash-map variable is the low calcsize(fmt) bytes of its 64-bit "
        "cell; values written from Python fit the variable's format; the "
        "program writes whole 64-bit cells (a 64-bit packet value, or "
        "another variable's cell)",
        "hash-map variables declared in different HashMap objects of one "
        "program class are independent cells like those of one map (the "
        "statement's 'each hash-map variable'): the state of the search is "
        "the tuple of all their cells, found by probing in whatever kernel "
        "maps the library put them; whether two HashMap objects are two "
        "kernel maps is not judged.  A class that the library refuses to "
        "load is counted as rejected.  Searches with four or five variables "
        "or a Dict run one level less deep",
        "a Dict next to HashMaps: the Dict's entries under the keys 1 and 2 "
        "(None = no entry) are part of the state, any further entry is a "
        "difference; the Dict keeps its key on the stack, so the program "
        "puts the first key in place before it reads the hash-map "
        "variables and looks it up afterwards",
        "a default that struct cannot pack for the variable's signedness "
        "(-1 for an unsigned format) makes load() fail: counted as rejected "
        "by the generator",
        "program-side assignment of a Python int to a hash-map variable "
        "raises AttributeError while the program is generated (no "
        "get_address on int): outside the property, not enumerated",
        "LRU maps: which entries are evicted by an insertion into a full "
        "map is not specified; the inserted entry must be present, all "
        "other entries must be unchanged survivors",
        "iteration order of a Dict is unspecified (compared sorted); the "
        "keys an iteration hands out are values of their own: collected "
        "first and used afterwards (list(d), sorted(d), list(d.items()), "
        "then d[k] / del d[k] / d.pop(k) for every collected k) they must "
        "denote the entries the map had",
        "a hash-map variable whose format carries its own byte order is "
        "judged on values only: the program writes the number it read from "
        "the packet with the plain letter of the format, copies only "
        "between variables of equal format, and whatever number either "
        "side wrote (or the default) must be read back by both; how the "
        "cell is laid out is left to the library.  Dict members with their "
        "own byte order are stored in that order (reference: struct.pack "
        "with the member's format)",
        "several instances (of one program class or of two) in one process "
        "each own their maps: an operation through one instance changes "
        "nothing another instance sees, a fresh instance starts with an "
        "empty Dict / the defaults whatever earlier instances did; after "
        "EBPF.close() the maps stay usable from Python (XDP.run() closes "
        "right after attaching).  If the library refuses to create a "
        "further instance with an exception this is counted, not alarmed. "
        "These searches use a reduced alphabet (two keys, plain formats for "
        "hash-map variables) and depth 2 (thorough: 3)",
        "Structure classes deriving from other Structure classes and "
        "adding members are legal key / value classes of a Dict (Member."
        "__set_name__ continues at the inherited `stack`); a member of a "
        "Structure made in Python that was never assigned holds 0 "
        "(Structure.__init__ zero-fills), and that is what the program must "
        "find after the instance was stored; reading a member of an "
        "instance made in Python (assigned or not) does not raise",
        "the second Dict of the configurations with ancestors is not part "
        "of the search state: its one entry is re-established before every "
        "edge, operations on the first Dict must leave it alone, operations "
        "on it must leave the first Dict alone; the history that matters "
        "there (which class was instantiated first in the process) is "
        "fixed when the case is set up, fresh classes per configuration",
        "life cycles: 'holds its declared default after loading' is read "
        "as: after every EBPF.load() of a program object - the first one, "
        "one after close(), one without close() in between - each of its "
        "hash-map variables reads as its declared default from Python and "
        "from the program, whatever Python or an earlier run wrote before; "
        "load() and the writes of one instance are invisible to every other "
        "instance (of the same class or of a class built from the same "
        "declaration); close() changes no variable.  Equal reference states "
        "(open / closed and cells per instance) are taken to have equal "
        "futures; every edge is reached by the literal shortest history in "
        "a fresh kernel, nothing is written into maps behind the library's "
        "back.  Plain formats only; pinned maps (load_maps=) are not "
        "enumerated",
        "states are re-established by writing the kernel map directly "
        "(TheDict and the descriptors keep no state of their own besides "
        "the map descriptor), so equal map contents have equal futures"]
    return res


def replay(ctx, rep):
    res = core.Result()
    sink = make_sink(res, cap=10 ** 9)
    c = rep["case"]
    depth = 3 if ctx.quick else 4
    if c["kind"] == "lifecycle":
        cfg = hv_cfg_of(c)
        ldepth = max([x[3] for x in lifecycle_configs(ctx)
                      if x[:3] == (cfg, c["instances"], c["wide"])] or
                     [len(c.get("seq") or []) + 1])
        log = explore_lifecycle(cfg, ldepth, SimBackend, res, sink,
                                c["instances"], c["wide"])
    elif c["kind"] == "multi":
        if c["what"] == "dict":
            cfg = dict(key=tuple(c["key"]), value=tuple(c["value"]),
                       size=c["size"], lru=c["lru"])
        else:
            cfg = hv_cfg_of(c)
        log = explore_multi(c["what"], cfg, c["plan"],
                            2 if ctx.quick else 3, SimBackend, res, sink)
    elif c["kind"] == "hashvars":
        cfg = hv_cfg_of(c)
        log = explore_hashvars(cfg, depth, SimBackend, res, sink)
    else:
        cfg = dict_cfg_of(c)
        log = explore_dict(cfg, depth, SimBackend, res, sink)
    want = core.jsonable((c.get("state"), c.get("op"), c.get("inst")))
    print("configuration:", cfg, "-", len(log), "edges explored")
    out = [v for v in res.violations
           if core.jsonable((v["case"].get("state"), v["case"].get("op"),
                             v["case"].get("inst"))) == want]
    for v in out[:5]:
        print("  after", v["case"].get("seq"), "op", v["case"].get("op"),
              "expected", v["expected"], "observed", v["observed"])
    return out
