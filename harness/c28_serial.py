"""C28 - serial channels transfer bytes exactly once, in order.

The real ``ebpfcat.serial.Serial`` device sits on a real slow ``SyncGroup``
(hand-made EL6002 terminal object, no bus); its ``update()`` is called once
per cycle on the real ``current_data``; the application side uses the device's
real non-blocking pipes.  The environment is a model of the *terminal side* of
the EL6002 handshake, written from the channel's PacketDescs in terminals.py
and the Beckhoff description of the control/status word:

  control (OUT byte 0): bit0 TR transmit request, bit1 RA receive accepted,
                        bit2 IR init request; OUT bytes 1.. = length + 22 data
  status  (IN byte 0):  bit0 TA transmit accepted, bit1 RR receive request,
                        bit2 IA init accepted;  IN bytes 1.. = length + 22 data

  init      IR=1 -> (after li frames) IA=1; IR=0 -> IA=0, exchange enabled
  transmit  master: data + toggle TR;  terminal: latches the data in the frame
            in which it sees the toggle, toggles TA after 0..k more frames;
            only then may the master toggle TR again
  receive   terminal: data + toggle RR (only when the previous chunk has been
            acknowledged); master: takes the data, toggles RA

Executions are *scripts* (no hidden choice): application writes (gap, length),
terminal accept latencies per chunk, terminal announcements (gap, length),
init latency, initial values of the terminal's toggle bits, channel.  All
scripts of the stated families are enumerated; every execution is run to
completion (explicit horizon) on fresh pipes, which are closed afterwards.

Families T, R, X drive one Serial device (transmit direction exhaustive,
receive direction exhaustive, both at once).  Family D drives TWO Serial
devices in one SyncGroup in one execution - both channels of one EL6002 (in
either device order) or one channel of each of two EL6002 - each with its own
script, its own terminal model and its own application; the scripts of the
first device include writes of several chunks (23, 45 bytes, back to back)
while the second is idle, writes later, or is busy too.  Each channel is
judged on its own by the same oracles: it must present exactly the bytes its
own application wrote, and deliver exactly what its own terminal announced.
Family H is a history: a Serial that was initialised, given bytes and then
abandoned after c cycles (bytes still in its pipe, fetched but unsent, or in
flight; pipes closed), followed by a fresh Serial in the same process, which
must behave as if it were the first.
"""
import copy
import itertools
import os

from mc import core

import ebpfcat.serial
from ebpfcat.ebpfcat import SimpleEtherCat, SyncGroup
from ebpfcat.ethercat import SyncManager
from ebpfcat.serial import Serial
from ebpfcat.terminals import EL6002

PROP = "C28"
LEVEL = "model_checking"
RULE = ("every script of the stated families (application writes x terminal "
        "accept latencies x terminal announcements x init behaviour; for one "
        "Serial device, for two Serial devices of one sync group with a "
        "script each, and for a fresh Serial after one that was abandoned "
        "with unsent bytes) is one execution of the real Serial.update "
        "against one terminal model per channel; non-trivial = at least one "
        "chunk crossed a channel; distinct = distinct script")

K = 2                       # maximal accept latency (frames)
LENGTHS = (1, 21, 22, 23, 45)
RXLENGTHS = (0, 1, 22)     # an empty chunk is announced and acknowledged too
CHUNK = 22
QUIET = 3                   # cycles executed after everything is complete


def app_byte(seed, i):
    return (i * 7 + 1 + seed * 31) & 0xff


def term_byte(seed, i):
    return (i * 11 + 0x80 + seed * 17) & 0xff


class Terminal:
    """terminal side of one EL6002 channel, acting on the frame bytes"""

    def __init__(self, data, inpos, outpos, case, bad):
        self.d, self.i, self.o = data, inpos, outpos
        self.bad = bad
        self.li = case["init"]
        self.lat = list(case["lat"])
        self.rx = [tuple(x) for x in case["rx"]]
        self.seed = case["seed"]
        ta0, rr0 = case["tog"]
        self.status(ta=ta0, rr=rr0, ia=0)
        self.state = "idle"        # idle -> init -> ready
        self.initcount = 0
        self.last_tr = self.last_ra = None
        self.pending = None        # [frames left, latched string]
        self.accepted = bytearray()
        self.chunks = []           # lengths of accepted chunks
        self.tr_toggles = 0
        self.announced = bytearray()
        self.rx_next = 0
        self.rx_wait = None        # frames until the next announcement
        self.waiting_ack = False
        self.ra_toggles = 0
        self.both_active = False

    # -- raw access, independent of ebpfcat's descriptors
    def ctrl(self):
        b = self.d[self.o]
        return b & 1, (b >> 1) & 1, (b >> 2) & 1

    def out_string(self):
        n = self.d[self.o + 1]
        return bytes(self.d[self.o + 2:self.o + 2 + min(n, CHUNK)]), n

    def status(self, ta=None, rr=None, ia=None):
        b = self.d[self.i]
        for bit, v in ((0, ta), (1, rr), (2, ia)):
            if v is not None:
                b = (b | (1 << bit)) if v else (b & ~(1 << bit) & 0xff)
        self.d[self.i] = b

    def get_status(self):
        b = self.d[self.i]
        return b & 1, (b >> 1) & 1, (b >> 2) & 1

    def frame(self):
        """one frame passes the terminal"""
        tr, ra, ir = self.ctrl()
        if self.state != "ready":
            if ir:
                self.state = "init"
                self.initcount += 1
                if self.initcount > self.li:
                    self.status(ia=1)
            elif self.state == "init" and self.get_status()[2]:
                self.status(ia=0)
                self.state = "ready"
                self.last_tr, self.last_ra = tr, ra
            if self.state != "ready":
                return
        elif ir:
            self.bad("init requested again after the connection was made",
                     "IR=0", "IR=1")
            return
        # ---- transmit direction (master -> terminal)
        s, n = self.out_string()
        if tr != self.last_tr:
            self.last_tr = tr
            self.tr_toggles += 1
            if self.pending is not None:
                self.bad("transmit request toggled before the previous "
                         "chunk was acknowledged",
                         "TR stable", "TR toggled")
            if n > CHUNK:
                self.bad("out_string length byte exceeds 22", "<= 22", n)
            lat = self.lat[(self.tr_toggles - 1) % len(self.lat)] \
                if self.lat else 0
            self.pending = [lat, s]
        elif self.pending is not None and s != self.pending[1]:
            self.bad("out_string changed between request and acknowledge",
                     self.pending[1].hex(), s.hex())
        if self.pending is not None:
            if self.pending[0] == 0:
                self.accepted += self.pending[1]
                self.chunks.append(len(self.pending[1]))
                self.pending = None
                self.status(ta=1 - self.get_status()[0])
            else:
                self.pending[0] -= 1
        # ---- receive direction (terminal -> master)
        if ra != self.last_ra:
            self.last_ra = ra
            self.ra_toggles += 1
            if not self.waiting_ack:
                self.bad("receive accept toggled without a pending chunk",
                         "RA stable", "RA toggled")
            self.waiting_ack = False
        if not self.waiting_ack and self.rx_next < len(self.rx):
            if self.rx_wait is None:
                self.rx_wait = self.rx[self.rx_next][0]
            if self.rx_wait == 0:
                n = self.rx[self.rx_next][1]
                off = len(self.announced)
                chunk = bytes(term_byte(self.seed, off + j) for j in range(n))
                self.announced += chunk
                self.d[self.i + 1] = n
                self.d[self.i + 2:self.i + 2 + n] = chunk
                self.status(rr=1 - self.get_status()[1])
                self.waiting_ack = True
                self.rx_next += 1
                self.rx_wait = None
                if self.pending is not None:
                    self.both_active = True
            else:
                self.rx_wait -= 1

    def done(self):
        return (self.state == "ready" and self.pending is None
                and not self.waiting_ack and self.rx_next == len(self.rx))


def horizon(sub):
    nchunks = sum((n + CHUNK - 1) // CHUNK + 1 for _, n in sub["app"])
    h = sub["init"] + 4
    h += sum(g for g, _ in sub["app"]) + \
        nchunks * (max([K] + list(sub["lat"])) + 3)
    h += sum(g + 3 for g, _ in sub["rx"])
    return 2 * h + 10


def subs_of(case):
    """the channel scripts of an execution; a case without "chans" is one
    channel described by the case itself"""
    if "chans" in case:
        return [dict(s) for s in case["chans"]]
    return [dict(app=case["app"], lat=case["lat"], rx=case["rx"],
                 init=case["init"], tog=case["tog"], chan=case["chan"],
                 term=0, seed=case["seed"])]


# State the library keeps outside of Serial instances (class attributes of
# Serial that get rebound or mutated, module globals; the unchanged tree has
# none that changes).  It is put back before every execution, so that
# executions are independent of which ones a forked worker ran before;
# *inside* one execution (several Serial devices, a Serial abandoned before
# another one is made) it is of course left alone - that is what is checked.
_MUTABLE = (bytearray, list, dict, set)
_SIMPLE = (bool, int, float, bytes, str, tuple, frozenset, type(None))
_NAMESPACES = (Serial, ebpfcat.serial)
_LIBSTATE = [{k: (v, copy.deepcopy(v) if isinstance(v, _MUTABLE) else None)
              for k, v in vars(ns).items()
              if not (k.startswith("__") and k.endswith("__"))}
             for ns in _NAMESPACES]


def reset_library_state():
    for ns, saved in zip(_NAMESPACES, _LIBSTATE):
        for k in sorted(vars(ns)):
            if k.startswith("__") and k.endswith("__"):
                continue
            if k not in saved:
                if isinstance(vars(ns)[k], _MUTABLE + _SIMPLE):
                    delattr(ns, k)
                continue
            v, content = saved[k]
            if vars(ns)[k] is not v and isinstance(v, _MUTABLE + _SIMPLE):
                setattr(ns, k, v)
            if isinstance(v, (bytearray, list)):
                v[:] = content
            elif isinstance(v, (dict, set)):
                v.clear()
                v.update(content)


class Rig:
    """one serial channel in an execution: the real Serial device, the model
    of its terminal side, the application's script and what it has seen"""

    def __init__(self, sub, ser, tag, viol):
        self.sub, self.ser, self.tag, self.viol = sub, ser, tag, viol
        self.seed = sub["seed"]
        self.app = [tuple(x) for x in sub["app"]]
        self.app_next, self.app_wait = 0, None
        self.written = bytearray()
        self.delivered = bytearray()
        self.tm = None

    def bad(self, what, expected, observed):
        if not any(v[0] == what and v[3] == self.tag for v in self.viol):
            self.viol.append((what, expected, observed, self.tag))

    def attach(self, data, inpos, outpos):
        self.tm = Terminal(data, inpos, outpos, self.sub, self.bad)

    def app_writes(self):
        """application writes (several writes may fall into one cycle)"""
        while self.app_next < len(self.app):
            if self.app_wait is None:
                self.app_wait = self.app[self.app_next][0]
            if self.app_wait > 0:
                self.app_wait -= 1
                break
            n = self.app[self.app_next][1]
            chunk = bytes(app_byte(self.seed, len(self.written) + j)
                          for j in range(n))
            if os.write(self.ser.out_write, chunk) != n:
                raise core.Internal("short write into the device pipe")
            self.written += chunk
            self.app_next += 1
            self.app_wait = None

    def drain(self):
        """the application drains its receive pipe every cycle"""
        while True:
            try:
                got = os.read(self.ser.in_read, 4096)
            except BlockingIOError:
                break
            if not got:
                break
            self.delivered += got

    def check_prefix(self):
        tm = self.tm
        exp_deliv = (b"A" if self.ser.connected else b"") + \
            bytes(tm.announced)
        if not exp_deliv.startswith(bytes(self.delivered)):
            self.bad("application received bytes the terminal did not "
                     "announce (duplicate, reordered or foreign)",
                     exp_deliv.hex(), bytes(self.delivered).hex())
        if not bytes(self.written).startswith(bytes(tm.accepted)):
            self.bad("terminal was given bytes the application did not write "
                     "in that order (duplicate, reordered or foreign)",
                     bytes(self.written).hex(), bytes(tm.accepted).hex())

    def complete(self):
        tm = self.tm
        return (tm.done() and self.app_next == len(self.app)
                and tm.accepted == self.written
                and bytes(self.delivered) == b"A" + bytes(tm.announced))

    def check_final(self):
        tm = self.tm
        if bytes(tm.accepted) != bytes(self.written):
            self.bad("bytes written by the application were not presented "
                     "to the terminal within the horizon",
                     bytes(self.written).hex(), bytes(tm.accepted).hex())
        if bytes(self.delivered) != b"A" + bytes(tm.announced):
            self.bad("bytes announced by the terminal were not delivered to "
                     "the application within the horizon",
                     (b"A" + bytes(tm.announced)).hex(),
                     bytes(self.delivered).hex())
        if tm.tr_toggles != len(tm.chunks):
            self.bad("transmit request toggles != chunks accepted",
                     len(tm.chunks), tm.tr_toggles)
        if tm.ra_toggles != len(tm.rx) or tm.waiting_ack:
            self.bad("receive accept toggles != chunks announced",
                     len(tm.rx), tm.ra_toggles)


def run_phase(subs, viol, phase, limit=None, trace=None):
    """one sync group with one Serial per sub-script, run for ``limit``
    cycles and then abandoned, or (limit None) to completion and judged"""
    ec = SimpleEtherCat("c28")
    terms = {}
    rigs = []
    fds = []
    try:
        for n, sub in enumerate(subs):
            t = sub.get("term", 0)
            if t not in terms:
                term = EL6002(ec)
                term.position = 5 + t
                term.pdos = {}
                term.pdo_in_sz = term.pdo_out_sz = 48
                terms[t] = term
            term = terms[t]
            chan = term.channel1 if sub["chan"] == 1 else term.channel2
            ser = Serial(chan)
            fds += [ser.in_read, ser.in_write, ser.out_read, ser.out_write]
            tag = phase if len(subs) == 1 and phase == "main" else \
                "%s, device %d of %d (terminal %d channel %d)" % (
                    phase, n + 1, len(subs), t, sub["chan"])
            rigs.append(Rig(sub, ser, tag, viol))
        if len({(s.get("term", 0), s["chan"]) for s in subs}) != len(subs):
            raise core.Internal("rig: two devices on one channel")
        sg = SyncGroup(ec, [r.ser for r in rigs])
        sg.allocate()
        sg.current_data = bytearray(max(46, sg.packet.size))
        regions = []
        for r in rigs:
            term = terms[r.sub.get("term", 0)]
            base = 0 if r.sub["chan"] == 1 else 24
            inpos = sg.pdo_assign[term][SyncManager.IN] + base
            outpos = sg.pdo_assign[term][SyncManager.OUT] + base
            regions += [inpos, outpos]
            r.attach(sg.current_data, inpos, outpos)
        regions.sort()
        if any(b - a < 24 for a, b in zip(regions, regions[1:])) \
                or regions[-1] + 24 > len(sg.current_data):
            raise core.Internal("rig: process data regions overlap")
        quiet = 0
        cycles = 0
        overlap = False
        H = limit if limit is not None else max(horizon(s) for s in subs)
        for cycle in range(H):
            cycles += 1
            for r in rigs:
                r.tm.frame()
            if sum(r.tm.pending is not None for r in rigs) > 1:
                overlap = True
            for r in rigs:
                r.app_writes()
            # as SyncGroup.update_devices does
            try:
                for dev in sg.devices:
                    dev.update()
            except Exception as e:
                rigs[sg.devices.index(dev)].bad(
                    "Serial.update raised", "no exception", repr(e))
                break
            for r in rigs:
                r.drain()
            if trace is not None:
                for r in rigs:
                    tm = r.tm
                    trace.append((r.tag, cycle, tm.ctrl(), tm.get_status(),
                                  tm.state, len(r.written), len(tm.accepted),
                                  len(tm.announced), len(r.delivered)))
            for r in rigs:
                r.check_prefix()
            if viol:
                break
            if limit is None and all(r.complete() for r in rigs):
                quiet += 1
                if quiet > QUIET:
                    break
            else:
                quiet = 0
        if not viol and limit is None:
            for r in rigs:
                r.check_final()
        return dict(cycles=cycles,
                    tx_chunks=[list(r.tm.chunks) for r in rigs],
                    rx_chunks=[r.tm.rx_next for r in rigs],
                    both=any(r.tm.both_active for r in rigs),
                    overlap=overlap,
                    tr=[r.tm.tr_toggles for r in rigs],
                    ra=[r.tm.ra_toggles for r in rigs],
                    unsent=[len(r.written) - len(r.tm.accepted)
                            for r in rigs])
    finally:
        for fd in fds:
            try:
                os.close(fd)
            except OSError:
                pass


def execute(case, trace=None):
    """returns (violations [(what, expected, observed, where)], stats dict)"""
    viol = []
    reset_library_state()
    prior = None
    if case.get("prior"):
        # history: a Serial that was used and then abandoned (its pipes are
        # closed, nobody calls update any more) earlier in the same process
        p = case["prior"]
        prior = run_phase([dict(p, term=p.get("term", 0))], viol,
                          "abandoned device", limit=p["cycles"], trace=trace)
    stats = run_phase(subs_of(case), viol, "main", trace=trace)
    if prior is not None:
        stats["prior_unsent"] = prior["unsent"][0]
        stats["prior_chunks"] = len(prior["tx_chunks"][0])
        stats["cycles"] += prior["cycles"]
    return viol, stats


# ------------------------------------------------------------------ families
def scripts(maxn, gaps, lengths):
    out = [()]
    for n in range(1, maxn + 1):
        for combo in itertools.product(
                itertools.product(gaps, lengths), repeat=n):
            out.append(tuple(combo))
    return out


def cases(ctx):
    seed = ctx.seed
    q = ctx.quick
    lat_all = [tuple(p) for p in itertools.product(range(K + 1), repeat=3)]
    lat_few = [(0, 0, 0), (2, 1, 0), (1, 2, 2)]
    rx_busy = ((0, 22), (0, 1), (0, 22))
    inits = [(li, (ta, rr), ch)
             for li in range(K + 1) for ta in (0, 1) for rr in (0, 1)
             for ch in (1, 2)]
    out = []

    def add(fam, app, lat, rx, init):
        li, tog, ch = init
        out.append(dict(fam=fam, app=[list(a) for a in app], lat=list(lat),
                        rx=[list(r) for r in rx], init=li, tog=list(tog),
                        chan=ch, seed=seed))

    # T: transmit direction exhaustive
    if q:
        apps = scripts(2, (0, 1, 2, 3), LENGTHS) + \
            [a for a in scripts(3, (0, 2), (1, 23, 45)) if len(a) == 3]
        lats = [p for p in lat_all if p[0] == p[2]]
    else:
        apps = scripts(3, (0, 1, 2, 3), LENGTHS)
        lats = lat_all
    pairs = [(app, lat) for app in apps
             for lat in (lat_few if q and len(app) == 3 else lats)]
    for n, (app, lat) in enumerate(pairs):
        rxs = [(), rx_busy] if not q else [((), rx_busy)[n % 2]]
        for rx in rxs:
            add("T", app, lat, rx, inits[(n * 5 + 3) % len(inits)])
    # S: a slow terminal: one accept takes tens of cycles (a full buffer,
    # a slow line); the other latencies stay small
    slow = [(30, 0, 0), (0, 40, 1), (1, 0, 64), (130, 0, 0)]
    for n, lat in enumerate(slow if q else slow + [(26, 26, 26),
                                                   (0, 300, 0)]):
        for app in (((0, 1),), ((0, 45),), ((0, 23), (2, 22), (0, 1)),
                    ((1, 45), (0, 45))):
            for rx in ((), rx_busy):
                add("S", app, lat, rx, inits[(n * 7 + 2) % len(inits)])
    # R: receive direction exhaustive
    rxs = scripts(3, range(K + 1), RXLENGTHS)
    apps = [(), ((0, 45),), ((2, 22), (0, 22), (3, 1)), ((0, 1), (1, 23))]
    for rx in rxs:
        for app in (apps[1:3] if q else apps):
            for lat in (lat_few[:2] if q else lat_few):
                for init in ([inits[0], inits[15], inits[18], inits[21]]
                             if q else inits):
                    add("R", app, lat, rx, init)
    # X: both directions at once
    apps = scripts(1 if q else 2, (0, 1, 2), LENGTHS)
    rxs = scripts(2, range(K + 1), RXLENGTHS)
    lats = lat_few if q else [tuple(p) + (p[0],) for p in
                              itertools.product(range(K + 1), repeat=2)]
    for n, (app, rx, lat) in enumerate(itertools.product(apps, rxs, lats)):
        add("X", app, lat, rx, inits[(n * 7 + 1) % len(inits)])

    def sub(app, lat, rx, li, tog, term, chan, k):
        # every device of an execution has its own payload coding
        return dict(app=[list(a) for a in app], lat=list(lat),
                    rx=[list(r) for r in rx], init=li, tog=list(tog),
                    term=term, chan=chan, seed=seed + 5 * k)

    # D: two Serial devices in ONE sync group (both channels of one EL6002
    # in either device order, or one channel of each of two terminals), each
    # with its own application script, terminal latencies and announcements
    places = [((0, 1), (0, 2)), ((0, 2), (0, 1)), ((0, 1), (1, 1)),
              ((0, 2), (1, 2))]
    if q:
        apps_a = scripts(2, (0, 2), (1, 23, 45))
        apps_b = scripts(1, (0, 1, 3), (1, 22, 45))
    else:
        apps_a = scripts(2, (0, 1, 2), (1, 22, 23, 45))
        apps_b = scripts(1, (0, 1, 3), LENGTHS) + \
            [((0, 23), (0, 23)), ((2, 1), (1, 45))]
    latpairs = [(a, b) for a in lat_few for b in lat_few]
    rxpairs = [((), ()), ((), rx_busy), (rx_busy, ()), (rx_busy, rx_busy)]
    lis = [(a, b) for a in range(K + 1) for b in range(K + 1)]
    togs = [(0, 0), (1, 0), (0, 1), (1, 1)]
    n = 0
    for app_a, app_b in itertools.product(apps_a, apps_b):
        for place in places:
            for j in range(2 if q else 4):
                n += 1
                lat_a, lat_b = latpairs[(n * 2 + j) % len(latpairs)]
                rx_a, rx_b = rxpairs[(n + j) % len(rxpairs)]
                li_a, li_b = lis[(n * 4 + j) % len(lis)]
                out.append(dict(fam="D", seed=seed, chans=[
                    sub(app_a, lat_a, rx_a, li_a, togs[n % 4], *place[0], 0),
                    sub(app_b, lat_b, rx_b, li_b, togs[(n // 4) % 4],
                        *place[1], 1)]))
    # H: histories - a Serial that was used and abandoned after c cycles
    # (with bytes still in its pipe, fetched but not sent, or in flight),
    # then a fresh Serial in the same process
    priors = [((0, 1),), ((0, 23),), ((0, 45),), ((0, 22), (0, 22)),
              ((0, 70),), ((0, 22), (2, 30))]
    mains = [(), ((0, 1),), ((0, 45),), ((1, 22), (0, 23))]
    n = 0
    for papp in priors:
        for cut in range(1, 7 if q else 10):
            for lat in (lat_few[:2] if q else lat_few):
                for app in mains:
                    for pch, ch in ((1, 1), (1, 2), (2, 1), (2, 2)):
                        n += 1
                        li = n % (K + 1)
                        c = sub(app, lat_few[n % 3],
                                (rx_busy, ())[(n // 3) % 2], (n // 2) % (K + 1),
                                togs[n % 4], 0, ch, 0)
                        del c["seed"]
                        p = sub(papp, lat, ((), rx_busy)[n % 2], li,
                                togs[(n // 4) % 4], 0, pch, 1)
                        # the cut counts from the cycle the connection is made
                        p["cycles"] = li + 2 + cut
                        out.append(dict(c, fam="H", seed=seed, prior=p))
    return out


def work(case, res):
    viol, stats = execute(case)
    res.count("evaluations")
    res.count("traces_validated_against_impl")
    res.count("transitions", stats["cycles"])
    ntx = sum(len(c) for c in stats["tx_chunks"])
    nrx = sum(stats["rx_chunks"])
    if ntx or nrx:
        res.nontrivial.add(core.digest(case))
    if len(stats["tx_chunks"]) > 1:
        if stats["overlap"]:
            res.count("two_devices_transmitting_at_once")
        if any(len(c) > 1 for c in stats["tx_chunks"]) and \
                any(not c for c in stats["tx_chunks"]):
            res.count("one_device_several_chunks_other_idle")
    if stats.get("prior_unsent"):
        res.count("abandoned_with_unsent_bytes")
    res.outcomes.add((len(stats["tx_chunks"]), ntx, nrx,
                      stats["both"], stats["overlap"],
                      bool(stats.get("prior_unsent")), bool(viol)))
    for what, exp, obs, where in viol:
        res.violation(case, exp, obs, sig=core.digest([what]),
                      note=what if where == "main" else
                      "%s [%s]" % (what, where))


def selftest():
    """the terminal model and the monitors against a scripted ideal master"""
    # a master that re-sends: the monitor must notice
    data = bytearray(96)
    seen = []
    case = dict(init=0, lat=[1], rx=[], seed=0, tog=[0, 0])
    tm = Terminal(data, 0, 48, case, lambda *a: seen.append(a[0]))
    data[48] = 4
    tm.frame()
    if tm.get_status()[2] != 1:
        raise core.Internal("terminal model: no init accept")
    data[48] = 0
    tm.frame()
    if tm.state != "ready" or tm.get_status()[2] != 0:
        raise core.Internal("terminal model: init not finished")
    data[49:52] = b"\x02hi"
    data[48] = 1
    tm.frame()
    if tm.get_status()[0] != 0 or seen:
        raise core.Internal("terminal model: accepted too early")
    data[50] = 0x55
    tm.frame()
    if not any("changed between" in s for s in seen):
        raise core.Internal("monitor: unstable out_string not noticed")
    if tm.get_status()[0] != 1 or bytes(tm.accepted) != b"hi":
        raise core.Internal("terminal model: chunk not accepted")
    data[48] = 3
    tm.frame()
    if not any("without a pending" in s for s in seen):
        raise core.Internal("monitor: spurious receive accept not noticed")


def run(ctx):
    selftest()
    items = cases(ctx)
    # determinism and fd hygiene: some executions of every family twice
    nfd = len(os.listdir("/proc/self/fd"))
    probe = items[:20] + items[-20:] + \
        [c for c in items if c["fam"] == "D"][:300:15]
    for c in probe:
        first = execute(c)
        # (an execution that violates the property may well leave the
        # library in a different state; it is reported below anyway)
        if not first[0] and execute(c) != first:
            raise core.Internal("execution is not deterministic")
    if len(os.listdir("/proc/self/fd")) != nfd:
        raise core.Internal("file descriptors leak")
    res = core.pmap(ctx, work, items)
    fam = {}
    for c in items:
        fam[c["fam"]] = fam.get(c["fam"], 0) + 1
    res.cov["states"] = len(res.nontrivial)
    res.cov["alphabet"] = dict(
        families=fam, k=K, app_lengths=LENGTHS, rx_lengths=RXLENGTHS,
        app_gaps=[0, 1, 2, 3], rx_gaps=list(range(K + 1)),
        init_latency=list(range(K + 1)), initial_toggle_bits=4, channels=2,
        devices_per_sync_group=[1, 2],
        placements_of_two_devices=["t0c1+t0c2", "t0c2+t0c1", "t0c1+t1c1",
                                   "t0c2+t1c2"],
        abandoned_after_cycles=[1, 6 if ctx.quick else 9])
    res.cov["bound_completed"] = "all scripts of families T, S, R, X, D, H"
    for k in ("two_devices_transmitting_at_once",
              "one_device_several_chunks_other_idle",
              "abandoned_with_unsent_bytes"):
        if not res.cov.get(k) and not res.violations:
            raise core.Internal("vacuous: no execution with " + k)
    for c in (items[1], items[len(items) // 2], items[-1]):
        res.sample(c)
    res.assumptions += [
        "terminal model: data exchange is enabled in the frame in which the "
        "terminal sees IR=0 after IA=1; it latches out_string in the frame "
        "that shows the TR toggle and requires it unchanged in every frame "
        "up to and including the one in which it toggles TA",
        "'exactly once, in order' is judged on the byte stream: writes that "
        "reach the device together may be presented as one chunk; a chunk "
        "is whatever one TR toggle announces (1..22 bytes)",
        "'presented' / 'delivered' is judged at a horizon of at least twice "
        "the cycles a handshake with the maximal latencies needs",
        "the terminal announces a chunk only after the previous one has "
        "been acknowledged and never during initialisation; the application "
        "drains its pipe every cycle",
        "payload bytes are position-coded (seed changes the coding, and "
        "every device of an execution has its own coding); the device "
        "never looks at payload values",
        "several Serial devices of one sync group (family D) are updated in "
        "the order of SyncGroup.devices once per cycle, as "
        "SyncGroup.update_devices does; every channel has its own terminal "
        "model and application and is judged on its own: it must present "
        "exactly the bytes its own application wrote (for two independent "
        "channels the horizon is the larger of the two)",
        "family H: the abandoned device is judged by the prefix oracles only "
        "(it is never completed); the fresh device by all of them; 'the "
        "same process' is one forked worker, library state outside of "
        "Serial instances is put back to its import-time value between "
        "executions, never inside one",
    ]
    return res


def replay(ctx, rep):
    case = rep["case"]
    trace = []
    viol, stats = execute(case, trace)
    print("  device / cycle ctrl(TR,RA,IR) status(TA,RR,IA) state written "
          "accepted announced delivered")
    for t in trace:
        print("  %s %5d %-14s %-16s %-6s %7d %8d %9d %9d" % t)
    print("  ", stats)
    res = core.Result()
    for what, exp, obs, where in viol:
        res.violation(case, exp, obs, note="%s [%s]" % (what, where))
    return res.violations
