"""C28 - serial channels transfer bytes exactly once, in order.

The real ``ebpfcat.serial.Serial`` device sits on a real slow ``SyncGroup``
(hand-made EL6002 terminal object, no bus); its ``update()`` is called once
per cycle on the real ``current_data``; the application side uses the device's
real non-blocking pipes.  The environment is a model of the *terminal side* of
the EL6002 handshake, written from the channel's PacketDescs in terminals.py
and the Beckhoff description of the control/status word:

  control (OUT byte 0): bit0 TR transmit request, bit1 RA receive accepted,
                        bit2 IR init request; OUT bytes 1.. = length + 22 data
  status  (IN byte 0):  bit0 TA transmit accepted, bit1 RR receive request,
                        bit2 IA init accepted;  IN bytes 1.. = length + 22 data

  init      IR=1 -> (after li frames) IA=1; IR=0 -> IA=0, exchange enabled
  transmit  master: data + toggle TR;  terminal: latches the data in the frame
            in which it sees the toggle, toggles TA after 0..k more frames;
            only then may the master toggle TR again
  receive   terminal: data + toggle RR (only when the previous chunk has been
            acknowledged); master: takes the data, toggles RA

Executions are *scripts* (no hidden choice): application writes (gap, length),
terminal accept latencies per chunk, terminal announcements (gap, length),
init latency, initial values of the terminal's toggle bits, channel.  All
scripts of the stated families are enumerated; every execution is run to
completion (explicit horizon) on fresh pipes, which are closed afterwards.
"""
import itertools
import os

from mc import core

from ebpfcat.ebpfcat import SimpleEtherCat, SyncGroup
from ebpfcat.ethercat import SyncManager
from ebpfcat.serial import Serial
from ebpfcat.terminals import EL6002

PROP = "C28"
LEVEL = "model_checking"
RULE = ("every script of the stated families (application writes x terminal "
        "accept latencies x terminal announcements x init behaviour) is one "
        "execution of the real Serial.update against the terminal model; "
        "non-trivial = at least one chunk crossed the channel; distinct = "
        "distinct script")

K = 2                       # maximal accept latency (frames)
LENGTHS = (1, 21, 22, 23, 45)
RXLENGTHS = (0, 1, 22)     # an empty chunk is announced and acknowledged too
CHUNK = 22
QUIET = 3                   # cycles executed after everything is complete


def app_byte(seed, i):
    return (i * 7 + 1 + seed * 31) & 0xff


def term_byte(seed, i):
    return (i * 11 + 0x80 + seed * 17) & 0xff


class Terminal:
    """terminal side of one EL6002 channel, acting on the frame bytes"""

    def __init__(self, data, inpos, outpos, case, bad):
        self.d, self.i, self.o = data, inpos, outpos
        self.bad = bad
        self.li = case["init"]
        self.lat = list(case["lat"])
        self.rx = [tuple(x) for x in case["rx"]]
        self.seed = case["seed"]
        ta0, rr0 = case["tog"]
        self.status(ta=ta0, rr=rr0, ia=0)
        self.state = "idle"        # idle -> init -> ready
        self.initcount = 0
        self.last_tr = self.last_ra = None
        self.pending = None        # [frames left, latched string]
        self.accepted = bytearray()
        self.chunks = []           # lengths of accepted chunks
        self.tr_toggles = 0
        self.announced = bytearray()
        self.rx_next = 0
        self.rx_wait = None        # frames until the next announcement
        self.waiting_ack = False
        self.ra_toggles = 0
        self.both_active = False

    # -- raw access, independent of ebpfcat's descriptors
    def ctrl(self):
        b = self.d[self.o]
        return b & 1, (b >> 1) & 1, (b >> 2) & 1

    def out_string(self):
        n = self.d[self.o + 1]
        return bytes(self.d[self.o + 2:self.o + 2 + min(n, CHUNK)]), n

    def status(self, ta=None, rr=None, ia=None):
        b = self.d[self.i]
        for bit, v in ((0, ta), (1, rr), (2, ia)):
            if v is not None:
                b = (b | (1 << bit)) if v else (b & ~(1 << bit) & 0xff)
        self.d[self.i] = b

    def get_status(self):
        b = self.d[self.i]
        return b & 1, (b >> 1) & 1, (b >> 2) & 1

    def frame(self):
        """one frame passes the terminal"""
        tr, ra, ir = self.ctrl()
        if self.state != "ready":
            if ir:
                self.state = "init"
                self.initcount += 1
                if self.initcount > self.li:
                    self.status(ia=1)
            elif self.state == "init" and self.get_status()[2]:
                self.status(ia=0)
                self.state = "ready"
                self.last_tr, self.last_ra = tr, ra
            if self.state != "ready":
                return
        elif ir:
            self.bad("init requested again after the connection was made",
                     "IR=0", "IR=1")
            return
        # ---- transmit direction (master -> terminal)
        s, n = self.out_string()
        if tr != self.last_tr:
            self.last_tr = tr
            self.tr_toggles += 1
            if self.pending is not None:
                self.bad("transmit request toggled before the previous "
                         "chunk was acknowledged",
                         "TR stable", "TR toggled")
            if n > CHUNK:
                self.bad("out_string length byte exceeds 22", "<= 22", n)
            lat = self.lat[(self.tr_toggles - 1) % len(self.lat)] \
                if self.lat else 0
            self.pending = [lat, s]
        elif self.pending is not None and s != self.pending[1]:
            self.bad("out_string changed between request and acknowledge",
                     self.pending[1].hex(), s.hex())
        if self.pending is not None:
            if self.pending[0] == 0:
                self.accepted += self.pending[1]
                self.chunks.append(len(self.pending[1]))
                self.pending = None
                self.status(ta=1 - self.get_status()[0])
            else:
                self.pending[0] -= 1
        # ---- receive direction (terminal -> master)
        if ra != self.last_ra:
            self.last_ra = ra
            self.ra_toggles += 1
            if not self.waiting_ack:
                self.bad("receive accept toggled without a pending chunk",
                         "RA stable", "RA toggled")
            self.waiting_ack = False
        if not self.waiting_ack and self.rx_next < len(self.rx):
            if self.rx_wait is None:
                self.rx_wait = self.rx[self.rx_next][0]
            if self.rx_wait == 0:
                n = self.rx[self.rx_next][1]
                off = len(self.announced)
                chunk = bytes(term_byte(self.seed, off + j) for j in range(n))
                self.announced += chunk
                self.d[self.i + 1] = n
                self.d[self.i + 2:self.i + 2 + n] = chunk
                self.status(rr=1 - self.get_status()[1])
                self.waiting_ack = True
                self.rx_next += 1
                self.rx_wait = None
                if self.pending is not None:
                    self.both_active = True
            else:
                self.rx_wait -= 1

    def done(self):
        return (self.state == "ready" and self.pending is None
                and not self.waiting_ack and self.rx_next == len(self.rx))


def horizon(case):
    nchunks = sum((n + CHUNK - 1) // CHUNK + 1 for _, n in case["app"])
    h = case["init"] + 4
    h += sum(g for g, _ in case["app"]) + nchunks * (K + 3)
    h += sum(g + 3 for g, _ in case["rx"])
    return 2 * h + 10


def execute(case, trace=None):
    """returns (violations [(what, expected, observed)], stats dict)"""
    viol = []

    def bad(what, expected, observed):
        if not any(v[0] == what for v in viol):
            viol.append((what, expected, observed))

    seed = case["seed"]
    ec = SimpleEtherCat("c28")
    term = EL6002(ec)
    term.position = 5
    term.pdos = {}
    term.pdo_in_sz = term.pdo_out_sz = 48
    chan = term.channel1 if case["chan"] == 1 else term.channel2
    ser = Serial(chan)
    fds = [ser.in_read, ser.in_write, ser.out_read, ser.out_write]
    try:
        sg = SyncGroup(ec, [ser])
        sg.allocate()
        sg.current_data = bytearray(max(46, sg.packet.size))
        base = 0 if case["chan"] == 1 else 24
        inpos = sg.pdo_assign[term][SyncManager.IN] + base
        outpos = sg.pdo_assign[term][SyncManager.OUT] + base
        if abs(inpos - outpos) < 48:
            raise core.Internal("rig: in and out process data overlap")
        tm = Terminal(sg.current_data, inpos, outpos, case, bad)
        written = bytearray()
        delivered = bytearray()
        app = [tuple(x) for x in case["app"]]
        app_next, app_wait = 0, None
        quiet = 0
        cycles = 0
        H = horizon(case)
        for cycle in range(H):
            cycles += 1
            tm.frame()
            # application writes (several writes may fall into one cycle)
            while app_next < len(app):
                if app_wait is None:
                    app_wait = app[app_next][0]
                if app_wait > 0:
                    app_wait -= 1
                    break
                n = app[app_next][1]
                chunk = bytes(app_byte(seed, len(written) + j)
                              for j in range(n))
                if os.write(ser.out_write, chunk) != n:
                    raise core.Internal("short write into the device pipe")
                written += chunk
                app_next += 1
                app_wait = None
            try:
                ser.update()
            except Exception as e:
                bad("Serial.update raised", "no exception", repr(e))
                break
            # the application drains its receive pipe every cycle
            while True:
                try:
                    got = os.read(ser.in_read, 4096)
                except BlockingIOError:
                    break
                if not got:
                    break
                delivered += got
            if trace is not None:
                trace.append((cycle, tm.ctrl(), tm.get_status(), tm.state,
                              len(written), len(tm.accepted),
                              len(tm.announced), len(delivered)))
            exp_deliv = (b"A" if ser.connected else b"") + bytes(tm.announced)
            if not exp_deliv.startswith(bytes(delivered)):
                bad("application received bytes the terminal did not "
                    "announce (duplicate, reordered or foreign)",
                    exp_deliv.hex(), bytes(delivered).hex())
            if not bytes(written).startswith(bytes(tm.accepted)):
                bad("terminal was given bytes the application did not write "
                    "in that order (duplicate, reordered or foreign)",
                    bytes(written).hex(), bytes(tm.accepted).hex())
            if viol:
                break
            if tm.done() and app_next == len(app) \
                    and tm.accepted == written \
                    and bytes(delivered) == b"A" + bytes(tm.announced):
                quiet += 1
                if quiet > QUIET:
                    break
            else:
                quiet = 0
        if not viol:
            if bytes(tm.accepted) != bytes(written):
                bad("bytes written by the application were not presented "
                    "to the terminal within the horizon",
                    bytes(written).hex(), bytes(tm.accepted).hex())
            if bytes(delivered) != b"A" + bytes(tm.announced):
                bad("bytes announced by the terminal were not delivered to "
                    "the application within the horizon",
                    (b"A" + bytes(tm.announced)).hex(),
                    bytes(delivered).hex())
            if tm.tr_toggles != len(tm.chunks):
                bad("transmit request toggles != chunks accepted",
                    len(tm.chunks), tm.tr_toggles)
            if tm.ra_toggles != len(tm.rx) or tm.waiting_ack:
                bad("receive accept toggles != chunks announced",
                    len(tm.rx), tm.ra_toggles)
        stats = dict(cycles=cycles, tx_chunks=list(tm.chunks),
                     rx_chunks=tm.rx_next, both=tm.both_active,
                     tr=tm.tr_toggles, ra=tm.ra_toggles)
        return viol, stats
    finally:
        for fd in fds:
            try:
                os.close(fd)
            except OSError:
                pass


# ------------------------------------------------------------------ families
def scripts(maxn, gaps, lengths):
    out = [()]
    for n in range(1, maxn + 1):
        for combo in itertools.product(
                itertools.product(gaps, lengths), repeat=n):
            out.append(tuple(combo))
    return out


def cases(ctx):
    seed = ctx.seed
    q = ctx.quick
    lat_all = [tuple(p) for p in itertools.product(range(K + 1), repeat=3)]
    lat_few = [(0, 0, 0), (2, 1, 0), (1, 2, 2)]
    rx_busy = ((0, 22), (0, 1), (0, 22))
    inits = [(li, (ta, rr), ch)
             for li in range(K + 1) for ta in (0, 1) for rr in (0, 1)
             for ch in (1, 2)]
    out = []

    def add(fam, app, lat, rx, init):
        li, tog, ch = init
        out.append(dict(fam=fam, app=[list(a) for a in app], lat=list(lat),
                        rx=[list(r) for r in rx], init=li, tog=list(tog),
                        chan=ch, seed=seed))

    # T: transmit direction exhaustive
    if q:
        apps = scripts(2, (0, 1, 2, 3), LENGTHS) + \
            [a for a in scripts(3, (0, 2), (1, 23, 45)) if len(a) == 3]
        lats = [p for p in lat_all if p[0] == p[2]]
    else:
        apps = scripts(3, (0, 1, 2, 3), LENGTHS)
        lats = lat_all
    pairs = [(app, lat) for app in apps
             for lat in (lat_few if q and len(app) == 3 else lats)]
    for n, (app, lat) in enumerate(pairs):
        rxs = [(), rx_busy] if not q else [((), rx_busy)[n % 2]]
        for rx in rxs:
            add("T", app, lat, rx, inits[(n * 5 + 3) % len(inits)])
    # R: receive direction exhaustive
    rxs = scripts(3, range(K + 1), RXLENGTHS)
    apps = [(), ((0, 45),), ((2, 22), (0, 22), (3, 1)), ((0, 1), (1, 23))]
    for rx in rxs:
        for app in (apps[1:3] if q else apps):
            for lat in (lat_few[:2] if q else lat_few):
                for init in ([inits[0], inits[15], inits[18], inits[21]]
                             if q else inits):
                    add("R", app, lat, rx, init)
    # X: both directions at once
    apps = scripts(1 if q else 2, (0, 1, 2), LENGTHS)
    rxs = scripts(2, range(K + 1), RXLENGTHS)
    lats = lat_few if q else [tuple(p) + (p[0],) for p in
                              itertools.product(range(K + 1), repeat=2)]
    for n, (app, rx, lat) in enumerate(itertools.product(apps, rxs, lats)):
        add("X", app, lat, rx, inits[(n * 7 + 1) % len(inits)])
    return out


def work(case, res):
    viol, stats = execute(case)
    res.count("evaluations")
    res.count("traces_validated_against_impl")
    res.count("transitions", stats["cycles"])
    if stats["tx_chunks"] or stats["rx_chunks"]:
        res.nontrivial.add(core.digest(case))
    res.outcomes.add((len(stats["tx_chunks"]), stats["rx_chunks"],
                      stats["both"], bool(viol)))
    for what, exp, obs in viol:
        res.violation(case, exp, obs, sig=core.digest([what]), note=what)


def selftest():
    """the terminal model and the monitors against a scripted ideal master"""
    # a master that re-sends: the monitor must notice
    data = bytearray(96)
    seen = []
    case = dict(init=0, lat=[1], rx=[], seed=0, tog=[0, 0])
    tm = Terminal(data, 0, 48, case, lambda *a: seen.append(a[0]))
    data[48] = 4
    tm.frame()
    if tm.get_status()[2] != 1:
        raise core.Internal("terminal model: no init accept")
    data[48] = 0
    tm.frame()
    if tm.state != "ready" or tm.get_status()[2] != 0:
        raise core.Internal("terminal model: init not finished")
    data[49:52] = b"\x02hi"
    data[48] = 1
    tm.frame()
    if tm.get_status()[0] != 0 or seen:
        raise core.Internal("terminal model: accepted too early")
    data[50] = 0x55
    tm.frame()
    if not any("changed between" in s for s in seen):
        raise core.Internal("monitor: unstable out_string not noticed")
    if tm.get_status()[0] != 1 or bytes(tm.accepted) != b"hi":
        raise core.Internal("terminal model: chunk not accepted")
    data[48] = 3
    tm.frame()
    if not any("without a pending" in s for s in seen):
        raise core.Internal("monitor: spurious receive accept not noticed")


def run(ctx):
    selftest()
    items = cases(ctx)
    # determinism and fd hygiene: the first executions twice
    nfd = len(os.listdir("/proc/self/fd"))
    for c in items[:20] + items[-20:]:
        if execute(c) != execute(c):
            raise core.Internal("execution is not deterministic")
    if len(os.listdir("/proc/self/fd")) != nfd:
        raise core.Internal("file descriptors leak")
    res = core.pmap(ctx, work, items)
    fam = {}
    for c in items:
        fam[c["fam"]] = fam.get(c["fam"], 0) + 1
    res.cov["states"] = len(res.nontrivial)
    res.cov["alphabet"] = dict(
        families=fam, k=K, app_lengths=LENGTHS, rx_lengths=RXLENGTHS,
        app_gaps=[0, 1, 2, 3], rx_gaps=list(range(K + 1)),
        init_latency=list(range(K + 1)), initial_toggle_bits=4, channels=2)
    res.cov["bound_completed"] = "all scripts of families T, R, X"
    for c in (items[1], items[len(items) // 2], items[-1]):
        res.sample(c)
    res.assumptions += [
        "terminal model: data exchange is enabled in the frame in which the "
        "terminal sees IR=0 after IA=1; it latches out_string in the frame "
        "that shows the TR toggle and requires it unchanged in every frame "
        "up to and including the one in which it toggles TA",
        "'exactly once, in order' is judged on the byte stream: writes that "
        "reach the device together may be presented as one chunk; a chunk "
        "is whatever one TR toggle announces (1..22 bytes)",
        "'presented' / 'delivered' is judged at a horizon of at least twice "
        "the cycles a handshake with the maximal latencies needs",
        "the terminal announces a chunk only after the previous one has "
        "been acknowledged and never during initialisation; the application "
        "drains its pipe every cycle",
        "payload bytes are position-coded (seed changes the coding); the "
        "device never looks at payload values",
    ]
    return res


def replay(ctx, rep):
    case = rep["case"]
    trace = []
    viol, stats = execute(case, trace)
    print("  cycle ctrl(TR,RA,IR) status(TA,RR,IA) state written accepted "
          "announced delivered")
    for t in trace:
        print("  %5d %-14s %-16s %-6s %7d %8d %9d %9d" % t)
    print("  ", stats)
    res = core.Result()
    for what, exp, obs in viol:
        res.violation(case, exp, obs, note=what)
    return res.violations
