"""C18 - sync groups give each terminal disjoint, exactly-sized process data.

All terminal sets up to a bounded count over (input size, output size,
read-write, FMMU/direct) kinds go through the real SyncGroupBase.allocate /
EBPFTerminal.allocate / SterilePacket.append_fmmu; the assembled cyclic frame
is parsed independently, the real map_fmmu() register writes are executed
against the ESC models and the frame is pushed through the bus model with
position-coded inputs.
"""
import asyncio
import contextlib
import itertools
import os
import shutil
import struct
import tempfile
import types

from mc import bussim, core, ecparse, ecworld, seams

import ebpfcat.ethercat as ecmod
import ebpfcat.lock as lock_mod
from ebpfcat.ebpfcat import (
    Device, ParallelEtherCat, SyncGroup, SyncManager)
from ebpfcat.terminals import AerotechBase

PROP = "C18"
LEVEL = "model_checking"
RULE = ("all sequences of <= N terminals over the kind alphabet (input size x "
        "output size x read-write x FMMU/direct), plus large single "
        "terminals, an Aerotech-style terminal and 1-3 sync groups on one "
        "master, and terminals shared by a writing and a reading device; "
        "non-trivial = the group was accepted and has at least one "
        "region; distinct = distinct terminal sequence")

IN, OUT = SyncManager.IN, SyncManager.OUT
SIZES = [0, 1, 7, 700]
MAX = 1500


class Dev(Device):
    def __init__(self, spec):
        self.spec = spec

    def get_terminals(self):
        return dict(self.spec)


class NoEndpoint:
    """stands in for the event loop while connect() runs: no socket"""

    async def create_datagram_endpoint(self, factory, **kw):
        return None, None


class Aero(AerotechBase):
    in_size = 8
    out_size = 6


class AeroIn0(AerotechBase):
    """declares that it transfers no input bytes (its PDO is not empty)"""
    in_size = 0
    out_size = 6


class AeroOut0(AerotechBase):
    in_size = 8
    out_size = 0


AEROS = {"aero": Aero, "aero-in0": AeroIn0, "aero-out0": AeroOut0}


def kinds(ctx):
    return [(i, o, rw, f) for i in SIZES for o in SIZES
            for rw in (False, True) for f in (True, False)]


def required(seq):
    """independent model of the frame: list of datagrams
    (kind, length, [(terminal, sm, size)])"""
    dgs = []
    fin, fout = [], []
    for n, (i, o, rw, f, *aero) in enumerate(seq):
        if aero:
            cls = AEROS[aero[0]]
            if i:
                if cls.in_size:
                    fin.append((n, IN, cls.in_size))
                dgs.append(("trigger", 1, []))
            if rw and o:
                dgs.append(("FPWR", cls.out_size,
                            [(n, OUT, cls.out_size)] if cls.out_size else []))
                dgs.append(("trigger", 1, []))
        elif f:
            if i:
                fin.append((n, IN, i))
            if rw and o:
                fout.append((n, OUT, o))
        else:
            if i:
                dgs.append(("FPRD", i, [(n, IN, i)]))
            if rw and o:
                dgs.append(("FPWR", o, [(n, OUT, o)]))
    if fin:
        dgs.append(("LRD", sum(s for _, _, s in fin), fin))
    if fout:
        dgs.append(("LWR", sum(s for _, _, s in fout), fout))
    return dgs


def run_case(case, res):
    seq, ngroups, *rest = case
    split = rest[0] if rest else 0
    master = rest[1] if len(rest) > 1 else "simple"
    res.count("evaluations")
    jcase = dict(seq=seq, groups=ngroups, split=split)
    if master != "simple":
        jcase["master"] = master

    def bad(exp, seen, what, sig=None):
        res.violation(jcase, exp, seen, sig=core.digest([sig or what]),
                      note=what)
    model_dgs = required(seq)
    size = 16 + sum(12 + ln for _, ln, _ in model_dgs)
    must_reject = size > MAX or len(model_dgs) > 15
    w = ecworld.World()
    tmpdir = None
    stack = contextlib.ExitStack()
    try:
        if master == "fmmulock":
            # the logical windows of a master that shares its interface with
            # other processes: the real FMMULock on a private file (its
            # random process slot is the harness's)
            tmpdir = tempfile.mkdtemp(prefix="c18-")
            stack.enter_context(seams.own_random(
                [lock_mod], dict(randrange=lambda a, b=None: 0x5d)))
            w.ec.fmmu_lock_file = lock_mod.FMMULock(tmpdir + "/fmmu")
            w.ec.get_fmmu_addr = types.MethodType(
                ParallelEtherCat.get_fmmu_addr, w.ec)
        windows = []
        for g in range(ngroups):
            if master == "reconnect" and g:
                # the master connects again (FastEtherCat.run and
                # ParallelEtherCat.run call connect() on an object that was
                # connected before; a lost link): groups allocated before
                # stay alive
                saved = ecmod.get_event_loop
                ecmod.get_event_loop = lambda: NoEndpoint()
                try:
                    fut = asyncio.ensure_future(w.ec.connect())
                    w.loop.run_until_idle()
                    if not fut.done() or fut.exception():
                        raise core.Internal("connect() did not complete: %r"
                                            % fut)
                finally:
                    ecmod.get_event_loop = saved
                w.master.sendtask.cancel()
                w.master.sendtask = asyncio.ensure_future(w.ec.sendloop())
            terms = []
            for n, (i, o, rw, f, *aero) in enumerate(seq):
                t = w.add_terminal(i if not aero else 100, o if not aero
                                   else 100, use_fmmu=f,
                                   cls=AEROS[aero[0]] if aero
                                   else ecworld.EBPFTerminal,
                                   station=100 + n + 50 * g)
                terms.append(t)
            dev = Dev({t: s[2] for t, s in zip(terms, seq)})
            devs = [dev]
            if split:
                # a second device that only reads the same terminals: a
                # terminal is written if ANY device writes it
                reader = Dev({t: False for t in terms})
                devs = [dev, reader] if split == 1 else [reader, dev]
            sg = SyncGroup(w.ec, devs)
            try:
                sg.allocate()
            except Exception as e:
                res.outcomes.add(("rejected", type(e).__name__))
                if not must_reject:
                    bad("accepted (frame needs %d bytes, %d datagrams)"
                        % (size, len(model_dgs)), repr(e)[:80],
                        "fitting group rejected")
                return
            if must_reject:
                bad("rejected (frame needs %d bytes, %d datagrams)"
                    % (size, len(model_dgs)), "accepted",
                    "oversize group accepted")
                return
            if not model_dgs:
                # nothing to transport: no regions to judge (the frame then
                # consists of the identification datagram only)
                res.outcomes.add("empty group")
                return
            frame = sg.packet.assemble(1000 + g)
            if len(frame) > MAX:
                bad("<= 1500", len(frame), "frame too large")
                return
            try:
                _, dgs = ecparse.parse(frame)
            except ecparse.ParseError as e:
                bad("well-formed frame", str(e), "cyclic frame malformed")
                return
            dgs = dgs[1:]
            # --- every region: inside the transporting datagram, exact size
            regions = []
            for n, (t, s) in enumerate(zip(terms, seq)):
                i, o, rw, f, *aero = s
                want = {}
                empty = set()       # declared regions of size 0
                if aero:
                    cls = AEROS[aero[0]]
                    if i:
                        want[IN] = cls.in_size
                    if rw and o:
                        want[OUT] = cls.out_size
                    empty = {sm for sm, sz in want.items() if not sz}
                    want = {sm: sz for sm, sz in want.items() if sz}
                else:
                    if i:
                        want[IN] = i
                    if rw and o:
                        want[OUT] = o
                got = sg.pdo_assign.get(t, {})
                if set(got) - empty != set(want):
                    bad(sorted(k.name for k in want),
                        sorted(k.name for k in got),
                        "terminal has no / a superfluous region")
                    return
                for sm, sz in want.items():
                    start = got[sm]
                    host = [d for d in dgs
                            if d.data_pos <= start and
                            start + sz <= d.data_pos + d.length]
                    if len(host) != 1:
                        bad("region inside one datagram",
                            dict(start=start, size=sz,
                                 datagrams=[(d.data_pos, d.length)
                                            for d in dgs]),
                            "region not inside a datagram")
                        return
                    d = host[0]
                    direct = not f or (aero and sm is OUT)
                    if direct:
                        okcmd = d.cmd == (4 if sm is IN else 5) and \
                            d.adp == t.position and \
                            d.ado == (t.pdo_in_off if sm is IN
                                      else t.pdo_out_off) and \
                            (d.data_pos, d.length) == (start, sz)
                    else:
                        okcmd = d.cmd == (10 if sm is IN else 11)
                    if not okcmd:
                        bad("datagram that transports the region",
                            repr(d), "region in the wrong datagram")
                        return
                    regions.append((start, start + sz, n, sm, d))
            regions.sort(key=lambda r: r[:2])
            for a, b in zip(regions, regions[1:]):
                if a[1] > b[0]:
                    bad("disjoint regions", (a[:4], b[:4]), "regions overlap")
                    return
            # logical datagrams are tiled exactly by their regions
            for d in dgs:
                if d.cmd in (10, 11):
                    inside = [r for r in regions if r[4] is d]
                    if sum(r[1] - r[0] for r in inside) != d.length:
                        bad("logical datagram exactly as long as its regions",
                            (d.length, [(r[0], r[1]) for r in inside]),
                            "logical datagram not tiled by regions")
                    windows.append((g, d.addr, d.addr + d.length, d.cmd))
            # --- FMMU: logical address of each terminal maps to its region
            for start, stop, n, sm, d in regions:
                t = terms[n]
                if d.cmd not in (10, 11):
                    continue
                logical = sg.fmmu_maps.get(t, {}).get(sm)
                if logical is None or logical - d.addr != start - d.data_pos:
                    bad("logical address %#x + %d" % (d.addr,
                                                      start - d.data_pos),
                        logical, "configured logical address does not map to "
                        "the terminal's region")
                    return
            if regions:
                res.nontrivial.add(core.digest([seq, g]))
            # --- end to end through the real map_fmmu() and the bus model
            if not any(s[4:] for s in seq):
                cm = sg.map_fmmu()
                fut = asyncio.ensure_future(cm.__aenter__())
                if not w.run(fut, max_frames=200) or fut.exception():
                    bad("FMMU mapping succeeds",
                        repr(fut.exception()) if fut.done() else "hang",
                        "map_fmmu failed")
                    return
                for n, t in enumerate(terms):
                    pat = bytes(((n + 1) * 37 + k * 3 + 1) & 0xff
                                for k in range(t.pdo_in_sz))
                    t.model.mem[ecworld.IN_OFF:ecworld.IN_OFF + len(pat)] = pat
                out = bytearray(frame)
                for start, stop, n, sm, d in regions:
                    if sm is OUT:
                        out[start:stop] = bytes(
                            ((n + 1) * 91 + k * 5 + 2) & 0xff
                            for k in range(stop - start))
                back = w.bus.process(bytes(out))
                res.count("transitions")
                for start, stop, n, sm, d in regions:
                    t = terms[n]
                    if sm is IN:
                        exp = bytes(t.model.mem[ecworld.IN_OFF:
                                                ecworld.IN_OFF + stop - start])
                        if back[start:stop] != exp:
                            bad(exp.hex()[:40], back[start:stop].hex()[:40],
                                "inputs of a terminal do not arrive in its "
                                "region")
                            return
                    else:
                        exp = bytes(out[start:stop])
                        got = bytes(t.model.mem[ecworld.OUT_OFF:
                                                ecworld.OUT_OFF + stop - start])
                        if got != exp:
                            bad(exp.hex()[:40], got.hex()[:40],
                                "outputs in a terminal's region do not reach "
                                "the terminal")
                            return
                fut = asyncio.ensure_future(cm.__aexit__(None, None, None))
                w.run(fut, max_frames=200)
        # --- logical windows of different groups never overlap
        for a, b in itertools.combinations(windows, 2):
            if a[1] < b[2] and b[1] < a[2] and (a[0] != b[0]
                                                 or a[3] != b[3]):
                bad("disjoint logical windows", (a, b),
                    "logical address windows overlap")
                return
        res.outcomes.add(("accepted", len(model_dgs)))
    finally:
        stack.close()
        if tmpdir:
            try:
                os.close(w.ec.fmmu_lock_file.fd)
            except Exception:
                pass
            shutil.rmtree(tmpdir, ignore_errors=True)
        w.close()


def cases(ctx):
    ks = kinds(ctx)
    out = []
    for n in (1, 2) if ctx.quick else (1, 2, 3):
        for seq in itertools.product(ks, repeat=n):
            out.append((seq, 1))
            if n <= 2 and any(k[2] and k[1] for k in seq) and \
                    (not ctx.quick or n == 1 or seq[0][:2] == seq[1][:2]):
                out.append((seq, 1, 1))
                out.append((seq, 1, 2))
    # large single terminals
    for sz in (2, 200, 1400, 1471, 1472, 1473, 1474, 1475):
        for rw in (False, True):
            for f in (True, False):
                out.append((((sz, 0, rw, f),), 1))
                out.append((((0, sz, rw, f),), 1))
                out.append((((sz, sz, rw, f),), 1))
    # exactly fitting / just too large
    for total in (1460, 1461):
        a = 16 + 12     # header + one LRD
        out.append((((total, 0, False, True),), 1))
        out.append((((total // 2, total - total // 2 - 12, True, True),), 1))
    # 4-element sequences over sizes {0, 2}
    small = [(i, o, rw, f) for i in (0, 2) for o in (0, 2)
             for rw in (False, True) for f in (True, False)]
    for seq in itertools.product(small, repeat=4):
        if ctx.quick and hash(seq) % 8 != ctx.seed % 8:
            continue
        out.append((seq, 1))
    # many direct terminals: the datagram count limit
    for n in (7, 8, 15, 16):
        out.append((((2, 2, True, False),) * n, 1))
        out.append((((2, 0, False, False),) * n, 1))
    # Aerotech-style terminal, alone and behind others
    for rw in (False, True):
        out.append((((100, 100, rw, True, "aero"),), 1))
        out.append((((7, 7, True, True), (100, 100, rw, True, "aero")), 1))
        out.append((((7, 7, True, False), (100, 100, rw, True, "aero")), 1))
        for a0 in ("aero-in0", "aero-out0"):
            out.append((((100, 100, rw, True, a0),), 1))
            out.append((((100, 100, rw, True, a0), (7, 7, True, True)), 1))
            out.append((((7, 7, True, True), (100, 100, rw, True, a0)), 1))
    out.append((((500, 500, True, True, "aero-in0"),
                 (900, 0, False, True)), 1))
    # several groups on one master
    for seq in itertools.product(ks[::5], repeat=2):
        out.append((seq, 2))
        if not ctx.quick:
            out.append((seq, 3))
    out.append((((700, 700, True, True),), 3))
    # the same with the windows handed out by a real FMMULock (a master
    # sharing its interface), up to four groups
    for seq in itertools.product(ks[::5], repeat=2):
        for ng in (2, 3, 4) if not ctx.quick else (3,):
            out.append((seq, ng, 0, "fmmulock"))
    for seq in itertools.product(ks[::5], repeat=2):
        out.append((seq, 2, 0, "reconnect"))
    out.append((((7, 7, True, True),), 3, 0, "reconnect"))
    for ng in (2, 3, 4):
        out.append((((700, 700, True, True),), ng, 0, "fmmulock"))
        out.append((((1100, 0, False, True), (0, 300, True, True)), ng, 0,
                    "fmmulock"))
        out.append((((0, 6, True, True),), ng, 0, "fmmulock"))
        out.append((((6, 6, True, True),), ng, 0, "fmmulock"))
    return out


def run(ctx):
    items = cases(ctx)
    res = core.pmap(ctx, run_case, items)
    res.cov["states"] = len(res.nontrivial)
    res.cov["traces_validated_against_impl"] = res.cov.get("evaluations", 0)
    res.cov["kinds"] = len(kinds(ctx))
    res.sample(dict(seq=[[7, 700, True, True], [1, 0, False, False]],
                    meaning="(inputs, outputs, read-write, FMMU) per terminal"))
    res.assumptions += [
        "a group must be rejected exactly when the frame it needs (16 + sum "
        "of 12 + length per datagram) exceeds 1500 bytes or needs more than "
        "15 datagrams",
        "hash(seq) is deterministic for tuples of ints/bools "
        "(PYTHONHASHSEED=0 is set by the runner anyway)",
        "the Aerotech-style terminal's FMMU window (its full PDO) is not "
        "pushed through the bus model; only its frame regions are checked"]
    return res


def replay(ctx, rep):
    res = core.Result()
    c = rep["case"]
    seq = tuple(tuple(s) for s in c["seq"])
    run_case((seq, c["groups"], c.get("split", 0),
              c.get("master", "simple")), res)
    return res.violations
