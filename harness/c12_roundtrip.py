"""C12 - every datagram request gets exactly its own response.

The real EtherCat.sendloop / process_packet / roundtrip_packet / roundtrip /
datagram_received run on the virtual loop against a fake transport.  The
explorer enumerates, within a deviation bound, when requests are submitted,
which request is cancelled when, frame delivery order / loss / duplication,
per-datagram working counters 0/1 and colliding frame indices.

A request is either raw data of a given size, or "shaped": format arguments
with values, optionally a trailing read-only format, optionally trailing data
given as bytes or as a count of zeros - in particular EMPTY trailing data
(data=b"", data=0), alone and combined with formats.  The bytes expected on
the wire and the value a request must complete with (the response bytes at
its own datagram position, decoded with its own formats) come from a
reference written from roundtrip's docstring.
"""
import asyncio
import itertools
import struct

from mc import core, ecparse, explore, seams, stallguard, vloop
from mc.stallguard import Stall

import ebpfcat.ethercat as ecmod
from ebpfcat.ethercat import ECCmd, EtherCat, EtherCatError

PROP = "C12"
LEVEL = "model_checking"
RULE = ("workloads (1-3 requests; raw payload sizes from the alphabet, or "
        "shaped requests: formats with values / trailing read-only format / "
        "trailing data as bytes or count, including empty; how many are "
        "submitted up front, cancellation allowed or not) x all "
        "executions with at most B deviations from the default environment "
        "(early/late submission, cancellation, frame loss/duplication/"
        "overtaking, working counter 0, index collision); non-trivial = at "
        "least one frame was sent; distinct = distinct (workload, choices); "
        "plus long histories on one master object: N requests one after the "
        "other, every subset of their frames lost / of their datagrams not "
        "processed; plus bursts of B+1 concurrent tasks of which one (every "
        "position) calls roundtrip 1-3 loop iterations after the others")

SIZES = [2, 700, 1400, 1472, 1473]
KF_STALL = "C12-oversize-request-stalls-sendloop"
KF_INVALID = "C12-cancelled-request-wkc0-poisons-frame"


def payload(j, n):
    return bytes(((j + 1) * 53 + i * 7 + 1) & 0xff for i in range(n))


def response(data):
    return bytes(b ^ 0xA5 for b in data)


# ------------------------------------------------------------ shaped requests
# a request spec is an int n (data=payload of n bytes, nothing else) or a pair
# (head, tail): head names the format arguments, tail is None (no data=),
# an int (data=count of zeros) or ("b", n) (data=n bytes)
HEADS = {
    "-": lambda j: [],
    "H": lambda j: [("H", (0x1200 + j,))],
    "HB": lambda j: [("HB", (0x3400 + j, 0x50 + j))],
    "H+I": lambda j: [("H", (0x7700 + j,)), ("I", None)],   # I is read-only
    "+I": lambda j: [("I", None)],
}
TAILS = [None] + [("b", n) for n in range(9)] + list(range(9))
SHAPES = [(h, t) for h in HEADS for t in TAILS if (h, t) != ("-", None)]
EMPTY_TAIL = [(h, t) for h, t in SHAPES if t in (("b", 0), 0)]
PAIR_SHAPES = EMPTY_TAIL + [("HB", ("b", 5)), ("H+I", None), ("-", 3)]


class Request:
    """reference for one request: call arguments, the bytes it must put on
    the wire, and the values it may complete with for given response bytes"""

    def __init__(self, j, spec):
        self.args = []
        self.fields = []
        if isinstance(spec, int):
            head, tail = [], ("b", spec)
        else:
            head, tail = HEADS[spec[0]](j), spec[1]
        wire = b""
        for fmt, vals in head:
            self.args.append(fmt)
            self.fields.append((fmt, len(wire)))
            if vals is None:
                wire += bytes(struct.calcsize("<" + fmt))
            else:
                self.args.extend(vals)
                wire += struct.pack("<" + fmt, *vals)
        self.fmt_len = len(wire)
        self.tail = tail
        if tail is None:
            self.data = None
        elif isinstance(tail, int):
            self.data = tail
            wire += bytes(tail)
        else:
            self.data = payload(j, tail[1])
            wire += self.data
        self.wire = wire

    def accept(self, resp):
        out = ()
        for fmt, off in self.fields:
            out += struct.unpack_from("<" + fmt, resp, off)
        if self.tail is None:
            return [out]
        if self.fields:
            return [out + (resp[self.fmt_len:],)]
        return [resp]


def norm_spec(spec):
    if isinstance(spec, int):
        return spec
    head, tail = spec
    return (head, tuple(tail) if isinstance(tail, (list, tuple)) else tail)


def canon(value):
    """a request's result in comparable form"""
    if isinstance(value, tuple):
        return tuple(bytes(v) if isinstance(v, (bytes, bytearray, memoryview))
                     else v for v in value)
    return bytes(value)


def same(value, ref):
    if type(value) is not type(ref):
        return False
    if isinstance(ref, tuple):
        return len(value) == len(ref) and all(
            type(a) is type(b) and a == b for a, b in zip(value, ref))
    return value == ref


class Transport:
    def __init__(self):
        self.sent = []          # every frame handed to the transport
        self.inflight = []      # (frame_no, bytes)
        self.lost = []
        self.burst = 0

    def sendto(self, data, addr):
        self.burst += 1
        if self.burst > 64:
            raise Stall("more than 64 frames sent within one loop iteration")
        self.sent.append(bytes(data))
        no = len(self.sent) - 1
        fate = self.ch.choose(3, "fate") if self.burst <= 3 else 0
        if fate == 1:
            self.lost.append(no)
            return
        self.inflight.append((no, bytes(data)))
        if fate == 2:
            self.inflight.append((no, bytes(data)))


def execute(ch, workload):
    """one execution -> observation dict"""
    sizes, n_initial, may_cancel = workload[:3]
    # (position, delay): that task calls roundtrip `delay` loop iterations
    # after it was started
    late = dict([workload[3]]) if len(workload) > 3 else None
    reqs = [Request(j, s) for j, s in enumerate(sizes)]
    loop = vloop.VLoop()
    obs = dict(stall=None, frames=[], outcomes={}, errors=[], delivered=[],
               log=[])
    if late is not None:
        obs["called"] = []
    tp = Transport()
    tp.ch = ch
    guard = execute.guard
    if guard is None:
        guard = execute.guard = stallguard.StallGuard(
            [EtherCat.sendloop, EtherCat.process_packet], budget=20000)
    with loop:
        ec = EtherCat("sim")
        ec.send_queue = asyncio.Queue()
        ec.transport = tp

        fresh = itertools.count(2000)

        handed = []

        def candidates():
            """indices whose re-use is a deviation: those in flight right
            now (the code must retry) and those handed out earlier in this
            execution that are free again and of which no copy is left on
            the wire (legal, the code must cope)"""
            on_wire = {struct.unpack_from("<I", f, 4)[0]
                       for _, f in tp.inflight if len(f) >= 8}
            inflight = sorted(ec.wait_futures)
            free = [i for i in handed
                    if i not in ec.wait_futures and i not in on_wire]
            out = []
            for i in inflight + free[-2:]:
                if i not in out:
                    out.append(i)
            return out

        def randint(a, b):
            # default: an index never used before in this execution (a
            # duplicate of an old frame must not alias a new one: with the
            # real 10^9 range that has negligible probability)
            used = candidates()
            c = ch.choose(1 + len(used), "index")
            v = used[c - 1] if c else next(fresh)
            if v not in handed:
                handed.append(v)
            return v

        def randrange(start, stop=None, step=1):
            # the same policy for any other way to draw an index
            if stop is None:
                start, stop = 0, start
            used = [i for i in candidates()
                    if i in range(start, stop, step)]
            c = ch.choose(1 + len(used), "index")
            if c:
                return used[c - 1]
            v = next(fresh)
            return v if v in range(start, stop, step) else start
        owned = seams.own_random([ecmod], dict(randint=randint,
                                               randrange=randrange))
        owned.__enter__()
        saved_ef = ecmod.ensure_future

        def counting_ensure_future(coro):
            tp.burst += 1
            if tp.burst > 64:
                coro.close()
                raise Stall("more than 64 tasks spawned within one loop "
                            "iteration")
            return saved_ef(coro)
        ecmod.ensure_future = counting_ensure_future
        try:
            sendtask = asyncio.ensure_future(ec.sendloop())
            tasks = {}
            pending = list(range(len(sizes)))

            async def calls_later(j, delay):
                for _ in range(delay):
                    await asyncio.sleep(0)
                obs["called"].append(j)
                return await ec.roundtrip(
                    ECCmd.FPRD, 1000 + j, 0x100 + j, *reqs[j].args,
                    data=reqs[j].data)

            def submit():
                j = pending.pop(0)
                if late is not None:
                    tasks[j] = asyncio.ensure_future(
                        calls_later(j, late.get(j, 0)))
                else:
                    tasks[j] = asyncio.ensure_future(ec.roundtrip(
                        ECCmd.FPRD, 1000 + j, 0x100 + j, *reqs[j].args,
                        data=reqs[j].data))
                obs["log"].append(("submit", j))
            for _ in range(n_initial):
                submit()
            cancelled = set()
            steps = 0
            while True:
                steps += 1
                if steps > 400:
                    obs["stall"] = "driver horizon exceeded"
                    break
                ready = loop.has_ready()
                evs = []
                for i in range(len(tp.inflight)):
                    evs.append(("deliver", i))
                if pending:
                    evs.append(("submit",))
                if may_cancel:
                    for j, t in sorted(tasks.items()):
                        if not t.done() and j not in cancelled:
                            evs.append(("cancel", j))
                if ready:
                    opts = [("run",)] + evs
                else:
                    if pending:
                        first = ("submit",)
                    elif tp.inflight:
                        first = ("deliver", 0)
                    else:
                        break
                    opts = [first] + [e for e in evs if e != first]
                ev = opts[ch.choose(len(opts), "event")]
                tp.burst = 0
                guard.reset()
                if ev[0] == "run":
                    try:
                        loop.run_once()
                    except Stall as e:
                        obs["stall"] = str(e)
                        break
                elif ev[0] == "submit":
                    submit()
                elif ev[0] == "cancel":
                    cancelled.add(ev[1])
                    tasks[ev[1]].cancel()
                    obs["log"].append(ev)
                else:
                    no, frame = tp.inflight.pop(ev[1])
                    try:
                        _, dgs = ecparse.parse(frame)
                    except ecparse.ParseError:
                        dgs = []
                    out = bytearray(frame)
                    wkcs = []
                    for d in dgs[1:]:
                        w = 1 - ch.choose(2, "wkc")
                        wkcs.append(w)
                        out[d.data_pos:d.wkc_pos] = response(d.data)
                        out[d.wkc_pos:d.wkc_pos + 2] = bytes((w, 0))
                    obs["delivered"].append((no, tuple(wkcs)))
                    obs["log"].append((ev[0], no, tuple(wkcs)))
                    loop.call_soon(ec.datagram_received, bytes(out), None)
            obs["frames"] = list(tp.sent)
            obs["lost"] = list(tp.lost)
            for j in range(len(sizes)):
                t = tasks.get(j)
                if t is None:
                    obs["outcomes"][j] = ("not submitted",)
                elif not t.done():
                    obs["outcomes"][j] = ("pending",)
                elif t.cancelled():
                    obs["outcomes"][j] = ("cancelled",)
                elif t.exception() is not None:
                    obs["outcomes"][j] = ("error", type(t.exception()).__name__)
                else:
                    obs["outcomes"][j] = ("result", canon(t.result()))
            obs["cancelled"] = sorted(cancelled)
            if sendtask.done() and not sendtask.cancelled():
                obs["errors"].append("sendloop ended: %r"
                                     % (sendtask.exception(),))
            for t in asyncio.all_tasks(loop):
                if t.done() and not t.cancelled() and t is not sendtask \
                        and t not in tasks.values() and t.exception():
                    obs["errors"].append("internal task failed: %s"
                                         % type(t.exception()).__name__)
            for ctx_ in loop.errors:
                obs["errors"].append("loop error: " + str(
                    ctx_.get("message"))[:60] + " "
                    + type(ctx_.get("exception")).__name__)
        finally:
            owned.__exit__(None, None, None)
            ecmod.ensure_future = saved_ef
            loop.shutdown()
    return obs


execute.guard = None


def judge(workload, ch, obs, res):
    sizes, n_initial, may_cancel = workload[:3]
    case = dict(workload=workload, choices=list(ch.choices))

    def bad(expected, observed, what, kf=None):
        res.violation(case, expected, observed, kf=kf,
                      sig=core.digest([what, str(kf)]), note=what)

    reqs = [Request(j, s) for j, s in enumerate(sizes)]
    oversize = [j for j, r in enumerate(reqs) if len(r.wire) > 1472]
    if obs["stall"]:
        kf = KF_STALL if oversize and "within one loop" in obs["stall"] \
            and "tasks spawned" in obs["stall"] else None
        bad("no stall", obs["stall"], "master stalls", kf)
        return
    # --- what went onto the wire
    wire = []        # (frame_no, pos_in_frame, datagram)
    for no, f in enumerate(obs["frames"]):
        try:
            _, dgs = ecparse.parse(f)
        except ecparse.ParseError as e:
            if len(f) >= 2 and oversize:
                # an empty frame sent while an oversize request is queued:
                # part of the stall defect's footprint
                bad("well-formed frame", str(e), "malformed frame on the wire",
                    KF_STALL)
            else:
                bad("well-formed frame", str(e), "malformed frame on the wire")
            return
        for k, d in enumerate(dgs[1:]):
            wire.append((no, k, d))
    sent_order = []
    where = {}
    for no, k, d in wire:
        j = d.adp - 1000
        if not 0 <= j < len(reqs) or d.cmd != 4 or d.ado != 0x100 + j:
            bad("only submitted datagrams", repr(d), "foreign datagram sent")
            return
        if d.data != reqs[j].wire:
            bad(reqs[j].wire.hex()[:80], d.data.hex()[:80],
                "datagram does not carry the request's bytes")
            return
        sent_order.append(j)
        where.setdefault(j, []).append((no, k))
    for j, places in where.items():
        if len(places) > 1:
            bad("sent once", places, "request sent more than once")
            return
    if "called" in obs:
        # submission = the moment roundtrip was called
        want = [j for j in obs["called"] if j in where]
        if sent_order != want:
            bad(want, sent_order, "datagrams sent out of order")
    elif sent_order != sorted(sent_order):
        bad("submission order", sent_order, "datagrams sent out of order")
    first_delivery = {}
    for no, wk in obs["delivered"]:
        first_delivery.setdefault(no, wk)
    # --- outcome of every request is a function of its own datagram only
    for j, req in enumerate(reqs):
        out = obs["outcomes"][j]
        if out[0] == "not submitted":
            continue
        if j in obs["cancelled"] and out[0] == "cancelled":
            continue
        if len(req.wire) > 1472:
            # can never fit: must fail (any exception), not stall / pend
            if out[0] != "error":
                bad("an error", out, "oversize request does not fail",
                    KF_STALL)
            continue
        if j not in where:
            # never sent: only acceptable if cancelled before sending
            if j in obs["cancelled"]:
                exp = ("cancelled",)
            else:
                exp = ("sent",)
            if out != exp:
                bad(exp, out, "request neither sent nor cancelled",
                    KF_STALL if oversize else None)
            continue
        no, k = where[j][0]
        accept = None
        if no not in first_delivery:
            exp = ("pending",)
        elif first_delivery[no][k]:
            accept = req.accept(response(req.wire))
            exp = ("result", accept[0])
        else:
            exp = ("error", "EtherCatError")
        if accept is None:
            matches = out == exp
        else:
            matches = out[0] == "result" and any(same(out[1], a)
                                                 for a in accept)
        if j in obs["cancelled"] and out[0] == "cancelled":
            continue
        if j in obs["cancelled"] and matches:
            continue    # completed before the cancellation took effect
        if not matches:
            kf = None
            if out == ("error", "InvalidStateError") and no in first_delivery:
                wk = first_delivery[no]
                poison = [jj for jj in obs["cancelled"] if jj in where
                          and where[jj][0][0] == no
                          and not wk[where[jj][0][1]]
                          and where[jj][0][1] < k]
                if poison:
                    kf = KF_INVALID
            bad(exp, out, "request outcome differs from its own datagram's",
                kf)
    for e in obs["errors"]:
        kf = None
        if "InvalidStateError" in e and obs["cancelled"]:
            kf = KF_INVALID
        bad("no error escapes the send/receive machinery", e,
            "exception escaped: " + e.split(":")[0], kf)


def workloads(ctx):
    """-> [(workload, bound)]"""
    out = []
    b = 2 if ctx.quick else 3
    for n in (1, 2):
        for sizes in itertools.product(SIZES, repeat=n):
            for n_initial in sorted({0, 1, n}):
                for may_cancel in (False, True):
                    out.append(((sizes, n_initial, may_cancel), b))
    s3 = [2, 1400, 1473] if ctx.quick else SIZES
    for sizes in itertools.product(s3, repeat=3):
        for n_initial in ((0, 3) if ctx.quick else (0, 1, 3)):
            for may_cancel in (False, True):
                out.append(((sizes, n_initial, may_cancel), 2))
    # shaped requests: every shape alone; a selection (every head with both
    # forms of empty trailing data, and one of each other kind) next to a
    # small and a large raw request in both orders; empty-tail shapes in pairs
    for shape in SHAPES:
        for n_initial in (0, 1):
            for may_cancel in (False, True):
                out.append((((shape,), n_initial, may_cancel), b))
    for shape in PAIR_SHAPES:
        for other in (2, 1400):
            for sizes in ((shape, other), (other, shape)):
                for n_initial in ((0, 2) if ctx.quick else (0, 1, 2)):
                    for may_cancel in (False, True):
                        out.append(((sizes, n_initial, may_cancel), b))
    for sizes in itertools.product(EMPTY_TAIL, repeat=2):
        for may_cancel in (False, True):
            out.append(((sizes, 2, may_cancel), 2))
    if not ctx.quick:
        for shape in SHAPES:
            for sizes in ((shape, 2, 1400), (1472, shape, 2),
                          (2, 700, shape)):
                out.append(((sizes, 3, False), 2))
    # count limit: 17 tiny requests at once
    out.append((((2,) * 17, 17, False), 2))
    out.append((((2,) * 17, 17, True), 1))
    return out


class FateChooser(explore.Chooser):
    """the default environment everywhere, except that the k-th frame handed
    to the transport is lost iff bit k of `fates` is set (and, with `wkcs`,
    the k-th delivered datagram is not processed iff bit k of `wkcs` is)"""

    def __init__(self, fates, wkcs=0):
        super().__init__(())
        self.fates, self.wkcs = fates, wkcs
        self.nf = self.nw = 0

    def choose(self, n, kind="", costs=None):
        c = 0
        if kind == "fate":
            c = (self.fates >> self.nf) & 1
            self.nf += 1
        elif kind == "wkc":
            c = (self.wkcs >> self.nw) & 1
            self.nw += 1
        self.trace.append((kind, n, c, costs))
        return c


def work_history(item, res):
    """long histories on one EtherCat object: N small requests submitted one
    after the other, every subset of their frames lost, (a second pass) every
    subset of the answered ones not processed"""
    _, n, what = item
    workload = ((2,) * n, 1, False)
    for bits in range(1 << n):
        ch = FateChooser(bits, 0) if what == "loss" else FateChooser(0, bits)
        obs = execute(ch, workload)
        res.count("evaluations")
        res.count("history_executions")
        res.count("transitions", len(ch.trace))
        res.nontrivial.add(core.digest([workload, what, bits]))
        res.outcomes.add(tuple(sorted((v[0] for v in obs["outcomes"].values())))
                         + (bool(obs["stall"]),))
        if len(obs["frames"]) != n and not obs["stall"]:
            # (judged below; the history is only meaningful if every
            # request travels in its own frame on the unchanged tree)
            res.count("histories_with_shared_frames")
        judge(workload, ch, obs, res)
    a = execute(FateChooser(5, 0), workload)
    b = execute(FateChooser(5, 0), workload)
    if core.digest(a) != core.digest(b):
        raise core.Internal(f"non-deterministic history for {workload}")


def work_burst(item, res):
    """B+1 tasks started at once, each calling roundtrip as its first step,
    except one (every position) that calls it 1..3 loop iterations later:
    requests go out in the order of the calls"""
    _, B = item
    for pos in range(B + 1):
        for delay in (1, 2, 3):
            workload = ((2,) * (B + 1), B + 1, False, (pos, delay))
            ch = FateChooser(0, 0)
            obs = execute(ch, workload)
            res.count("evaluations")
            res.count("burst_executions")
            res.count("transitions", len(ch.trace))
            res.nontrivial.add(core.digest([workload]))
            res.outcomes.add(tuple(sorted(
                (v[0] for v in obs["outcomes"].values())))
                + (bool(obs["stall"]),))
            if sorted(obs["called"]) != list(range(B + 1)):
                raise core.Internal(f"burst {workload}: not every task "
                                    f"called roundtrip: {obs['called']}")
            judge(workload, ch, obs, res)


def _watchdog(signum, frame):
    raise core.Internal("watchdog: an execution did not terminate")


def work(item, res):
    import signal
    signal.signal(signal.SIGALRM, _watchdog)
    signal.alarm(300)
    try:
        _work(item, res)
    finally:
        signal.alarm(0)


def _work(item, res):
    if item[0] == "history":
        return work_history(item, res)
    if item[0] == "burst":
        return work_burst(item, res)
    workload, bound = item
    seen = set()

    def run(ch):
        return execute(ch, workload)

    def on_exec(ch, obs):
        res.count("evaluations")
        res.count("transitions", len(ch.trace))
        if obs["frames"]:
            res.nontrivial.add(core.digest([workload, ch.choices]))
        res.outcomes.add(tuple(sorted((v[0] for v in obs["outcomes"].values())))
                         + (bool(obs["stall"]),))
        judge(workload, ch, obs, res)
    n, capped = explore.dfs(run, bound, on_exec, max_execs=200000)
    if capped:
        res.caps_hit.append(f"workload {workload}: capped at {n} executions")
    # determinism: replay the default execution and compare
    o1 = execute(explore.Chooser(()), workload)
    o2 = execute(explore.Chooser(()), workload)
    if core.digest(o1) != core.digest(o2):
        raise core.Internal(f"non-deterministic execution for {workload}")


def run(ctx):
    bound = 2 if ctx.quick else 3
    items = workloads(ctx)
    hist_n = 10 if ctx.quick else 13
    items += [("history", hist_n, "loss"), ("history", hist_n, "wkc")]
    items += [("history", n, "loss") for n in range(4, hist_n)]
    bursts = (1, 2, 14, 15, 16, 17, 29, 30, 31, 32, 33) if ctx.quick \
        else tuple(range(1, 49))
    items += [("burst", b) for b in bursts]
    res = core.pmap(ctx, work, items, chunk=1)
    res.cov["history_requests"] = hist_n
    res.cov["burst_sizes"] = list(bursts)
    res.cov["states"] = len(res.nontrivial)
    res.cov["traces_validated_against_impl"] = res.cov.get("evaluations", 0)
    res.cov["bound_completed"] = bound
    res.cov["workloads"] = len(items)
    res.cov["shapes"] = len(SHAPES)
    res.sample(dict(workload=[[["H", ["b", 0]], 1400], 2, True],
                    meaning="roundtrip(cmd, pos, off, 'H', v, data=b'') and a "
                            "1400-byte raw request submitted up front, "
                            "cancellation allowed"))
    res.sample(dict(workload=[[2, 1400], 2, True],
                    meaning="two requests (2 and 1400 bytes) submitted up "
                            "front, cancellation allowed; then every schedule "
                            "with <= bound deviations"))
    res.assumptions += [
        "event-loop schedules are those asyncio can produce: callbacks FIFO, "
        "external events (frame arrival, submission, cancellation) between "
        "loop iterations",
        "a request cancelled by the caller may or may not still be sent; if "
        "it completed before the cancellation took effect that is accepted",
        "an oversize request may fail with any exception",
        "a shaped request (formats / read-only format / trailing data) must "
        "carry the reference encoding on the wire and complete with the "
        "response bytes at its own position decoded with its own formats; "
        "raw data alone completes with the bytes themselves"]
    return res


def replay(ctx, rep):
    res = core.Result()
    c = rep["case"]
    w = c["workload"]
    workload = (tuple(norm_spec(x) for x in w[0]), w[1], w[2])
    if len(w) > 3:
        workload += (tuple(w[3]),)
    ch = explore.Chooser(tuple(c["choices"]))
    obs = execute(ch, workload)
    for l in obs["log"]:
        print("  ", l)
    print("outcomes:", {k: (v[0], v[1][:8].hex() if isinstance(v[-1], bytes)
                            else core.jsonable(v[1:]))
                        for k, v in obs["outcomes"].items()})
    print("errors:", obs["errors"], "stall:", obs["stall"])
    judge(workload, ch, obs, res)
    return res.violations
