#!/bin/bash
# re-verify every seeded change under /verif/seeded against the current tree
# and the current checks (in parallel: JOBS at a time); one line per seed
# usage: [JOBS=4] selftest/regress_seeds.sh [NAME ...]
cd /verif
JOBS=${JOBS:-4}
names="$@"
[ -z "$names" ] && names=$(ls seeded)
printf '%s\n' $names | xargs -P $JOBS -I{} sh -c \
  'timeout 3600 selftest/seedcheck.py seeded/{} --install {} > /tmp/rs-{}.json 2>&1; /venv/bin/python - /tmp/rs-{}.json {} <<PY
import sys, json, re
txt = open(sys.argv[1]).read()
m = re.search(r"\{\n.*\n\}", txt, re.S)
try:
    d = json.loads(m.group(0))
    print(sys.argv[2], "confirmed", d["confirmed"], "applies", d["patch_applies"], "tests", d["tests_after"], "caught_by", d["caught_by"], {k: v["exit"] for k, v in d["checks"].items()})
except Exception as e:
    print(sys.argv[2], "PARSE-ERROR", txt[-300:].replace("\n", " "))
PY'
