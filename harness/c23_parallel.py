"""C23 - processes sharing an interface coordinate the dispatcher safely.

The real ``ParallelEtherCat.run`` / ``get_ethertype`` / ``get_fmmu_addr`` and
the real ``FMMULock`` / ``LockFile`` (and the real ``XDP.attach`` /
``XDP.detach``) are executed by 2-3 simulated processes (threads under the
baton scheduler of mc/simos.py) against the simulated file system, record
locks, bpf pin namespace and interface.  Every simulated OS / bpf / netlink
call is a scheduling point; the explorer enumerates the interleavings (complete
or preemption bounded), the answers of ``randrange`` (tiny domains: collisions
forced), optionally one crash and optionally one injected failure of
``connect()``, and checks the five invariants at every reached state.

Starts that fail are part of the spaces: a joiner's ``sleep`` between its two
``obj_get`` attempts is a scheduling point that advances nothing, so the
installer may still not have pinned afterwards and the joiner gives up
(FileNotFoundError, a legal outcome); in the ``fault`` spaces the explorer may
let one ``connect()`` per execution raise OSError (installer or joiner).  The
other participants - among them one that starts after the failure (third
process, or the second session of a restarting one) - must not notice:
invariants 1-4 as always, and invariant 5 looks at the simulated file system:
the ethertype lock file of every running participant is still in the lock
directory (a participant whose start failed removed nothing but what it created
itself).

The ``eth`` spaces explore the ethertype sub-protocol by itself (as the
``fmmu`` spaces do for the address windows), completely: 2-3 joiners arrive at
a lock directory that another, resident participant keeps alive and call the
real ``get_ethertype(lockdir)`` / later ``os.remove(lockdir/lockfile)`` exactly
as ``run()`` does, all trying the default ethertype first (its file free - the
installer has left -, held by the live resident, or left behind by a process
that died).  Collisions on one name at the same time need three preemptions in
the full protocol; here they are the first thing that happens.

The simulated OS gives every process its own pid (``os.getpid``) and answers
``os.kill(pid, 0)``, ``os.stat``, ``os.path.exists``, reading files other
processes wrote (a file made with ``open(..., 'x')`` exists, empty, from the
open on; its content arrives with the close) - what a change of the protocol
that looks at the lock files' owners would use.  A process that asks for
something simos does not model is frozen at that point, the other executions
go on, and the run ends INTERNAL unless a violation was found elsewhere.
"""
import errno as _errno
import os as _os

from mc import core, simos

PROP = "C23"
LEVEL = "model_checking"
RULE = ("explicit-state search with replay over all interleavings of the "
        "simulated OS/bpf/netlink operations of 2-3 processes running the "
        "real ParallelEtherCat.run / FMMULock code (complete, or bounded by "
        "preemptions), x randrange answers x optional crash x optional "
        "injected connect() failure (at most one per execution); starts may "
        "fail (joiner gives up after its sleep, connect() raises) and a "
        "further participant starts afterwards; a state is non-trivial when "
        "a participant is inside its `async with` body (or holds an FMMU "
        "window) while another process is still alive; plus the complete "
        "ethertype sub-protocol (real get_ethertype / remove of 2-3 joiners "
        "of a lock directory a resident keeps alive, the default ethertype's "
        "file free, held by a live process or left by a dead one); every "
        "process has its own pid, os.kill(pid, 0) / stat / reading other "
        "processes' lock files are simulated")

import ebpfcat.ebpfcat as ec_mod      # noqa: E402
import ebpfcat.ethercat as eth_mod    # noqa: E402
import ebpfcat.lock as lock_mod       # noqa: E402
import ebpfcat.xdp as xdp_mod         # noqa: E402

IF = "eth0"
LOCKDIR = f"/run/lock/ebpf.{IF}.lock"
PROGRAMS = f"/sys/fs/bpf/{IF}/programs"
FMMU = f"/run/ebpf/{IF}.fmmu"
MBX = f"/run/ebpf/{IF}"
DIRS = ["/run/lock", "/sys/fs/bpf", "/tmp"]

KF_RACE = "C23-last-leaver-race"
KF_FMMU = "C23-fmmu-create-init-window"
KF_STALE = "C23-stale-table-joiner"
KF_EVICT = "C23-failed-installer-evicts-joiner"


def domains(seed):
    """randrange answers: 2 ethertypes, 3 FMMU process slots (slot 1, which
    the creator of the map takes without asking, is always among them)"""
    e = 0x3000 + (seed * 7919) % 0x2ff0
    s = 2 + (seed * 37) % 500
    return dict(eth=[e, e + 1], slot=[1, s, s + 1 + seed % 7])


# --------------------------------------------------------------------- stubs
class StubXDP:
    """EtherXDP without code generation: real XDP.attach / XDP.detach on top
    of simulated load / netlink / close"""
    ebpf_log_level = 0
    attach = xdp_mod.XDP.attach
    detach = xdp_mod.XDP.detach

    def __init__(self, *a, **kw):
        self.programs = None
        self.file_descriptor = None

    def load(self, log_level=0, log_size=0):
        self.file_descriptor = simos.bpf_prog_load(
            name="dispatcher", table_fd=self.programs)

    async def _netlink(self, ifindex, fd, flags):
        simos.bpf_set_xdp(ifindex, fd)

    def close(self):
        simos.bpf_close(self.file_descriptor)
        self.file_descriptor = None


CONNECT_ERRNO = _errno.ENOBUFS


async def _connect(self):
    """EtherCat.connect: no socket.  In a space with `faults` > 0 the explorer
    decides, as long as the execution has a fault left, whether this call
    fails (OSError, as socket() / bind() would raise it)"""
    rt = simos.current()
    if getattr(rt, "faults_left", 0) > 0 and rt.choose("connect", [0, 1]):
        rt.faults_left -= 1
        raise OSError(CONNECT_ERRNO, "injected fault: connect() failed")
    self.send_queue = None


def _eth_randrange(*a):
    rt = simos.current()
    return rt.choose("eth", rt.params["eth"])


def _slot_randrange(*a):
    rt = simos.current()
    return rt.choose("slot", rt.params["slot"])


_SEAMS = None


def install():
    global _SEAMS
    if _SEAMS is not None:
        return
    s = simos.Seams()
    simos.install_ebpfcat(s)
    s.set(ec_mod, "EtherXDP", StubXDP)
    s.set(ec_mod, "randrange", _eth_randrange)
    s.set(lock_mod, "randrange", _slot_randrange)
    s.set(xdp_mod, "if_nametoindex", lambda name: name)
    s.set(eth_mod.EtherCat, "connect", _connect)
    _SEAMS = s


def uninstall():
    global _SEAMS
    if _SEAMS is not None:
        _SEAMS.restore()
        _SEAMS = None


# -------------------------------------------------------------------- bodies
def body_full(rt):
    ec = ec_mod.ParallelEtherCat(IF)
    ec.terminal_addr_range = (1000, 1008)   # 8-byte mailbox lock file

    async def main():
        async with ec.run():
            addr = ec.get_fmmu_addr()
            rt.flag("running", (ec.ethertype, ec.programs, addr >> 22))
            try:
                rt.syscall("work", (), lambda: None)
            finally:
                rt.flag("running", None)
        return [ec.ethertype, addr >> 22]
    return simos.drive(main())


def body_restart(rt):
    """the same program run twice in a row (second process = new session
    after the first one exited, also when the first one's start failed)"""
    try:
        first = body_full(rt)
    except Exception as e:       # what the library raised: session over
        first = ["start failed", type(e).__name__, getattr(e, "errno", None),
                 str(e)[:60]]
    rt.restart_process()
    return [first, body_full(rt)]


def body_fmmu(rt):
    lk = lock_mod.FMMULock(FMMU)
    addr = lk.get_next_addr()
    rt.flag("holding", addr >> 22)
    rt.syscall("work", (), lambda: None)
    rt.flag("holding", None)
    lk.remove()
    return [addr >> 22]


RESIDENT_PID = 4242          # a live process that is not simulated
RESIDENT_ETH = 0x5fff        # its ethertype (outside every randrange domain)
DEAD_PID = 4343              # a process that died without cleaning up


def body_eth(rt):
    """a joiner of an installation that is up: the ethertype part of run()
    - get_ethertype(lockdir), body, os.remove(lockdir/lockfile) - with the
    library's own calls"""
    ec = ec_mod.ParallelEtherCat(IF)
    lockfile = ec.get_ethertype(LOCKDIR)
    rt.flag("member", (ec.ethertype, lockfile))
    try:
        rt.syscall("work", (), lambda: None)
    finally:
        rt.flag("member", None)
    ec_mod.os.remove(f"{LOCKDIR}/{lockfile}")
    return [ec.ethertype, lockfile]


def eth_world(default):
    """the lock directory of a running installation: the resident's lock
    file, and for the default ethertype 0x88A4 no file ('free': the installer
    has left), the file of the live resident installer ('held') or the file
    of a process that died ('stale')"""
    w = simos.World(DIRS + [LOCKDIR])
    w.residents.add(RESIDENT_PID)
    files = {f"{RESIDENT_ETH}.lock": RESIDENT_PID}
    if default == "held":
        files = {"34980.lock": RESIDENT_PID}
    elif default == "stale":
        files["34980.lock"] = DEAD_PID
    for name, pid in sorted(files.items()):
        fd = w.open(0, f"{LOCKDIR}/{name}",
                    _os.O_WRONLY | _os.O_CREAT | _os.O_EXCL)
        w.write(0, fd, f"{pid:10}\n".encode())
        w.close(0, fd)
    return w


def fmmu_world(default):
    """the FMMU map file left behind by earlier sessions: a short
    (malformed) one, or a complete one in which a process that is gone has
    left a window marked"""
    w = simos.World(DIRS + ["/run/ebpf"])
    content = b"\x07\x00\x21" if default == "short" \
        else bytes([0x04]) + bytes(63)
    fd = w.open(0, FMMU, _os.O_WRONLY | _os.O_CREAT | _os.O_EXCL)
    w.write(0, fd, content)
    w.close(0, fd)
    return w


BODIES = dict(full=body_full, fmmu=body_fmmu, restart=body_restart,
              eth=body_eth)


# ------------------------------------------------------------------- monitor
def _ok(ev):
    r = ev[-1]
    return not (isinstance(r, list) and r[:1] == ["!"])


def _phase(p):
    """installer phase of one process (of its current session), from its own
    operation history: between `rename succeeded` and `attached and pinned`,
    unless it abandoned the installation (error path: it removed the lock
    directory or its own lock file in it)"""
    decided = attached = pinned = gaveup = False
    for _, name, args, r in p.events:
        good = not (isinstance(r, list) and r[:1] == ["!"])
        if name == "exit":             # restart: a new session begins
            decided = attached = pinned = gaveup = False
        elif name == "rename" and args[1] == LOCKDIR and good:
            decided = True
        elif name == "set_xdp" and good and args[1] != -1:
            attached = True
        elif name == "obj_pin" and good:
            pinned = True
        elif decided and (          # attempted: that is the error path
                (name == "rmtree" and args[0] == LOCKDIR)
                or (name == "remove" and args[0].startswith(LOCKDIR + "/"))):
            gaveup = True
    return decided and not (attached and pinned) and not gaveup


def _race_pattern(log, a, k, need):
    """rmdir(a) ok at i < rename(b) ok at j < `need`(b) ok at m < k for some
    b != a; -> b or None"""
    i = None
    for ev in log:
        if ev[0] >= k:
            break
        if ev[1] == a and ev[2] == "rmdir" and ev[3][0] == LOCKDIR \
                and _ok(ev):
            i = ev[0]
    if i is None:
        return None
    renamed = {}
    for ev in log:
        st, pid, name, args = ev[:4]
        if st <= i or st >= k or pid == a or not _ok(ev):
            continue
        if name == "rename" and args[1] == LOCKDIR:
            renamed[pid] = st
        elif pid in renamed and (
                (need == "attach" and name == "set_xdp" and args[1] != -1)
                or (need == "pin" and name == "obj_pin")):
            return pid
    return None


def _kf_dispatcher(log, kind, who):
    """attribute an invariant-2 violation to a documented defect, or None"""
    return _kf_race(log, kind) or _kf_stale(log, who) \
        or _kf_evict_teardown(log, kind, who)


def _evicted(log, j, eth):
    """the documented eviction by a failing installer, for the running
    participant j with ethertype eth: j created its lock file inside the lock
    directory (step c) after an installer I != j had renamed its directory
    into place (step r < c), and I's start then failed: its error path
    rmtree(lock directory) succeeded at step t > c without I having run or
    exited in between.  -> t or None"""
    path = f"{LOCKDIR}/{eth}.lock"
    c = None
    for ev in log:
        if ev[1] == j and _ok(ev):
            if ev[2] == "open" and ev[3][0] == path and ev[3][1] == "x":
                c = ev[0]
            elif ev[2] == "exit":
                c = None
    if c is None:
        return None
    for ev in log:
        if ev[0] <= c or ev[1] == j or not _ok(ev) \
                or ev[2] != "rmtree" or ev[3][0] != LOCKDIR:
            continue
        i, t, r = ev[1], ev[0], None
        for e2 in log:
            if e2[0] >= t:
                break
            if e2[1] != i:
                continue
            if e2[2] == "rename" and e2[3][1] == LOCKDIR and _ok(e2):
                r = e2[0]
            elif e2[2] in ("work", "exit"):
                r = None
        return t if r is not None and r < c else None
    return None


def _kf_evict(log, j, eth):
    return KF_EVICT if _evicted(log, j, eth) is not None else None


def _kf_evict_teardown(log, kind, who):
    """consequence of the eviction: a later leaver K, whose rmdir of the lock
    directory succeeded although the evicted participant was still there,
    detached the dispatcher / unpinned the table under it"""
    if kind == "no dispatcher attached":
        last = None
        for ev in log:
            if ev[2] == "set_xdp" and _ok(ev):
                last = ev
        if last is None or last[3][1] != -1:
            return None
    elif kind == "program table not pinned":
        last = None
        for ev in log:
            if _ok(ev) and ((ev[2] == "remove" and ev[3][0] == PROGRAMS)
                            or ev[2] == "obj_pin"):
                last = ev
        if last is None or last[2] != "remove":
            return None
    else:
        return None
    k, d = last[1], last[0]
    for j in who:
        if j == k:
            continue
        eth = None            # j's ethertype: its last lock file in LOCKDIR
        for ev in log:
            if ev[1] == j and _ok(ev) and ev[2] == "open" \
                    and ev[3][1] == "x" \
                    and ev[3][0].startswith(LOCKDIR + "/"):
                eth = ev[3][0][len(LOCKDIR) + 1:-len(".lock")]
        if eth is None:
            continue
        t = _evicted(log, j, eth)
        if t is not None and any(
                ev[1] == k and ev[2] == "rmdir" and ev[3][0] == LOCKDIR
                and _ok(ev) and t < ev[0] < d for ev in log):
            return KF_EVICT
    return None


def _kf_race(log, kind):
    """the documented last-leaver race: the dispatcher / the pin was taken
    away by a process A whose rmdir of the lock directory had succeeded
    before another process B renamed its directory into place and
    attached / pinned"""
    if kind == "no dispatcher attached":
        last = None
        for ev in log:
            if ev[2] == "set_xdp" and _ok(ev):
                last = ev
        if last is not None and last[3][1] == -1 and \
                _race_pattern(log, last[1], last[0], "attach") is not None:
            return KF_RACE
    elif kind == "program table not pinned":
        last = None
        for ev in log:
            if _ok(ev) and ((ev[2] == "remove" and ev[3][0] == PROGRAMS)
                            or ev[2] == "obj_pin"):
                last = ev
        if last is not None and last[2] == "remove" and \
                _race_pattern(log, last[1], last[0], "pin") is not None:
            return KF_RACE
    return None


def _lockdir_before(log, j):
    """(exists, member files, who removed the last member and when) of the
    lock directory just before step j, reconstructed from the log"""
    exists, members, emptied = False, set(), None
    tmpfiles = {}
    for ev in log:
        st, pid, name, args = ev[:4]
        if st >= j:
            break
        if not _ok(ev):
            continue
        if name == "open" and isinstance(args[1], str) \
                and not args[1].startswith("r"):
            d, _, f = args[0].rpartition("/")
            if d == LOCKDIR:
                members.add(f)
                emptied = None
            else:
                tmpfiles.setdefault(d, set()).add(f)
        elif name == "remove" and args[0].startswith(LOCKDIR + "/"):
            members.discard(args[0].rpartition("/")[2])
            if not members:
                emptied = (pid, st)
        elif name == "rename" and args[1] == LOCKDIR:
            exists, members, emptied = True, set(tmpfiles.get(args[0], ())), \
                None
        elif name in ("rmdir", "rmtree") and args[0] == LOCKDIR:
            exists, members, emptied = False, set(), None
    return exists, members, emptied


def _kf_stale(log, who):
    """a running participant C joined (obj_get of the pinned table at step
    g) while a new installer B was between `rename succeeded` (step j) and
    `pinned`, and the pin C got was the stale one of a previous owner A:
    (S1) A's teardown was in progress (or A crashed in it): rmdir(A) ok at
    i < j, and A neither executed its os.remove(programs) nor exited before
    g; or (S2) A skipped the teardown: B's rename at j replaced the lock
    directory that A had just emptied (A's removal of its lock file was the
    last change, A's rmdir had not run yet), so A's rmdir fails."""
    pids = {ev[1] for ev in log}
    for c in who:
        g = None
        for ev in log:
            if ev[1] == c and ev[2] == "obj_get" and _ok(ev):
                g = ev[0]
        if g is None:
            continue
        for b in pids - {c}:
            j = None
            for ev in log:
                if ev[0] >= g:
                    break
                if ev[1] == b and _ok(ev):
                    if ev[2] == "rename" and ev[3][1] == LOCKDIR:
                        j = ev[0]
                    elif ev[2] == "obj_pin":
                        j = None
            if j is None:
                continue
            # S2: B's rename replaced the directory A had just emptied
            exists, members, emptied = _lockdir_before(log, j)
            if exists and not members and emptied is not None \
                    and emptied[0] != b and not any(
                        ev[1] == emptied[0] and ev[2] == "rmdir"
                        and emptied[1] < ev[0] < j for ev in log):
                return KF_STALE
            # S1: A's teardown in progress when C fetched the table
            for a in pids - {b}:
                i = None
                for ev in log:
                    if ev[0] >= j:
                        break
                    if ev[1] == a and ev[2] == "rmdir" \
                            and ev[3][0] == LOCKDIR and _ok(ev):
                        i = ev[0]
                if i is not None and not any(
                        ev[1] == a and i < ev[0] < g
                        and ((ev[2] == "remove" and ev[3][0] == PROGRAMS)
                             or ev[2] == "exit") for ev in log):
                    return KF_STALE
    return None


def _kf_fmmu(log):
    """the documented create-then-initialise window of FMMULock.__init__ was
    entered: the creator A made the map file with O_EXCL at step i and wrote
    its initial content (unlocked) at step k, and another process opened the
    file in between"""
    created = {}      # creator pid -> (step of create, fd)
    opened = []       # (step, pid) of plain opens
    for ev in log:
        st, pid, name, args = ev[:4]
        if not _ok(ev):
            continue
        if name == "open" and args[0] == FMMU and isinstance(args[1], int):
            if args[1] & _os.O_EXCL:
                created[pid] = (st, ev[4])
            else:
                opened.append((st, pid))
        elif name == "write" and pid in created \
                and args[0] == created[pid][1]:
            i = created.pop(pid)[0]
            if any(i < j < st and q != pid for j, q in opened):
                return KF_FMMU
    return None


def _remover(run, path):
    """text: which operation of which process made `path` vanish last"""
    last = None
    for ev in run.log:
        if _ok(ev) and ((ev[2] == "remove" and ev[3][0] == path)
                        or (ev[2] == "rmtree" and ev[3][0] == LOCKDIR)):
            last = ev
    if last is None:
        return ""
    started = False           # within the remover's current session
    for st, n, _, _ in run.procs[last[1]].events:
        if st > last[0]:
            break
        started = (started or n == "work") and n != "exit"
    return (f": removed at step {last[0]} by {last[2]}({last[3][0]}) of "
            f"process {last[1]}, " + ("which had been running" if started else
                                      "whose start failed / which never ran"))


def monitor(run):
    w, out = run.world, []
    running = [(p.pid, p.flags["running"]) for p in run.procs
               if "running" in p.flags]
    holding = [(p.pid, p.flags["holding"]) for p in run.procs
               if "holding" in p.flags]
    # participants of the ethertype sub-protocol: (ethertype, lock file)
    members = [(p.pid, p.flags["member"]) for p in run.procs
               if "member" in p.flags]
    # (1) at most one installer at a time
    inst = [p.pid for p in run.procs
            if p.status in ("parked", "running") and _phase(p)]
    if len(inst) > 1:
        out.append(dict(inv=1, kind="two processes are installing",
                        who=inst, expected="at most one process between "
                        "rename succeeded and attach+pin done",
                        observed=f"processes {inst}"))
    # (2) dispatcher + table installed and reachable while anybody runs
    if running:
        who = [pid for pid, _ in running]
        att = w.attached.get(IF)
        pin = w.pinned(PROGRAMS)
        exp = "dispatcher attached, its program table pinned at " \
            f"{PROGRAMS} and held by every running participant"

        def bad(kind, observed, who=who):
            out.append(dict(inv=2, kind=kind, who=who, expected=exp,
                            observed=observed,
                            kf=_kf_dispatcher(run.log, kind, who)))
        if att is None:
            bad("no dispatcher attached",
                f"participants {who} running, interface {IF} has no "
                "program")
        if pin is None:
            bad("program table not pinned",
                f"participants {who} running, {PROGRAMS} does not exist")
        else:
            for pid, (eth, tfd, slot) in running:
                held = w.resolve(pid, tfd)
                if held != pin:
                    bad("participant holds another table than the pinned "
                        "one", f"participant {pid} holds {held}, pinned is "
                        f"{pin}", [pid])
            if att is not None and w.objs[att].get("table") != pin:
                bad("attached dispatcher uses another table than the pinned "
                    "one", f"attached {att} uses "
                    f"{w.objs[att].get('table')}, pinned is {pin}")
    # (3) distinct ethertypes
    eths = [(pid, (f[0],)) for pid, f in running] + members
    for i, (p, fp) in enumerate(eths):
        for q, fq in eths[i + 1:]:
            if fp[0] == fq[0]:
                out.append(dict(
                    inv=3, kind="two running participants share an "
                    "ethertype", who=[p, q], expected="distinct ethertypes",
                    observed=f"participants {p} and {q} both use "
                             f"{fp[0]:#x}"))
    # (5) nobody - in particular no participant whose start failed - removed
    # what a running participant created: its ethertype lock file is there
    for pid, eth in [(pid, f[0]) for pid, f in running] + \
            [(pid, f[0]) for pid, f in members]:
        path = f"{LOCKDIR}/{eth}.lock"
        if not w.exists(pid, path):
            by = _remover(run, path)
            out.append(dict(
                inv=5, kind="the ethertype lock file of a running "
                "participant is gone", who=[pid],
                expected="the lock directory entry of every running "
                "participant exists (a participant whose start failed removes "
                "nothing but what it created itself)",
                observed=f"participant {pid} is running with ethertype "
                         f"{eth:#x}, {path} does not exist" + by,
                kf=_kf_evict(run.log, pid, eth)))
    # (4) disjoint logical address windows
    slots = [(pid, f[2]) for pid, f in running] + holding
    for i, (p, sp) in enumerate(slots):
        for q, sq in slots[i + 1:]:
            if sp == sq:
                out.append(dict(
                    inv=4, kind="two participants got the same FMMU "
                    "process window", who=[p, q],
                    expected="different base_addr >> 22",
                    observed=f"participants {p} and {q} both got window "
                             f"{sp} (addresses {sp << 22:#x}..)",
                    kf=_kf_fmmu(run.log)))
    return out


def describe(run):
    act = [p for p in run.procs if p.flags]
    alive = run.parked()
    return dict(nontrivial=bool(act) and len(alive) >= 2)


# -------------------------------------------------------------------- spaces
def make_space(name, kind, n, preempt, crashes, seed, cap=None, neth=2,
               nslot=3, faults=0, default=None):
    dom = domains(seed)
    dom = dict(eth=dom["eth"][:neth], slot=dom["slot"][:nslot])
    params = dict(kind=kind, n=n, preempt=preempt, crashes=crashes,
                  seed=seed, neth=neth, nslot=nslot, eth=dom["eth"],
                  slot=dom["slot"], faults=faults)
    if default is not None:
        params["default"] = default

    def factory():
        if kind == "restart":     # process 0 restarts once, the others not
            run = simos.Run(simos.World(DIRS),
                            [body_restart] + [body_full] * (n - 1),
                            params=dom)
        elif kind == "eth":
            run = simos.Run(eth_world(default), [body_eth] * n, params=dom,
                            symmetric=True)
        elif kind == "fmmu" and default is not None:
            run = simos.Run(fmmu_world(default), [body_fmmu] * n,
                            params=dom, symmetric=True)
        else:
            run = simos.Run(simos.World(DIRS), [BODIES[kind]] * n,
                            params=dom, symmetric=True)
        # connect() faults this execution may still inject (see _connect);
        # a function of the processes' histories, so it is part of the key
        run.faults_left = faults
        # a call simos has no model of freezes the caller, the other
        # executions go on (run() decides what that means in the end)
        run.tolerate_unmodelled = True
        return run
    return simos.Space(name, factory, monitor, preempt=preempt,
                       crashes=crashes, params=params, describe=describe,
                       state_cap=cap)


def space_from_params(name, p):
    return make_space(name, p["kind"], p["n"], p["preempt"], p["crashes"],
                      p["seed"], neth=p.get("neth", 2),
                      nslot=p.get("nslot", 3), faults=p.get("faults", 0),
                      default=p.get("default"))


def spaces(ctx):
    s = ctx.seed
    if ctx.quick:
        sp = [make_space("full-2p-preempt2-fault1", "full", 2, 2, 0, s,
                         faults=1),
              make_space("restart-2p-preempt2-small", "restart", 2, 2, 0, s,
                         neth=1, nslot=2),
              # (a joiner that gets in between the last leaver's rmdir and
              # its detach, and is still running then, takes three)
              make_space("full-2p-preempt3-small", "full", 2, 3, 0, s,
                         neth=1, nslot=2),
              # installer, a joiner whose start fails, a third one that
              # starts afterwards (and every other order of the three)
              make_space("full-3p-preempt1-fault1-small", "full", 3, 1, 0, s,
                         neth=1, nslot=2, faults=1),
              make_space("fmmu-2p-complete", "fmmu", 2, None, 0, s),
              make_space("fmmu-3p-complete-2slots", "fmmu", 3, None, 0, s,
                         nslot=2),
              make_space("fmmu-2p-complete-short-map", "fmmu", 2, None, 0,
                         s, default="short"),
              make_space("fmmu-2p-complete-old-map", "fmmu", 2, None, 0, s,
                         default="old"),
              make_space("eth-3p-complete-free", "eth", 3, None, 0, s,
                         default="free"),
              make_space("eth-2p-complete-held-crash1", "eth", 2, None, 1,
                         s, default="held"),
              make_space("eth-2p-complete-stale", "eth", 2, None, 0, s,
                         default="stale")]
    else:
        # (restart-2p-complete-small: 3.4 M executions, complete and clean
        # on the pinned tree, takes the run beyond half an hour on a busy
        # machine; it is replaced by its preemption-bound-3 version and
        # remains available through C23_SPACES.
        # restart-2p-preempt3-fault1-small: 0.39 M executions; the smallest
        # space found that reaches C23-failed-installer-evicts-joiner - it
        # needs a connect() failure of the installer and three preemptions -
        # also only through C23_SPACES)
        sp = [make_space("full-2p-complete-crash1-fault1", "full", 2, None,
                         1, s, faults=1),
              make_space("restart-2p-preempt2-fault1", "restart", 2, 2, 0, s,
                         faults=1),
              make_space("restart-2p-preempt3-small", "restart", 2, 3, 0,
                         s, neth=1, nslot=2),
              make_space("full-3p-preempt2-fault1", "full", 3, 2, 0, s,
                         faults=1),
              make_space("fmmu-3p-complete-crash1", "fmmu", 3, None, 1, s),
              make_space("fmmu-3p-complete-short-map", "fmmu", 3, None, 0,
                         s, default="short"),
              make_space("fmmu-3p-complete-old-map", "fmmu", 3, None, 0, s,
                         default="old"),
              make_space("eth-3p-complete-free-crash1", "eth", 3, None, 1,
                         s, default="free"),
              make_space("eth-3p-complete-held-crash1", "eth", 3, None, 1,
                         s, default="held"),
              make_space("eth-3p-complete-stale-crash1", "eth", 3, None, 1,
                         s, default="stale")]
        extra = _os.environ.get("C23_SPACES", "").split(",")
        if "restart-2p-complete-small" in extra:
            sp.append(make_space("restart-2p-complete-small", "restart", 2,
                                 None, 0, s, neth=1, nslot=2))
        if "restart-2p-preempt3-fault1-small" in extra:
            sp.append(make_space("restart-2p-preempt3-fault1-small",
                                 "restart", 2, 3, 0, s, neth=1, nslot=2,
                                 faults=1))
    only = _os.environ.get("C23_SPACES")      # development aid
    if only:
        sp = [x for x in sp if x.name in only.split(",")]
    return sp


def _failed_starts(sp, r):
    """how many distinct terminal outcomes of the space contain a joiner that
    gave up / an injected connect() failure (reported in the evidence; no
    verdict depends on it, the code under test decides what it raises)"""
    if sp.params["kind"] == "fmmu":
        return {}
    return dict(
        outcomes_joiner_gave_up=sum(
            1 for o in r.outcomes if "FileNotFoundError" in o),
        outcomes_connect_failed=sum(
            1 for o in r.outcomes if "injected fault" in o))


def selftest(ctx=None):
    diffs = simos.conformance()
    if diffs:
        raise core.Internal("simos does not conform to the real OS: "
                            + "; ".join(diffs[:5]))
    bad = simos.selftest_pids(ctx or core.Ctx(PROP, "quick", 0))
    if bad:
        raise core.Internal("simos: pids / symmetry reduction / unmodelled "
                            "calls: " + "; ".join(bad[:5]))


def run(ctx):
    selftest(ctx)
    install()
    res = core.Result()
    try:
        res.cov.update(states=0, transitions=0, evaluations=0,
                       traces_validated_against_impl=0)
        per = {}
        outside = {}
        for sp in spaces(ctx):
            # determinism: the same first schedule twice
            a = simos.execute(sp, [])
            b = simos.execute(sp, [])
            if a["digest"] != b["digest"]:
                raise core.Internal(f"{sp.name}: initial state is not "
                                    "deterministic")
            r = core.Result()
            st = simos.explore(ctx, sp, r)
            st["confirmed_replays"] = simos.confirm(sp, r)
            st.update(_failed_starts(sp, r))
            if st.get("outside_model_states"):
                # processes were frozen at calls simos has no model of:
                # what lies behind those calls was not explored
                outside[sp.name] = st["unmodelled_calls"]
                r.count("outside_model_states", st["outside_model_states"])
                r.caps_hit.append(
                    f"{sp.name}: {st['outside_model_states']} states with a "
                    "process standing at a call the simulated OS does not "
                    f"model ({'; '.join(st['unmodelled_calls'])}); the "
                    "executions were not followed beyond it")
                r.exhaustive = False
            res.merge(r)
            per[sp.name] = st
            res.cov["states"] += st["states"]
            res.cov["transitions"] += st["transitions"]
            res.cov["evaluations"] += st["executions"]
            res.cov["traces_validated_against_impl"] += st["executions"]
        res.cov["spaces"] = per
        res.cov["bound_completed"] = {
            sp.name: dict(
                processes=sp.params["n"], protocol=sp.params["kind"],
                preemptions=("unbounded (all interleavings)"
                             if sp.preempt is None else sp.preempt),
                crashes=sp.crashes,
                connect_failures=sp.params.get("faults", 0),
                ethertypes=len(sp.params["eth"]),
                slots=len(sp.params["slot"]),
                completed=per[sp.name]["complete"])
            for sp in spaces(ctx)}
        res.cov["simos_conformance"] = "passed"
        res.cov["simos_pid_symmetry_selftest"] = "passed"
        dom = domains(ctx.seed)
        res.cov["alphabet"] = dict(ethertypes=dom["eth"], slots=dom["slot"])
        res.sample(dict(space=spaces(ctx)[0].name,
                        schedule="all of them; see spaces"))
        if outside:
            # The model does not cover the code.  If the executions that
            # could be followed show a new violation, that verdict stands
            # (with the cap); otherwise nothing can be concluded: INTERNAL,
            # never "held".
            known = {k["id"] for k in core.load_known()
                     if k.get("property") == PROP
                     and k.get("status") == "known"}

            def is_known(v):
                kf = v.get("kf")
                kfs = kf if isinstance(kf, list) else [kf]
                return kf is not None and all(k in known for k in kfs)
            if all(is_known(v) for v in res.violations):
                calls = sorted({c for cs in outside.values() for c in cs})
                raise core.Internal(
                    "the code under test asks the operating system for "
                    f"things the simulated OS does not model ({'; '.join(calls)}"
                    f") in the spaces {sorted(outside)}; the executions that "
                    "reach them could not be judged and the others show no "
                    "new violation: extend mc/simos.py")
    finally:
        uninstall()
    res.assumptions += [
        "'running' = strictly inside the body of `async with ec.run()`; a "
        "participant whose run() raises (e.g. FileNotFoundError because the "
        "installer has not pinned the table yet) simply never runs - the "
        "statement does not promise that starting succeeds",
        "a failing start is nevertheless a start 'in any interleaving': the "
        "invariants keep holding for the others while and after it fails.  "
        "Failing starts of the spaces: the joiner that gives up (the sleep "
        "between its two obj_get attempts advances nothing, the installer "
        "may still not have pinned afterwards) and, in the spaces named "
        "fault1, at most one connect() per execution that raises "
        f"OSError({_errno.errorcode[CONNECT_ERRNO]}) where socket()/bind() "
        "would (installer or joiner, chosen by the explorer)",
        "invariant 5 (a participant whose start failed removed nothing but "
        "what it created itself) is judged on the simulated file system and "
        "only for what the statement protects: the ethertype lock file "
        "<lockdir>/<ethertype>.lock of every RUNNING participant exists; "
        "lock files of participants that are still starting (not running) "
        "may vanish with a failing installer's directory",
        "invariant 1: 'installing' = between `rename onto the lock "
        "directory succeeded` and `attached and pinned`, per session; an "
        "installer that has entered its error path (attempted to remove the "
        "lock directory or its own lock file) is not installing any more",
        "invariant 4 compares the windows of participants that hold them at "
        "the same time (both running); re-use of a window after its owner "
        "released it is allowed",
        "invariant 2 includes: the attached dispatcher uses the pinned table "
        "(otherwise the table is not 'its' table)",
        "makedirs, mkdtemp, rmtree and buffered open()+write+close "
        "(open / close are the two points) are atomic steps of the model; "
        "a randrange answer that was already rejected is not offered again "
        "to the same process",
        "crash = process killed between two operations: descriptors closed, "
        "record locks released, files stay; a crashed process is not running",
        "identical processes: states that differ only by renaming the "
        "processes are one state.  Every process has its own pid "
        "(os.getpid(): 70000 + process index, a restarted process gets a new "
        "one; os.kill(pid, 0) tells whether that process still exists); the "
        "pid is part of what is renamed: pid numbers inside files, in "
        "arguments and results of operations are renamed together with the "
        "processes.  Sound for code that stores, compares for equality and "
        "probes pids; code that orders pids would break the symmetry",
        "the simulated OS: a file made with builtin open(..., 'x'/'w'/'a') "
        "exists (empty) from the open on, what was written arrives with "
        "flush()/close(); other processes may read / stat / unlink it at any "
        "point in between; os.kill only as existence probe (signal 0; pid of "
        "a live process -> nothing, otherwise ProcessLookupError; the "
        "resident participant of the eth spaces is alive, the owner of the "
        "'stale' file is not); os.stat / os.path.exists / isfile / isdir / "
        "getsize, os.link, os.access, fsync, lseek.  Checked against the "
        "real OS by simos.conformance (script 'probe')",
        "a call of the code under test that the simulated OS does not model "
        "(another os / fcntl / shutil / tempfile function, pathlib, signal, "
        "subprocess, an unknown open mode) freezes the calling process at "
        "that point; the other executions are explored and judged, the "
        "states are counted (outside_model_states, caps_hit).  A run in "
        "which that happened and no new violation was found ends INTERNAL "
        "(the model does not cover the code: no verdict), never 'held'",
        "'eth' spaces: 2-3 joiners of a lock directory that a resident "
        "participant (not simulated, alive, ethertype 0x5fff - or 0x88A4 in "
        "the 'held' spaces) keeps in place call get_ethertype(lockdir), run "
        "(flag 'member'), and remove their lock file, as run() does for a "
        "joiner; rename / attach / pin / rmdir are not part of these spaces. "
        "'free': nobody holds 0x88A4 (the installer left, the resident joined "
        "before); 'stale': 34980.lock was left by a process that died. "
        "Invariants 3 and 5 are judged over running participants and "
        "members",
        "'restart' spaces: process 0 runs the program twice in a row (exit, "
        "then a new session, also when the start of the first one failed), "
        "which gives three sessions on two threads",
        "sockets / EtherCat.connect and the eBPF code generation of the "
        "dispatcher are stubbed (EtherXDP -> load/close/_netlink on the "
        "simulated bpf + interface; the real XDP.attach / XDP.detach run)",
    ]
    return res


def replay(ctx, rep):
    c = rep["case"]
    install()
    try:
        sp = space_from_params(c["space"], c["params"])
        out = simos.execute(sp, c["schedule"])
        again = simos.execute(sp, c["schedule"])
        if out["digest"] != again["digest"]:
            raise core.Internal("replay is not deterministic")
    finally:
        uninstall()
    print(f"space {c['space']} {c['params']}")
    for st, pid, name, args, r in out["trace"]:
        print(f"  step {st:3} process {pid}: {name}{tuple(args)!r} -> {r!r}")
    print("  final:", out["pending"], "outcomes", out["outcomes"])
    res = core.Result()
    for v in out["violations"]:
        simos._report(sp, res, v, c["schedule"][:v["at_choice"]])
    return res.violations
