"""Worlds for the sync-group checks: real ebpfcat master objects over the bus
model.  Terminals are real EBPFTerminal objects whose attributes are set by
hand (as the repository's own test_device does) and which are backed by a
bussim.Terminal model with the same station address, so that every register
access of the real code (FMMU set-up, AL state changes, cyclic process data)
really goes through frames on the simulated bus.
"""
import asyncio

from . import bussim, vloop

import ebpfcat.ebpfcat as ecat
from ebpfcat.ebpfcat import (
    Device, EBPFTerminal, PacketDesc, SyncGroup, SyncManager, TerminalVar)
from ebpfcat.ethercat import EtherCat

IN_OFF, OUT_OFF = 0x1800, 0x1000


class World:
    def __init__(self, ec_cls=ecat.SimpleEtherCat, name="sim"):
        self.loop = vloop.VLoop()
        self.loop.__enter__()
        self._saved = (ecat.monotonic,)
        ecat.monotonic = self.loop.time
        self.models = []
        self.bus = bussim.Bus(())
        self.bus.terminals = self.models
        self.master = bussim.Master(self.bus, lambda: ec_cls(name), self.loop)
        self.ec = self.master.ec
        self.terminals = []
        SyncGroup.packet_index = 1000

    def close(self):
        # wind down politely: cancel everything and keep the bus going until
        # the finalisers (SAFE-OP requests, FMMU switch-off) have run
        try:
            for t in asyncio.all_tasks(self.loop):
                if t is not self.master.sendtask:
                    t.cancel()
            for _ in range(300):
                self.loop.run_until_idle()
                pend = [t for t in asyncio.all_tasks(self.loop)
                        if t is not self.master.sendtask and not t.done()]
                if not pend:
                    break
                if self.master.transport.inflight:
                    self.master.deliver(0)
                elif not self.loop.advance():
                    break
        except Exception:
            pass
        ecat.monotonic, = self._saved
        self.loop.shutdown()
        self.loop.__exit__(None, None, None)

    def add_terminal(self, in_sz, out_sz, use_fmmu=True, n_fmmu=4,
                     state=bussim.PREOP, cls=EBPFTerminal, station=None):
        i = len(self.models)
        station = station if station is not None else 100 + i
        model = bussim.Terminal(f"t{i}", station=station, n_fmmu=n_fmmu)
        model.al_state = state
        self.models.append(model)
        t = cls(self.ec)
        t.name = f"T{i}"
        t.position = station
        t.pdo_in_sz, t.pdo_out_sz = in_sz, out_sz
        t.pdo_in_off, t.pdo_out_off = IN_OFF, OUT_OFF
        t.fmmu_used = [None] * n_fmmu
        t.use_fmmu = use_fmmu
        t.pdos = {}
        t.model = model
        self.terminals.append(t)
        return t

    def run(self, fut, **kw):
        return self.master.run(fut, **kw)


class Recorder(Device):
    """slow device: records what it sees at update() and sets scripted
    outputs.  vars: list of (name, terminal, SyncManager, position, fmt)"""

    def __init__(self, links):
        self.links = links
        self.seen = []          # per update: {name: value} of IN variables
        self.script = None      # callable(cycle_no) -> {name: value}
        for name, term, sm, pos, fmt in links:
            setattr(self, name, PacketDesc(sm, pos, fmt).__get__(term, None))

    def update(self):
        vals = {}
        for name, term, sm, pos, fmt in self.links:
            if sm is SyncManager.IN:
                vals[name] = getattr(self, name)
        self.seen.append(vals)
        if self.script is not None:
            for name, v in self.script(len(self.seen)).items():
                setattr(self, name, v)


def recorder_class(names):
    return type("Rec", (Recorder,), {n: TerminalVar() for n in names})
