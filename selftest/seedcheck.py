#!/venv/bin/python
"""Confirm a seeded defect and run the checks against it.

  seedcheck.py SEEDDIR [--props C12,C13] [--tier quick] [--install NAME]

SEEDDIR contains patch.diff, demo.py, meta.json.  On a scratch copy of /repo
(outside /repo and /verif, removed afterwards):
  1. demo.py on the unmodified copy must exit 0,
  2. the patch must apply, the repository's tests must give 44 passed / 5 failed,
  3. demo.py on the patched copy must exit non-zero,
  4. each listed check (default: the property in meta.json) is run against the
     patched copy; exit 1 = caught.
With --install NAME the seed is copied to /verif/seeded/NAME/ and meta.json is
extended with what was run and found.
"""
import argparse
import json
import os
import re
import shutil
import subprocess
import sys
import tempfile

HERE = os.path.dirname(os.path.abspath(__file__))
VERIF = os.path.dirname(HERE)


def sh(cmd, cwd=None, env=None, timeout=1200):
    r = subprocess.run(cmd, cwd=cwd, env=env, capture_output=True, text=True,
                       timeout=timeout)
    return r.returncode, r.stdout, r.stderr


def main():
    ap = argparse.ArgumentParser()
    ap.add_argument("seeddir")
    ap.add_argument("--props")
    ap.add_argument("--tier")
    ap.add_argument("--install")
    a = ap.parse_args()
    sd = os.path.abspath(a.seeddir)
    meta = json.load(open(os.path.join(sd, "meta.json")))
    props = (a.props or meta.get("check_props")
             or meta["property"]).split(",")
    tier = a.tier or meta.get("check_tier") or "quick"
    tmp = tempfile.mkdtemp(prefix="ebpfcat-seed-")
    out = dict(seed=sd, props=props)
    try:
        dst = os.path.join(tmp, "repo")
        shutil.copytree("/repo", dst, ignore=shutil.ignore_patterns(
            ".git", "__pycache__", ".benchmarks"))
        shutil.copy(os.path.join(sd, "demo.py"), os.path.join(tmp, "demo.py"))
        env = dict(os.environ, PYTHONPATH=dst, PYTHONDONTWRITEBYTECODE="1")
        rc, so, se = sh(["/venv/bin/python", "demo.py"], cwd=tmp, env=env,
                        timeout=300)
        out["demo_before"] = rc
        rc, so, se = sh(["patch", "-p1", "-s", "-i",
                         os.path.join(sd, "patch.diff")], cwd=dst)
        out["patch_applies"] = rc == 0
        if rc:
            out["patch_error"] = (so + se)[-300:]
        rc, so, se = sh(["/venv/bin/python", "-m", "pytest", "-q", "-p",
                         "no:cacheprovider", "--timeout=900"], cwd=dst,
                        env=env)
        m = re.search(r"(\d+) failed, (\d+) passed", so)
        out["tests_after"] = f"{m.group(2)} passed, {m.group(1)} failed" \
            if m else so.strip().splitlines()[-1:]
        failed = sorted(re.findall(r"^FAILED (\S+)", so, re.M))
        out["failed_tests"] = failed
        rc, so, se = sh(["/venv/bin/python", "demo.py"], cwd=tmp, env=env,
                        timeout=300)
        out["demo_after"] = rc
        out["demo_after_tail"] = (so + se).strip().splitlines()[-2:]
        out["checks"] = {}
        for p in props:
            rc, so, se = sh([os.path.join(VERIF, "check"), p, "--tier", tier,
                             "--no-evidence"], cwd=VERIF,
                            env=dict(os.environ, EBPFCAT_SRC=dst),
                            timeout=3000)
            viol = [l for l in so.splitlines() if l.startswith("VIOLATION")]
            notes = []
            for v in viol[:3]:
                try:
                    rep = json.load(open(v.split("replay=")[1]))
                    notes.append(rep.get("note"))
                    os.remove(v.split("replay=")[1])
                except Exception:
                    pass
            for v in viol[3:]:
                try:
                    os.remove(v.split("replay=")[1])
                except Exception:
                    pass
            out["checks"][p] = dict(exit=rc, violations=len(viol),
                                    notes=notes,
                                    summary=so.strip().splitlines()[-1:]
                                    if so.strip() else se[-200:])
        ok = out["demo_before"] == 0 and out["patch_applies"] and \
            out["tests_after"] == "44 passed, 5 failed" and \
            out["demo_after"] != 0
        out["confirmed"] = ok
        out["caught_by"] = [p for p, c in out["checks"].items()
                            if c["exit"] == 1]
        print(json.dumps(out, indent=1))
        if a.install:
            tgt = os.path.join(VERIF, "seeded", a.install)
            os.makedirs(tgt, exist_ok=True)
            for f in ("patch.diff", "demo.py"):
                if os.path.abspath(sd) != os.path.abspath(tgt):
                    shutil.copy(os.path.join(sd, f), os.path.join(tgt, f))
            if a.props:
                meta["check_props"] = a.props
            if a.tier:
                meta["check_tier"] = a.tier
            meta["verified_by_lead"] = {k: out[k] for k in (
                "demo_before", "patch_applies", "tests_after", "demo_after",
                "confirmed", "caught_by", "checks")}
            meta["how_to_run"] = (
                "git -C /repo apply /verif/seeded/%s/patch.diff; ./check %s; "
                "git -C /repo checkout -- ." % (a.install, props[0]))
            json.dump(meta, open(os.path.join(tgt, "meta.json"), "w"),
                      indent=1)
        return 0 if ok else 1
    finally:
        shutil.rmtree(tmp, ignore_errors=True)


if __name__ == "__main__":
    sys.exit(main())
