"""Independent EtherCAT frame parser / serialiser (ETG.1000.4), no ebpfcat import.

A frame here is what ebpfcat hands to the transport: the EtherCAT header
(2 bytes) followed by datagrams, i.e. the Ethernet payload.
"""
import struct

NOP, APRD, APWR, APRW, FPRD, FPWR, FPRW, BRD, BWR, BRW, LRD, LWR, LRW, ARMW, \
    FRMW = range(15)
LOGICAL = (LRD, LWR, LRW)
MAX_PAYLOAD = 1500
MIN_PAYLOAD = 46


class ParseError(Exception):
    pass


class Datagram:
    __slots__ = ("cmd", "idx", "addr", "length", "more", "circ", "irq",
                 "data", "wkc", "hdr_pos", "data_pos", "wkc_pos")

    def __repr__(self):
        return (f"Dg(cmd={self.cmd} idx={self.idx} addr={self.addr:#x} "
                f"len={self.length} more={self.more} wkc={self.wkc} "
                f"@{self.hdr_pos})")

    @property
    def adp(self):
        return self.addr & 0xffff

    @property
    def ado(self):
        return self.addr >> 16


def parse(frame, strict=True):
    """parse an Ethernet payload into (declared_length, [Datagram])"""
    if len(frame) < 2:
        raise ParseError("no EtherCAT header")
    hdr, = struct.unpack_from("<H", frame, 0)
    length = hdr & 0x7ff
    typ = hdr >> 12
    if strict and typ != 1:
        raise ParseError(f"frame type {typ} != 1")
    if strict and hdr & 0x800:
        raise ParseError("reserved header bit set")
    if 2 + length > len(frame):
        raise ParseError(f"declared length {length} exceeds frame "
                         f"{len(frame) - 2}")
    pos = 2
    end = 2 + length
    out = []
    more = True
    while more:
        if pos + 12 > end:
            raise ParseError(f"datagram header at {pos} beyond declared "
                             f"length {length}")
        d = Datagram()
        d.hdr_pos = pos
        d.cmd, d.idx, d.addr, lf, d.irq = struct.unpack_from("<BBIHH", frame,
                                                             pos)
        d.length = lf & 0x7ff
        d.circ = bool(lf & 0x4000)
        d.more = more = bool(lf & 0x8000)
        if strict and lf & 0x3800:
            raise ParseError(f"reserved length bits set at {pos}")
        d.data_pos = pos + 10
        d.wkc_pos = d.data_pos + d.length
        if d.wkc_pos + 2 > end:
            raise ParseError(f"datagram at {pos} len {d.length} beyond "
                             f"declared length {length}")
        d.data = bytes(frame[d.data_pos:d.wkc_pos])
        d.wkc, = struct.unpack_from("<H", frame, d.wkc_pos)
        out.append(d)
        pos = d.wkc_pos + 2
    if strict and pos != end:
        raise ParseError(f"datagrams end at {pos}, header says {end}")
    return length, out


def build(datagrams, pad=True, padbyte=b"\0"):
    """serialise [(cmd, idx, addr32, data, wkc)] -> payload bytes"""
    body = []
    for i, (cmd, idx, addr, data, wkc) in enumerate(datagrams):
        lf = len(data) | (0x8000 if i < len(datagrams) - 1 else 0)
        body.append(struct.pack("<BBIHH", cmd, idx & 0xff,
                                addr & 0xffffffff, lf, 0))
        body.append(bytes(data))
        body.append(struct.pack("<H", wkc))
    body = b"".join(body)
    ret = struct.pack("<H", len(body) | 0x1000) + body
    if pad and len(ret) < MIN_PAYLOAD:
        ret += padbyte * (MIN_PAYLOAD - len(ret))
    return ret


def addr32(cmd, *address):
    """the 32-bit address field for position/node (adp, ado) or logical"""
    if len(address) == 2:
        adp, ado = address
        return (adp & 0xffff) | ((ado & 0xffff) << 16)
    a, = address
    return a & 0xffffffff
