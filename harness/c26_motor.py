"""C26 - the fast Motor device commands exactly its limited control law.

The real `Motor.program` is generated inside a real `FastSyncGroup` over the
bundled terminal classes a Motor can be linked to with a 16-bit velocity
output - EL7041 (one channel, own 'i' step counter), EL7332 channel 1 and
channel 2 (Struct channels, no encoder of their own) - with the encoder of the
bundled EL5042 (two Struct channels, 'q' position) where the law needs one,
each faked by hand like ethercat_test does (position, PDO table, sizes).  Only
the group program runs (in the interpreter, a subset also in the kernel), once
per input vector.

Where the inputs and outputs are is NOT taken from the library's allocation
(`pdo_assign`, `PacketVar.fmt_addr`): the assembled frame of the group is
parsed (mc/ecparse.py) and a terminal's process data are the data of the
datagram the terminal itself would react to - FPRD / FPWR addressed to its
position and sync-manager address when it is used without FMMU, otherwise the
part of the LRD / LWR datagram at the logical address its FMMU is programmed to
(`fmmu_maps`, what `map_fmmu` sends to the terminal) - and a PDO entry is
found in there through the terminal's PDO table (written here, from the
terminals' documented mapping) with the CoE index of the Motor's channel
computed here.  Inputs are planted at those places (the other channels, the
other terminals and all unused bits get different "decoy" values), the velocity
output is read back from the channel's velocity word and compared with the
reference law written from the statement, and every byte of the frame's
output data that is not the Motor's own velocity word / enable bit must be
unchanged.
"""
import struct

from mc import bpfvm, core, ecparse, fastsim, kern
from ebpfcat.devices import AnalogInput, DigitalInput, Motor
from ebpfcat.ethercat import SyncManager
from ebpfcat.terminals import EK1814, EL4104, EL5042, EL7041, EL7332

PROP = "C26"
LEVEL = "model_checking"
RULE = ("full product of boundary alphabets for velocity limit x previous "
        "velocity x acceleration limit x gain x switches x enable, and for "
        "each the distances target-position that put the desired velocity "
        "on / just below / just above every threshold of the reference law "
        "(acceleration window, velocity limit, zero, 16/32/64-bit edges), each "
        "realised by several (target, position) pairs, on EL7041 (own step "
        "counter, FMMU) and EL7041 + EL5042 (directly addressed); the same "
        "enumeration with a reduced alphabet on the matrix {EL7041, EL7041 + "
        "EL5042, EL7332 channel 1, EL7332 channel 2, one Motor per EL7332 "
        "channel in one group} x {FMMU, direct, motor terminal direct and "
        "encoder by FMMU} x {alone, another terminal before, behind, both}; "
        "every vector runs the real generated Motor bytecode; inputs and "
        "outputs are located by parsing the datagrams of the assembled frame "
        "and the terminal's PDO table, not through the library's allocation; "
        "all other channels / terminals carry decoy values and every other "
        "output byte must be unchanged; non-trivial = inside the statement's "
        "preconditions")

KF_WRAP = "C26-int16-wrap-before-velocity-clamp"
I64 = (-(1 << 63), (1 << 63) - 1)
U32 = (1 << 32) - 1
IN, OUT = SyncManager.IN, SyncManager.OUT


def sx(v, bits):
    v &= (1 << bits) - 1
    return v - (1 << bits) if v >> (bits - 1) else v


# ------------------------------------------------------------ reference law
def law(G, T, P, A, V, W, lo, hi, wrap16=False):
    """the statement, literally.  wrap16 = the one documented deviation: the
    acceleration-limited value passes through the 16-bit output before the
    velocity limit is applied"""
    desired = G * (T - P)
    v = min(max(desired, W - A), W + A)
    if wrap16:
        v = sx(v, 16)
    v = min(max(v, -V), V)
    if lo and v < 0:
        v = 0
    if hi and v > 0:
        v = 0
    return v


def consequences(out, A, V, W, lo, hi):
    """the three consequences, judged on an output value"""
    bad = []
    if abs(out) > V:
        bad.append("command exceeds the velocity limit")
    if (lo and out < 0) or (hi and out > 0):
        bad.append("command drives into an active limit switch")
    if abs(out - W) > A and out != 0:
        bad.append("command changes by more than the acceleration limit "
                   "without stopping")
    return bad


# ------------------------------------------------------------ the terminals
# PDO tables as parse_pdos would read them from the terminals (default
# mapping): (index, subindex) -> (sync manager, byte offset, bit | format).
# Written here, independent of the ProcessDesc attributes of the classes.
def pdos_el7041():
    return {
        (0x7010, 1): (OUT, 0, 0),       # enable
        (0x7010, 2): (OUT, 0, 1),       # reset
        (0x7010, 3): (OUT, 0, 2),       # reduced current
        (0x7010, 0x21): (OUT, 2, "H"),  # velocity
        (0x6010, 1): (IN, 0, 0),
        (0x6010, 2): (IN, 0, 1),
        (0x6010, 4): (IN, 0, 3),
        (0x6010, 0xc): (IN, 1, 3),      # digital input 1
        (0x6010, 0xd): (IN, 1, 4),      # digital input 2
        (0x6000, 0x11): (IN, 2, "I"),   # counter value
    }


def pdos_el7332():
    p = {}
    for ch in range(2):
        o = 0x10 * ch
        p.update({
            (0x6020 + o, 5): (IN, 2 * ch, 4),          # moving positive
            (0x6020 + o, 6): (IN, 2 * ch, 5),          # moving negative
            (0x6020 + o, 0xc): (IN, 2 * ch + 1, 3),    # digital input 1
            (0x6020 + o, 0xd): (IN, 2 * ch + 1, 4),    # digital input 2
            (0x7020 + o, 1): (OUT, 4 * ch, 0),         # enable
            (0x7020 + o, 0x21): (OUT, 4 * ch + 2, "H"),  # velocity
        })
    return p


def pdos_el5042():
    p = {}
    for ch in range(2):
        o = 0x10 * ch
        p.update({
            (0x6000 + o, 1): (IN, 10 * ch, 0),
            (0x6000 + o, 2): (IN, 10 * ch, 1),
            (0x6000 + o, 0xE): (IN, 10 * ch + 1, 5),
            (0x6000 + o, 0x11): (IN, 10 * ch + 2, "Q"),   # position
        })
    return p


def pdos_el4104():
    return {(0x7000 + 0x10 * k, 1): (OUT, 2 * k, "H") for k in range(4)}


def pdos_ek1814():
    p = {(0x6000 + 0x10 * k, 1): (IN, 0, k) for k in range(4)}
    p.update({(0x7080 + 0x10 * k, 1): (OUT, 0, k) for k in range(4)})
    return p


# what a Motor channel is made of, by CoE index (the documented meaning of
# the objects; channel n of a multi-channel terminal is 0x10 * (n - 1)
# further up): name -> (index, subindex, format the law reads it in | None)
def channel_objects(kind, ch):
    if kind == "el7041":
        return dict(velocity=(0x7010, 0x21, "h"), enable=(0x7010, 1, None),
                    high=(0x6010, 0xc, None), low=(0x6010, 0xd, None),
                    encoder=(0x6000, 0x11, "i"))
    o = 0x10 * (ch - 1)
    return dict(velocity=(0x7020 + o, 0x21, "h"), enable=(0x7020 + o, 1, None),
                low=(0x6020 + o, 0xc, None), high=(0x6020 + o, 0xd, None),
                encoder=None)


def encoder_object(ch):
    return (0x6000 + 0x10 * (ch - 1), 0x11, "q")


# ------------------------------------------------------------ configurations
def _spec(motor, channels, enc, mfmmu, efmmu, neigh):
    return dict(motor=motor, channels=tuple(channels), enc=enc,
                mfmmu=mfmmu, efmmu=efmmu, neigh=neigh)


# the two configurations that get the full alphabets (and the two further
# addressing variants of the thorough tier), under their historic names
MAIN = {
    "el7041-i-fmmu": _spec("el7041", (1,), "own", True, True, "none"),
    "el7041+enc-q-direct": _spec("el7041", (1,), "el5042", False, False,
                                 "none"),
    "el7041-i-direct": _spec("el7041", (1,), "own", False, False, "none"),
    "el7041+enc-q-fmmu": _spec("el7041", (1,), "el5042", True, True, "none"),
}


def matrix_configs():
    out = {}
    for motor, chs, enc in (("el7041", (1,), "own"),
                            ("el7041", (1,), "el5042"),
                            ("el7332", (1,), "el5042"),
                            ("el7332", (2,), "el5042"),
                            ("el7332", (1, 2), "el5042")):
        for addr, (mf, ef) in (("fmmu", (True, True)),
                               ("direct", (False, False)),
                               ("mixed", (False, True))):
            if addr == "mixed" and enc == "own":
                continue
            for neigh in ("none", "before", "behind", "both"):
                name = (f"{motor}.ch{''.join(map(str, chs))}"
                        f"{'+el5042' if enc != 'own' else ''}"
                        f"|{addr}|{neigh}")
                out[name] = _spec(motor, chs, enc, mf, ef, neigh)
    return out


CONFIGS = dict(MAIN)
CONFIGS.update(matrix_configs())


class LayoutProblem(Exception):
    """the process data of a terminal are in no datagram of the frame, or
    the device variables of a motor have no place of their own in the map"""


def locate(sg, dgs, t, sm):
    """frame position (Ethernet frame) of the first byte of terminal t's
    process data of sync manager sm, from the datagrams of the assembled
    frame: what the terminal itself would read / fill in"""
    size = t.pdo_in_sz if sm is IN else t.pdo_out_sz
    if t.use_fmmu:
        try:
            logical = sg.fmmu_maps[t][sm]
        except KeyError:
            raise LayoutProblem(
                f"terminal at position {t.position}: no logical address for "
                f"its {sm.name} sync manager") from None
        cmds = (ecparse.LRD, ecparse.LRW) if sm is IN \
            else (ecparse.LWR, ecparse.LRW)
        for d in dgs:
            if d.cmd in cmds and d.addr <= logical \
                    and logical + size <= d.addr + d.length:
                return fastsim.ETH + d.data_pos + logical - d.addr
        raise LayoutProblem(
            f"terminal at position {t.position}: no logical datagram covers "
            f"{logical:#x}..+{size} ({sm.name})")
    off = t.pdo_in_off if sm is IN else t.pdo_out_off
    cmds = (ecparse.FPRD, ecparse.FPRW) if sm is IN \
        else (ecparse.FPWR, ecparse.FPRW)
    for d in dgs:
        if d.cmd in cmds and d.adp == t.position and d.ado == off \
                and d.length >= size:
            return fastsim.ETH + d.data_pos
    raise LayoutProblem(
        f"terminal at position {t.position}: no datagram addressed to its "
        f"{sm.name} sync manager at {off:#x}")


class Field:
    """one PDO entry in the frame: byte position, bit number or format"""
    __slots__ = ("pos", "bit", "fmt")

    def __init__(self, base, table, index, subindex, fmt):
        sm, off, size = table[index, subindex]
        self.pos = base[sm] + off
        self.bit = size if isinstance(size, int) else None
        self.fmt = fmt if fmt is not None else \
            (None if isinstance(size, int) else size)

    def put(self, f, v):
        if self.bit is not None:
            if v:
                f[self.pos] |= 1 << self.bit
            else:
                f[self.pos] &= ~(1 << self.bit) & 0xff
        else:
            struct.pack_into("<" + self.fmt, f, self.pos, v)

    def get(self, f):
        if self.bit is not None:
            return (f[self.pos] >> self.bit) & 1
        return struct.unpack_from("<" + self.fmt, f, self.pos)[0]


class Rig:
    """one terminal configuration with the real Motor program(s)"""

    def __init__(self, name, kernel):
        self.name = name
        spec = self.spec = CONFIGS[name]
        self.kernel = kernel
        ec = fastsim.new_ec()
        before = spec["neigh"] in ("before", "both")
        behind = spec["neigh"] in ("behind", "both")
        mpos, epos = (6, 2) if before else (3, 7)
        devices, self.terms = [], []

        def add(cls, pos, isz, osz, fmmu, pdos, ioff, ooff):
            t = fastsim.fake_terminal(ec, cls, pos, isz, osz, fmmu, pdos,
                                      in_off=ioff, out_off=ooff)
            self.terms.append(t)
            return t
        if spec["motor"] == "el7041":
            tm = add(EL7041, mpos, 6, 4, spec["mfmmu"], pdos_el7041(),
                     0x1180, 0x1100)
            chans = {1: tm}
            nch = 1
        else:
            tm = add(EL7332, mpos, 4, 8, spec["mfmmu"], pdos_el7332(),
                     0x1180, 0x1100)
            chans = {1: tm.channel1, 2: tm.channel2}
            nch = 2
        te = None
        if spec["enc"] == "el5042":
            te = add(EL5042, epos, 20, 0, spec["efmmu"], pdos_el5042(),
                     0x1000, 0)
            encs = {1: te.channel1, 2: te.channel2}
        self.motors = []
        for ch in spec["channels"]:
            m = Motor()
            # the application configures the device before it is put into
            # its sync group (small numbers, different per variable)
            for k, name in enumerate(("proportional", "max_acceleration",
                                      "max_velocity", "target",
                                      "set_enable")):
                setattr(m, name, 4 * ((k + len(self.motors)) % 5))
            c = chans[ch]
            m.velocity = c.velocity
            m.low_switch = c.low_switch
            m.high_switch = c.high_switch
            m.enable = c.enable
            m.encoder = encs[ch].position if te is not None \
                else tm.stepcounter
            if m.__dict__["velocity"].size != "h":
                raise core.Internal("the velocity output is not the 16-bit "
                                    "'h' the statement is about")
            self.motors.append(m)
            devices.append(m)
        # the other terminals of the group: read only by their devices, so
        # whatever changes in their outputs was done by somebody else
        if before:
            tb = add(EL4104, 1, 0, 8, spec["mfmmu"], pdos_el4104(),
                     0, 0x1800)
            devices.insert(0, AnalogInput(tb.ch2_value))
        if behind:
            ta = add(EK1814, 9, 1, 1, spec["efmmu"], pdos_ek1814(),
                     0x1001, 0x0f00)
            devices.append(DigitalInput(ta.channel2))
            devices.append(DigitalInput(ta.channel6))
        g = self.group = fastsim.FastGroup(devices, ec, kernel, index=9)
        self.template = bytearray(fastsim.ETH_HEADER + g.sterile)
        # ---- the motors' device variables: 4 bytes each, inside the map,
        # no two at the same place
        taken = {}
        for i, m in enumerate(self.motors):
            for name in ("proportional", "target", "max_acceleration",
                         "max_velocity", "set_enable"):
                off = m.__dict__.get(name)
                if not isinstance(off, int) or isinstance(off, bool) or \
                        not 0 <= off <= len(g.area) - 4:
                    raise LayoutProblem(
                        f"device variable {name} of motor {i} has no place "
                        f"in the group's map ({off!r}, map size "
                        f"{len(g.area)})")
                for b in range(off, off + 4):
                    if b in taken:
                        raise LayoutProblem(
                            f"device variables {name} of motor {i} and "
                            f"{taken[b][1]} of motor {taken[b][0]} overlap "
                            f"(byte {b} of the group's map)")
                    taken[b] = (i, name)
        # ---- where things are, from the frame itself
        try:
            _, dgs = ecparse.parse(g.assembled)
        except ecparse.ParseError as e:
            raise LayoutProblem(f"the group's frame does not parse: {e}")
        self.areas = {}          # (terminal number, sm) -> (start, size)
        bases = {}
        for n, t in enumerate(self.terms):
            b = {}
            for sm, size in ((IN, t.pdo_in_sz), (OUT, t.pdo_out_sz)):
                if size:
                    b[sm] = locate(g.sg, dgs, t, sm)
                    self.areas[n, sm] = (b[sm], size)
            bases[t] = b
        self.out_bytes = set()
        for (n, sm), (s, size) in self.areas.items():
            if sm is OUT:
                self.out_bytes.update(range(s, s + size))
        # command and working counter of the write datagrams (activate)
        self.activate_bytes = set()
        for d in dgs[1:]:
            if d.cmd in (ecparse.FPWR, ecparse.LWR, ecparse.FPRW,
                         ecparse.LRW):
                self.activate_bytes.update(
                    fastsim.ETH + p for p in
                    (d.hdr_pos, d.wkc_pos, d.wkc_pos + 1))
        kind = spec["motor"]

        def chan(ch):
            objs = channel_objects(kind, ch)
            f = {k: Field(bases[tm], tm.pdos, *objs[k])
                 for k in ("velocity", "enable", "low", "high")}
            if objs["encoder"] is not None and te is None:
                f["encoder"] = Field(bases[tm], tm.pdos, *objs["encoder"])
            elif te is not None:
                f["encoder"] = Field(bases[te], te.pdos, *encoder_object(ch))
            return f
        self.chan = {ch: chan(ch) for ch in range(1, nch + 1)}
        self.enc_only = {}       # encoder channels no motor channel has
        if te is not None:
            for ch in (1, 2):
                if ch not in self.chan:
                    self.enc_only[ch] = Field(bases[te], te.pdos,
                                              *encoder_object(ch))
        self.encfmt = self.chan[spec["channels"][0]]["encoder"].fmt
        # the historic attributes (first motor)
        self.motor = self.motors[0]
        self.rrig = None
        # first instruction of the device code = first access after activate;
        # everything from the first load of set_enable on is Motor.program
        self.motor_start = None
        off = self.motor.__dict__["set_enable"]
        for n, ins in enumerate(g.insns):
            if ins and ins[0] == 0x61 and ins[2] == 7 and ins[3] == off:
                self.motor_start = n
                break
        if self.motor_start is None:
            raise core.Internal("cannot locate Motor.program in the bytecode")

    def enc_range(self):
        bits = 8 * struct.calcsize("<" + self.encfmt)
        if self.encfmt.islower():
            return -(1 << (bits - 1)), (1 << (bits - 1)) - 1
        return 0, (1 << bits) - 1

    def plant(self, group, motors, vecs):
        """frame with the inputs of vecs[i] at the channel of motor i;
        every other channel, terminal and bit carries something else"""
        area = group.area
        area[:len(self.group.area)] = bytes(len(self.group.area))
        group.set_wkc_errors(1)
        f = bytearray(self.template)
        for (n, sm), (s, size) in sorted(
                self.areas.items(), key=lambda kv: kv[1]):
            for i in range(size):
                f[s + i] = ((0xa5 if sm is OUT else 0x3c) + 37 * i
                            + 11 * n) & 0xff
        G, T, P, A, V, W, lo, hi, en = vecs[0]
        elo, ehi = self.enc_range()
        # decoys first: all channels, derived from the first vector
        for ch, c in self.chan.items():
            c["velocity"].put(f, sx(W ^ 0x5a5a, 16))
            c["low"].put(f, 1 - lo)
            c["high"].put(f, 1 - hi)
            c["enable"].put(f, 1 - (en & 1))
            if "encoder" in c:
                c["encoder"].put(f, P ^ 0x0f0f0f0f)
        for ch, e in self.enc_only.items():
            e.put(f, P ^ 0x0f0f0f0f)
        for m, ch, vec in zip(motors, self.spec["channels"], vecs):
            G, T, P, A, V, W, lo, hi, en = vec
            for name, val in (("proportional", G), ("target", T),
                              ("max_acceleration", A), ("max_velocity", V),
                              ("set_enable", en)):
                struct.pack_into("<I", area, m.__dict__[name], val)
            c = self.chan[ch]
            c["velocity"].put(f, W)
            c["encoder"].put(f, P)
            c["low"].put(f, lo)
            c["high"].put(f, hi)
        return f

    def run(self, vecs, trace=False):
        """-> (out velocities, frame before, frame after, path)"""
        f0 = self.plant(self.group, self.motors, vecs)
        f = bytearray(f0)
        vm = bpfvm.VM(self.kernel, self.group.insns, f)
        if trace:
            vm.trace_pcs = []
        vm.run()
        if vm.retval != bpfvm.XDP_TX:
            raise bpfvm.Trap(f"group program returned {vm.retval}")
        outs = [self.chan[ch]["velocity"].get(f)
                for ch in self.spec["channels"]]
        path = None
        if trace:
            path = tuple(pc for pc in vm.trace_pcs if pc >= self.motor_start)
        return outs, f0, f, path

    def _masks(self):
        """little-endian bit masks over the frame: output data that is not a
        Motor's own velocity word / enable bit; everything else that is
        neither a Motor's own nor rewritten by activate"""
        n = len(self.template)
        own = bytearray(n)
        for ch in self.spec["channels"]:
            c = self.chan[ch]
            own[c["velocity"].pos] = own[c["velocity"].pos + 1] = 0xff
            own[c["enable"].pos] |= 1 << c["enable"].bit
        out, other = bytearray(n), bytearray(n)
        for i in range(n):
            if i in self.out_bytes:
                out[i] = 0xff & ~own[i]
            elif i not in self.activate_bytes:
                other[i] = 0xff & ~own[i]
        self._out_mask = int.from_bytes(out, "little")
        self._other_mask = int.from_bytes(other, "little")

    def foreign_changes(self, f0, f1):
        """bytes of the frame's output data that changed and are not the
        velocity word / the enable bit of a Motor's channel; and the other
        changed bytes (inputs, padding) apart from what activate rewrites"""
        if not hasattr(self, "_out_mask"):
            self._masks()
        d = int.from_bytes(f0, "little") ^ int.from_bytes(f1, "little")

        def positions(x):
            b = x.to_bytes(len(f0), "little")
            return [i for i in range(len(b)) if b[i]]
        o, x = d & self._out_mask, d & self._other_mask
        return (positions(o) if o else []), (positions(x) if x else [])

    def where(self, i):
        for (n, sm), (s, size) in self.areas.items():
            if s <= i < s + size:
                t = self.terms[n]
                return (f"byte {i - s} of the {sm.name} data of "
                        f"{type(t).__name__} at position {t.position}")
        return f"frame byte {i}"

    # -- real kernel
    def load_real(self):
        r = Rig(self.name, None)     # the same rig over real kernel maps
        r.group.load_real()
        self.rrig = r
        return r

    def run_real(self, vecs):
        r = self.rrig
        f0 = r.plant(r.group, r.motors, vecs)
        ret, out = kern.test_run(r.group.prog_fd, f0)
        return ret, bytes(out)


# ------------------------------------------------------------ alphabets
def dedupe(xs):
    out = []
    for x in xs:
        if x not in out:
            out.append(x)
    return out


def alphabets(ctx):
    import random
    rnd = random.Random(ctx.seed * 7919 + 26)
    if ctx.quick:
        Vs = [0, 1, 1000, 32767]
        As = [0, 1, 100, 2000, 32768, 65535, U32]
        Gs = [0, 1, 3, 1000, U32]
        sw = [(0, 0, 1), (1, 0, 1), (0, 1, 0), (1, 1, 1)]
    else:
        Vs = [0, 1, 100, 1000, 32766, 32767]
        As = [0, 1, 100, 1000, 2000, 32767, 32768, 40000, 65536,
              (1 << 31) - 1, U32]
        Gs = [0, 1, 2, 3, 1000, 65536, U32]
        sw = [(0, 0, 1), (1, 0, 1), (0, 1, 0), (1, 1, 1), (0, 0, 0)]
    Vs.append(rnd.randrange(3, 32767))
    As.append(rnd.randrange(3, 1 << 17))
    Gs.append(rnd.randrange(4, 1 << 16))
    return dedupe(Vs), dedupe(As), dedupe(Gs), sw


def matrix_alphabets(ctx):
    """the reduced alphabet of the configuration matrix"""
    import random
    rnd = random.Random(ctx.seed * 7919 + 2626)
    sw = [(0, 0, 1), (1, 0, 1), (0, 1, 0), (1, 1, 1)]
    if ctx.quick:
        Vs, As, Gs = [1000, 32767], [1, 2000], [1, 3]
    else:
        Vs, As, Gs = [1, 1000, 32767], [0, 1, 2000, 65535, U32], [1, 3, 1000]
    Vs.append(rnd.randrange(3, 32767))
    if not ctx.quick:
        As.append(rnd.randrange(3, 1 << 17))
        Gs.append(rnd.randrange(4, 1 << 16))
    return dedupe(Vs), dedupe(As), dedupe(Gs), sw


def prev_values(V, quick):
    c = [0, V, -V, 1, -1, V - 1, 1 - V] if not quick else \
        [0, V, -V, 1, 1 - V]
    return dedupe([w for w in c if abs(w) <= V])


def distances(G, A, V, W, quick):
    """target-position values that put G*(T-P) on every threshold of the
    law (and one step to either side)"""
    thr = [W + A, W - A, V, -V, 0, 32767, -32768, 32768, -32769,
           65535, 65536, -65536, (1 << 31) - 1, -(1 << 31), 1 << 32,
           I64[1], I64[0]]
    if quick:
        thr = [W + A, W - A, V, -V, 0, 32768, -32769, I64[1], I64[0]]
    ds = []
    for th in thr:
        if G == 0:
            ds += [0, 1, -1]
            continue
        q = th // G
        ds += [q - 1, q, q + 1] if not quick or th in (W + A, W - A) \
            else [q, q + 1]
    ds += [1, -1, (1 << 31), -(1 << 31) + 1]
    return dedupe(ds)


def matrix_distances(G, A, V, W):
    ds = []
    for th in (W + A, W - A, V, -V, 0):
        q = th // G
        ds += [q, q + 1]
    return dedupe(ds + [-1, 70000, -70000])


def decompositions(D, lo, hi, quick):
    """(target, position) pairs with target - position == D, target a u32,
    position within the encoder's range"""
    cands = [0, 1, -1, 12345, lo, hi, (1 << 31) - 1, -(1 << 31)]
    out = []
    for P in cands:
        T = P + D
        if 0 <= T <= U32 and lo <= P <= hi:
            out.append((T, P))
    for T in (0, U32, 1 << 31):
        P = T - D
        if lo <= P <= hi:
            out.append((T, P))
    out = dedupe(out)
    return out[:2] if quick else out[:3]


def in_precondition(G, T, P, A, V, W):
    if not 0 <= V <= 32767 or abs(W) > V:
        return False
    return I64[0] <= G * (T - P) <= I64[1]


# ------------------------------------------------------------ work
def _report(res, case, kind, e, o, kf, note):
    seen = res.__dict__.setdefault("_c26_sigs", {})
    sig = core.digest([kind, e.split(" (")[0][:60]
                       if kind not in ("law", "frame") else kind, str(kf)])
    res.count("wrong_results")
    # keep a few reproducers per signature and worker chunk, count all
    seen[sig] = seen.get(sig, 0) + 1
    if seen[sig] > 3:
        res.count("violations_not_stored_same_signature")
        return
    res.violation(case, e, o, kf=kf, sig=sig, note=note)


def judge(rig, vecs, res, kernel_check=False, paths=None):
    """vecs: one input vector per Motor of the rig"""
    vecs = [tuple(v) for v in vecs]
    res.count("evaluations")
    case = dict(config=rig.name, vectors=[list(v) for v in vecs])
    try:
        outs, f0, f1, path = rig.run(vecs, trace=paths is not None)
    except bpfvm.Trap as t:
        res.violation(case, "program runs", str(t),
                      sig=core.digest(["trap", str(t)[:40]]),
                      note="Motor program traps")
        return
    if paths is not None:
        paths.add(path)
    if kernel_check:
        ret, kout = rig.run_real(vecs)
        res.count("kernel_validated")
        if ret != bpfvm.XDP_TX or kout != bytes(f1):
            raise core.Internal(f"VM/kernel disagreement on {case}: "
                                f"vm={bytes(f1).hex()} kernel={kout.hex()}")
    judged = 0
    for n, (vec, out) in enumerate(zip(vecs, outs)):
        G, T, P, A, V, W, lo, hi, en = vec
        ch = rig.spec["channels"][n]
        mcase = dict(case, motor=n, channel=ch, gain=G, target=T, position=P,
                     acc=A, vmax=V, prev=W, low=lo, high=hi, enable=en)
        if not in_precondition(G, T, P, A, V, W):
            res.count("outside_precondition")
            res.outcomes.add("outside precondition")
            continue
        judged += 1
        exp = law(G, T, P, A, V, W, lo, hi)
        res.nontrivial.add(core.digest([rig.name, n, vec], 10))
        desired = G * (T - P)
        shape = ("acc+" if desired > W + A else "acc-" if desired < W - A
                 else "free",
                 "vel" if abs(min(max(desired, W - A), W + A)) > V else "in",
                 "stop" if exp == 0 and (lo or hi) else "go")
        wrong = []
        if out != exp:
            wrong.append(("law", f"velocity {exp}", f"velocity {out}"))
        for c in consequences(out, A, V, W, lo, hi):
            wrong.append(("consequence",
                          "holds: " + c.replace("command ", "no "),
                          f"{c} (velocity {out}, previous {W})"))
        if not wrong:
            res.outcomes.add(("ok",) + shape)
            continue
        kf = None
        if out == law(G, T, P, A, V, W, lo, hi, wrap16=True):
            v1 = min(max(desired, W - A), W + A)
            if not -32768 <= v1 <= 32767:
                kf = KF_WRAP
        res.outcomes.add(("wrong", str(kf)) + shape)
        where = (f" in the velocity word of channel {ch} of the "
                 f"{rig.spec['motor'].upper()}")
        for kind, e, o in wrong:
            _report(res, dict(mcase, desired=desired), kind, e,
                    o + (where if kind == "law" else ""), kf,
                    "wrong velocity" if kind == "law" else
                    "consequence violated")
    # the frame condition: nobody else's outputs are touched
    outs_changed, others = rig.foreign_changes(f0, f1)
    if others:
        res.count("other_frame_bytes_changed")
    if outs_changed and judged:
        i = outs_changed[0]
        _report(res, dict(case, changed=outs_changed), "frame",
                "every output byte that is not the velocity word / enable "
                "bit of a Motor's channel unchanged",
                f"{rig.where(i)} changed from {f0[i]:#04x} to {f1[i]:#04x}"
                + (f" (and {len(outs_changed) - 1} more)"
                   if len(outs_changed) > 1 else ""),
                None, "output data outside the Motor's channel changed")


_RIGS = {}


def get_rig(name):
    r = _RIGS.get(name)
    if r is None:
        fastsim.reset_globals()
        r = _RIGS[name] = Rig(name, bpfvm.Kernel())
        r.rrig = None
        if kern.available():
            try:
                r.load_real()
            except kern.LoadError as e:
                r.rrig = None
                r.load_error = e.log[-300:]
    return r


def _rig_or_report(name, res):
    """the rig, or None after reporting that the frame of the configuration
    does not contain the process data where the terminals expect them"""
    try:
        return get_rig(name)
    except LayoutProblem as e:
        res.count("evaluations")
        res.violation(dict(config=name), "the process data of every terminal "
                      "of the group are in a datagram the terminal reacts to",
                      str(e), sig=core.digest(["layout", name.split("|")[0]]),
                      note="process data not in the frame")
        return None


def work(item, res):
    if item[0] == "matrix":
        return work_matrix(item, res)
    name, V, A, G, sws, quick, kevery = item
    rig = _rig_or_report(name, res)
    if rig is None:
        return
    lo_, hi_ = rig.enc_range()
    paths = set()
    n = 0
    for W in prev_values(V, quick):
        for D in distances(G, A, V, W, quick):
            for T, P in decompositions(D, lo_, hi_, quick):
                for lo, hi, en in sws:
                    n += 1
                    judge(rig, [(G, T, P, A, V, W, lo, hi, en)], res,
                          kernel_check=rig.rrig is not None
                          and n % kevery == 0, paths=paths)
    # outside the precondition (counted, not judged): limit beyond the
    # output's range, previous velocity beyond the limit
    for V2, W2 in ((32768, 0), (65535, 7), (V, min(V + 1, 32767))):
        judge(rig, [(G, 5, 2, A, V2, W2, 0, 0, 1)], res, paths=paths)
    res.cov.setdefault("paths", set()).update(
        (name, core.digest(p, 10)) for p in paths)
    res.cov.setdefault("branch_outcomes", set()).update(
        (name, a, b) for p in paths for a, b in zip(p, p[1:])
        if b != a + 1 and not (rig.group.insns[a]
                               and rig.group.insns[a][0] == 0x18))
    res.cov.setdefault("branch_fallthrough", set()).update(
        (name, a) for p in paths for a, b in zip(p, p[1:]) if b == a + 1)


def work_matrix(item, res):
    """one configuration of the matrix with the reduced alphabet; a group
    with two Motors gets, for the second one, the vector the first one had
    before (so both channels see the whole alphabet, with different values
    at the same time)"""
    _, name, Vs, As, Gs, sws, kevery = item
    rig = _rig_or_report(name, res)
    if rig is None:
        return
    lo_, hi_ = rig.enc_range()
    nm = len(rig.motors)
    hist = [(2, 5000, 1000, 50, 3000, 700, 0, 0, 1)] * (nm - 1)
    n = 0
    for V in Vs:
        for A in As:
            for G in Gs:
                for W in dedupe([0, V, 1 - V]):
                    for D in matrix_distances(G, A, V, W):
                        tp = decompositions(D, lo_, hi_, True)
                        if not tp:      # not reachable with this encoder
                            continue
                        T, P = tp[0]
                        for lo, hi, en in sws:
                            n += 1
                            vec = (G, T, P, A, V, W, lo, hi, en)
                            judge(rig, [vec] + hist, res,
                                  kernel_check=rig.rrig is not None
                                  and n % kevery == 0)
                            if nm > 1:
                                hist = ([vec] + hist)[:nm - 1]
    res.cov.setdefault("matrix_configs_run", set()).add(name)


def cond_branches(rig):
    """pcs of the conditional jumps inside Motor.program"""
    out = []
    for n, ins in enumerate(rig.group.insns):
        if ins is None or n < rig.motor_start:
            continue
        op = ins[0]
        if (op & 7) in (5, 6) and (op & 0xf0) not in (0x00, 0x80, 0x90):
            out.append(n)
    return out


def run(ctx):
    Vs, As, Gs, sw = alphabets(ctx)
    names = list(MAIN)[:2] if ctx.quick else list(MAIN)
    kevery = 53
    items = [(name, V, A, G, sw, ctx.quick, kevery)
             for name in names[:2] for V in Vs for A in As for G in Gs]
    if not ctx.quick:
        # the two remaining addressing variants get the quick alphabets
        qctx = core.Ctx(ctx.prop, "quick", ctx.seed, ctx.workers)
        qV, qA, qG, qsw = alphabets(qctx)
        items += [(name, V, A, G, qsw, True, kevery)
                  for name in names[2:] for V in qV for A in qA for G in qG]
    mV, mA, mG, msw = matrix_alphabets(ctx)
    matrix = list(matrix_configs())
    items += [("matrix", name, mV, mA, mG, msw, kevery) for name in matrix]
    res = core.pmap(ctx, work, items, chunk=2)
    res.cov["states"] = len(res.nontrivial)
    res.cov["transitions"] = res.cov.get("evaluations", 0)
    res.cov["traces_validated_against_impl"] = res.cov.get("evaluations", 0)
    res.cov["kernel_available"] = kern.available()
    paths = res.cov.pop("paths", set())
    taken = res.cov.pop("branch_outcomes", set())
    fall = res.cov.pop("branch_fallthrough", set())
    per = {}
    broken = {v["case"]["config"] for v in res.violations
              if v["note"] == "process data not in the frame"}
    for name in names:
        if name in broken:
            continue
        rig = get_rig(name)
        br = cond_branches(rig)
        both = [b for b in br
                if any(t[0] == name and t[1] == b for t in taken)
                and (name, b) in fall]
        per[name] = dict(paths_covered=len([p for p in paths
                                            if p[0] == name]),
                         cond_branches=len(br), branches_both_ways=len(both))
        if len(both) != len(br):
            missing = [b for b in br if b not in both]
            raise core.Internal(
                f"alphabet too weak: conditional branches {missing} of "
                f"Motor.program ({name}) were not taken both ways")
    ran = res.cov.pop("matrix_configs_run", set())
    if set(matrix) - ran - broken:
        raise core.Internal("matrix configurations not run: "
                            f"{sorted(set(matrix) - ran - broken)}")
    res.cov["paths_covered"] = len(paths)
    res.cov["path_coverage"] = per
    res.cov["alphabet"] = dict(vmax=len(Vs), acc=len(As), gain=len(Gs),
                               switches_enable=len(sw), configs=names)
    res.cov["matrix"] = dict(configs=len(matrix), vmax=len(mV), acc=len(mA),
                             gain=len(mG), switches_enable=len(msw),
                             names=matrix)
    res.sample(dict(config=names[0], gain=1, target=40000, position=0,
                    acc=40000, vmax=1000, prev=0, low=0, high=0))
    res.sample(dict(config=matrix[-1], note="two Motors, one per channel of "
                    "an EL7332, encoders on the two channels of an EL5042, "
                    "an EL4104 before and an EK1814 behind"))
    res.assumptions += [
        "inputs are bit-vectors read in the formats the code declares: "
        "target, gain, acceleration limit, velocity limit are DeviceVar 'I' "
        "(unsigned 32 bit), the position is the encoder variable's format "
        "('i' step counter of the EL7041 / 'q' position of an EL5042 "
        "channel), the previous velocity is the 16-bit 'h' output as found "
        "in the frame; desired = gain * (target - position) over the "
        "integers, required to fit a signed 64-bit value",
        "preconditions: 0 <= velocity limit <= 32767, |previous velocity| <= "
        "velocity limit; cases outside are run and counted only",
        "'except to stop' = the commanded velocity is 0",
        "'the bundled motor terminal's 16-bit velocity output': the terminal "
        "classes of ebpfcat/terminals.py whose velocity is declared 'h' - "
        "EL7041 and the two channels of the EL7332; the EL7062 (32-bit 'i' "
        "velocity) is outside the statement's quantifier and not run",
        "a terminal's process data are where the terminal takes them from: "
        "the data of the FPRD / FPWR datagram addressed to its position and "
        "sync manager address (use_fmmu False), or the logical datagram's "
        "bytes at the logical address its FMMU is given (fmmu_maps); a PDO "
        "entry is at the byte/bit the terminal's PDO table says, with the "
        "object index of the Motor's channel computed by the harness "
        "(0x10 per channel); which digital input is the low / high switch "
        "is the terminal class's documented choice (EL7041: 0xd / 0xc, "
        "EL7332: 0xc / 0xd)",
        "'writes the desired velocity' includes: into the velocity word of "
        "the channel the Motor is linked to and nowhere else in the output "
        "data of the frame - every other output byte (other channel, other "
        "terminals, unused bits) must be unchanged; the enable bit of the "
        "Motor's channel may change and its value is not judged; changes "
        "of input data and padding are counted only",
        "the other terminals of a group (EL4104 before, EK1814 behind) are "
        "linked to devices that only read (AnalogInput, DigitalInput), so "
        "the group program has no business writing their outputs",
    ]
    return res


def replay(ctx, rep):
    c = rep["case"]
    res = core.Result()
    rig = _rig_or_report(c["config"], res)
    if rig is None:
        return res.violations
    if "vectors" in c:
        vecs = [tuple(v) for v in c["vectors"]]
    else:       # reports written before the configuration matrix existed
        vecs = [(c["gain"], c["target"], c["position"], c["acc"], c["vmax"],
                 c["prev"], c["low"], c["high"], c["enable"])]
    judge(rig, vecs, res, kernel_check=rig.rrig is not None)
    outs = rig.run(vecs)[0]
    for n, (vec, out) in enumerate(zip(vecs, outs)):
        print(f"  config={c['config']} motor {n} (channel "
              f"{rig.spec['channels'][n]}) desired="
              f"{vec[0] * (vec[1] - vec[2])} law={law(*vec[:8])} "
              f"program={out}")
    return res.violations
