#!/venv/bin/python
"""Regenerate /verif/MANIFEST.json from the table below (and validate it)."""
import json
import os
import sys

HERE = os.path.dirname(os.path.dirname(os.path.abspath(__file__)))

# id: (engine, category, technique, level text, level note, design ref)
CHECKS = {}


def check(pid, engine, technique, text, note, ref=None, category="model_checking"):
    CHECKS[pid] = dict(engine=engine, technique=technique, text=text, note=note,
                       ref=ref or f"DESIGN.md section 4, {pid}",
                       category=category)


ADDED = {}       # id -> coverage added after the first version of a check
exec(open(os.path.join(HERE, "tools", "manifest_table.py")).read())
for _pid, _txt in ADDED.items():
    CHECKS[_pid]["text"] += " Added later: " + _txt

ENGINES = [
    dict(name="explore", path="mc/explore.py",
         kind_free_text="deviation-bounded stateless DFS over choice sequences "
                        "and explicit-state BFS with exact dedup (hand-written)"),
    dict(name="vloop", path="mc/vloop.py",
         kind_free_text="virtual asyncio event loop: FIFO callbacks kept, "
                        "external events (frame delivery, cancellation, "
                        "submission) chosen by the explorer"),
    dict(name="bpfvm", path="mc/bpfvm.py",
         kind_free_text="independent eBPF interpreter with typed memory "
                        "regions and traps; simulated bpf() syscall; "
                        "differential runs against the real kernel"),
    dict(name="bussim", path="mc/bussim.py",
         kind_free_text="EtherCAT bus / ESC register / mailbox / CoE / SII "
                        "model written from ETG.1000, independent frame "
                        "parser mc/ecparse.py"),
    dict(name="simos", path="mc/simos.py",
         kind_free_text="simulated POSIX file system + lockf + bpf object "
                        "namespace; participants on threads under a baton "
                        "scheduler"),
]


def main():
    all_ids = [json.loads(l)["id"] for l in
               open(os.path.join(HERE, "properties.jsonl"))]
    checks = []
    for pid in all_ids:
        c = CHECKS.get(pid)
        if c is None:
            continue
        checks.append(dict(
            property_id=pid,
            quick_cmd=f"./check {pid} --tier quick",
            thorough_cmd=f"./check {pid} --tier thorough",
            evidence_file=f"/verif/evidence/{pid}.json",
            replay_cmd_template=f"./check {pid} --replay {{path}}",
            engine=c["engine"],
            level_claimed=dict(category=c["category"], text=c["text"],
                               design_ref=c["ref"]),
            level_note=c["note"],
            technique=c["technique"]))
    served = {}
    for pid, c in CHECKS.items():
        for e in c["engine"].split("+"):
            served.setdefault(e.strip(), []).append(pid)
    engines = []
    for e in ENGINES:
        if os.path.exists(os.path.join(HERE, e["path"])):
            engines.append(dict(e, serves_properties=sorted(
                served.get(e["name"], []))))
    na = [dict(property_id=pid, reason=NOT_APPLICABLE.get(
              pid, "no check built yet in this tree; planned in DESIGN.md "
                   "section 4 (not claimed until the check exists and is "
                   "silent on the unchanged tree)"))
          for pid in all_ids if pid not in CHECKS]
    manifest = dict(
        version=1,
        setup_cmd="/venv/bin/python tools/setup_check.py",
        hooks=dict(
            guard="EBPFCAT_VERIF",
            enable="no source hooks: every seam is a module-level name of "
                   "ebpfcat rebound by the harness at run time; the checks "
                   "import ebpfcat from /repo's working tree in a fresh "
                   "interpreter (EBPFCAT_SRC overrides the directory for "
                   "mutation self-tests)",
            baseline_off_cmd="cd /repo && /venv/bin/python -m pytest -ra -q "
                             "-p no:cacheprovider --timeout=900 "
                             "--continue-on-collection-errors",
            source_commits=HOOK_COMMITS,
            add_only=True),
        engines=engines,
        checks=checks,
        notes=NOTES,
        not_applicable=na)
    path = os.path.join(HERE, "MANIFEST.json")
    with open(path, "w") as f:
        json.dump(manifest, f, indent=1)
        f.write("\n")
    try:
        import jsonschema
        schema = json.load(open("/root/.vp/MANIFEST.schema.json"))
        jsonschema.validate(manifest, schema)
        print("MANIFEST.json valid;", len(checks), "checks,", len(na),
              "not applicable")
    except ImportError:
        print("MANIFEST.json written (jsonschema not available here);",
              len(checks), "checks")


if __name__ == "__main__":
    main()
