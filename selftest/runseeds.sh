#!/bin/bash
# usage: runseeds.sh C11 C12 ...
for p in "$@"; do for n in 1 2; do
  d=/tmp/seed/$p/seed$n
  [ -f $d/patch.diff ] || continue
  timeout 1500 /verif/selftest/seedcheck.py $d --install $p-$n > /tmp/sc-$p-$n.json 2>&1
  /venv/bin/python - /tmp/sc-$p-$n.json <<'PY'
import sys,json,re
txt=open(sys.argv[1]).read()
m=re.search(r'\{\n.*\n\}', txt, re.S)
try:
    d=json.loads(m.group(0)); print(d['seed'], 'confirmed', d['confirmed'], 'tests', d['tests_after'], 'demo', d['demo_before'], d['demo_after'], 'caught_by', d['caught_by'], {k:(v['exit'],v['notes']) for k,v in d['checks'].items()})
except Exception as e:
    print(sys.argv[1], 'PARSE-ERROR', txt[-400:])
PY
done; done
