"""C20 - a terminal's FMMUs are never shared by two live mappings.

Explicit-state search over sequences of map-read / map-write / unmap
operations, each executed through the real Terminal.map_fmmu context manager
(__aenter__/__aexit__) over the roundtrip stack against the ESC model.  A state
is its operation history (rebuilt by replay); dedup on (slot table, live
mappings, FMMU registers of the model).
"""
import asyncio
import struct

from mc import bussim, core, vloop

from ebpfcat.ethercat import EtherCat, Terminal

PROP = "C20"
LEVEL = "model_checking"
RULE = ("all sequences of map(read) / map(write) / unmap(i-th live mapping) "
        "up to the length bound on terminals with 1..4 FMMUs, at most one "
        "operation per sequence with an injected bus fault (its first FMMU "
        "register write is not processed); non-trivial = "
        "at least two mappings were live at some point; distinct = distinct "
        "canonical state (FMMU registers, live set)")
KF = "C20-write-slot-formula"


class World:
    def __init__(self, n_fmmu):
        self.loop = vloop.VLoop()
        self.loop.__enter__()
        self.t = bussim.Terminal("t", station=77, n_fmmu=n_fmmu)
        self.m = bussim.Master(bussim.Bus([self.t]), lambda: EtherCat("sim"),
                               self.loop)
        term = self.term = Terminal(self.m.ec)
        term.position = 77
        term.fmmu_used = [None] * n_fmmu
        term.pdo_in_off, term.pdo_in_sz = 0x1100, 4
        term.pdo_out_off, term.pdo_out_sz = 0x1000, 6
        self.live = []      # (logical, write, cm, slot)
        self.counter = 0
        self.everlive = 0
        self.faults = 0
        self.fail_next = False
        orig = self.t.write

        def write(ado, data):
            # injected bus fault: the next write to an FMMU register is not
            # processed by the terminal (working counter stays 0)
            if self.fail_next and 0x600 <= ado < 0x700:
                self.fail_next = False
                return False
            return orig(ado, data)
        self.t.write = write

    def close(self):
        self.loop.shutdown()
        self.loop.__exit__(None, None, None)

    def do(self, op):
        """-> (kind, detail)"""
        if len(op) > 2 and op[2]:
            self.fail_next = True
            self.faults += 1
        try:
            return self._do(op)
        finally:
            self.fail_next = False

    def _do(self, op):
        if op[0] == "map":
            self.counter += 1
            logical = 0x10000 * self.counter + 0x100
            cm = self.term.map_fmmu(logical, op[1])
            fut = asyncio.ensure_future(cm.__aenter__())
            if not self.m.run(fut, max_frames=50):
                return ("hang", None)
            if fut.exception() is not None:
                return ("failed", type(fut.exception()).__name__)
            slot = fut.result()
            self.live.append((logical, op[1], cm, slot))
            self.everlive = max(self.everlive, len(self.live))
            return ("mapped", slot)
        logical, write, cm, slot = self.live.pop(op[1])
        fut = asyncio.ensure_future(cm.__aexit__(None, None, None))
        if not self.m.run(fut, max_frames=50):
            return ("hang", None)
        if fut.exception() is not None:
            return ("unmap raised", type(fut.exception()).__name__)
        return ("unmapped", slot)

    def fmmu_regs(self):
        out = []
        for i in range(self.t.n_fmmu):
            lstart, length, _, _, pstart, _, typ, act = struct.unpack_from(
                "<IHBBHBBB", self.t.mem, 0x600 + 16 * i)
            out.append((lstart, length, pstart, typ, act & 1))
        return tuple(out)

    def check(self):
        """the invariant; returns None or (expected, observed, what, kf)"""
        regs = self.fmmu_regs()
        slots = {}
        for logical, write, cm, slot in self.live:
            off, size = (0x1000, 6) if write else (0x1100, 4)
            hit = [i for i, r in enumerate(regs)
                   if r == (logical, size, off, 2 if write else 1, 1)]
            if len(hit) != 1:
                # which live mapping destroyed it?
                kf = None
                others = [l for l in self.live if l[0] != logical]
                if any(l[1] for l in self.live):
                    kf = KF     # a write mapping is involved
                return ("live mapping %#x programmed in exactly one active "
                        "FMMU" % logical, dict(regs=regs, hit=hit),
                        "a live mapping lost its FMMU", kf)
            slots[logical] = hit[0]
        if len(set(slots.values())) != len(slots):
            return ("distinct FMMUs", slots, "two live mappings share an FMMU",
                    None)
        # the master's slot table: live mappings hold exactly their slots,
        # everything else is free (an ended mapping frees its own FMMU even
        # if the switch-off datagram was not processed)
        table = list(self.term.fmmu_used)
        want = [None] * len(table)
        for logical, write, cm, slot in self.live:
            want[slots[logical]] = logical
        if table != want:
            return (want, table, "slot table: an ended mapping still holds "
                    "its FMMU / a live one lost it", None)
        active = [i for i, r in enumerate(regs) if r[4]]
        if self.faults == 0 and sorted(active) != sorted(slots.values()):
            return ("only live mappings active: %s" % sorted(slots.values()),
                    active, "an ended mapping's FMMU is still active / a "
                    "foreign one was switched off", KF if any(
                        l[1] for l in self.live) else None)
        return None

    def canon(self):
        return (self.fmmu_regs(),
                tuple((l[1], l[3]) for l in self.live),
                tuple(self.term.fmmu_used), self.faults)


def build(n_fmmu, hist):
    w = World(n_fmmu)
    results = []
    for op in hist:
        results.append(w.do(op))
    return w, results


def work(n_fmmu, res):
    depth = work.depth
    seen = set()
    frontier = [()]
    w, _ = build(n_fmmu, ())
    seen.add(w.canon())
    w.close()
    while frontier:
        nxt = []
        for hist in frontier:
            w, _ = build(n_fmmu, hist)
            nlive = len(w.live)
            w.close()
            ops = [("map", False), ("map", True)] + \
                [("unmap", j) for j in range(nlive)]
            if sum(1 for o in hist if len(o) > 2) < work.faults:
                ops += [("map", False, True), ("map", True, True)] + \
                    [("unmap", j, True) for j in range(nlive)]
            for op in ops:
                h2 = hist + (op,)
                w, results = build(n_fmmu, h2)
                res.count("evaluations")
                res.count("transitions")
                kind, detail = results[-1]
                res.outcomes.add((kind, len(w.live)))
                case = dict(n_fmmu=n_fmmu, hist=h2)
                bad = None
                faulted = len(op) > 2
                if kind == "hang" or (kind == "unmap raised"
                                      and not faulted):
                    bad = ("operation completes", (kind, detail),
                           "map/unmap did not complete", None)
                elif kind == "unmap raised":
                    bad = w.check()
                elif kind == "mapped":
                    # reference: a mapping succeeds only onto a free FMMU
                    bad = w.check()
                elif kind == "failed":
                    # failing is always allowed by the statement; the
                    # failed attempt must leave the others intact
                    bad = w.check()
                    if bad is None and detail not in ("ValueError",
                                                      "EtherCatError"):
                        pass
                else:
                    bad = w.check()
                k = w.canon()
                ever = w.everlive
                w.close()
                if bad is not None:
                    exp, obs, what, kf = bad
                    res.violation(case, exp, obs, kf=kf,
                                  sig=core.digest([what, str(kf)]), note=what)
                    continue
                if k in seen:
                    continue
                seen.add(k)
                if ever >= 2:
                    res.nontrivial.add(core.digest([n_fmmu, k]))
                if len(h2) < depth:
                    nxt.append(h2)
        frontier = nxt
    res.count("states", len(seen))


def run(ctx):
    work.depth = 5 if ctx.quick else 7
    work.faults = 1 if ctx.quick else 2
    res = core.pmap(ctx, work, [1, 2, 3, 4], chunk=1)
    res.cov["traces_validated_against_impl"] = res.cov.get("evaluations", 0)
    res.cov["depth"] = work.depth
    res.sample(dict(n_fmmu=3, hist=[["map", True], ["map", True],
                                    ["unmap", 0], ["map", False]]))
    res.assumptions += [
        "a mapping attempt may fail for any reason (the statement only "
        "forbids reusing an FMMU); a failed attempt must not disturb live "
        "mappings",
        "observed through the FMMU registers of the terminal model: a live "
        "mapping must stay programmed (logical start, length, physical "
        "start, type, active) in exactly one FMMU, and only live mappings "
        "may be active"]
    return res


def replay(ctx, rep):
    res = core.Result()
    c = rep["case"]
    hist = tuple(tuple(op) for op in c["hist"])
    w, results = build(c["n_fmmu"], hist)
    for op, r in zip(hist, results):
        print("  ", op, "->", r)
    print("regs", w.fmmu_regs(), "table", w.term.fmmu_used)
    bad = w.check()
    w.close()
    if bad:
        res.violation(c, bad[0], bad[1], kf=bad[3], note=bad[2])
    return res.violations
