#!/bin/bash
# usage: [SEEDBASE=/tmp/seed] [OFFSET=0] runseeds.sh C11 C12 ...
# confirms every seed found under $SEEDBASE/<prop>/seed{1,2}, runs the
# property's quick check against it and installs it as /verif/seeded/<prop>-<n+OFFSET>
BASE=${SEEDBASE:-/tmp/seed}
OFF=${OFFSET:-0}
for p in "$@"; do for n in 1 2; do
  d=$BASE/$p/seed$n
  [ -f $d/patch.diff ] || continue
  k=$((n+OFF))
  timeout 2400 /verif/selftest/seedcheck.py $d --install $p-$k > /tmp/sc-$p-$k.json 2>&1
  /venv/bin/python - /tmp/sc-$p-$k.json <<'PY'
import sys,json,re
txt=open(sys.argv[1]).read()
m=re.search(r'\{\n.*\n\}', txt, re.S)
try:
    d=json.loads(m.group(0)); print(d['seed'], 'confirmed', d['confirmed'], 'tests', d['tests_after'], 'demo', d['demo_before'], d['demo_after'], 'caught_by', d['caught_by'], {k:(v['exit'],v['notes']) for k,v in d['checks'].items()})
except Exception as e:
    print(sys.argv[1], 'PARSE-ERROR', txt[-400:])
PY
done; done
