"""Explorers.

1. Stateless deviation-bounded DFS over choice sequences (CHESS-style iterative
   context bounding, "preemption" generalised to "deviation from the default
   environment answer").  A harness is `run(chooser) -> observation`; it calls
   `chooser.choose(n, kind, costs)` at every choice point.  Choice 0 is the
   default (cost 0); alternative i costs costs[i] (default 1).

2. Explicit-state BFS with exact dedup for plain-data states.
"""
import collections

from .core import Internal


class Diverged(Internal):
    pass


class Chooser:
    def __init__(self, prefix=()):
        self.prefix = tuple(prefix)
        self.trace = []     # (kind, n, chosen, costs)

    def choose(self, n, kind="", costs=None):
        if n <= 0:
            raise Internal(f"choice point '{kind}' without options")
        i = len(self.trace)
        if i < len(self.prefix):
            c = self.prefix[i]
            if c >= n:
                raise Diverged(f"replay divergence at point {i} ({kind}): "
                               f"choice {c} of {n}")
        else:
            c = 0
        self.trace.append((kind, n, c, costs))
        return c

    @property
    def choices(self):
        return tuple(t[2] for t in self.trace)

    def cost(self, upto=None):
        total = 0
        for kind, n, c, costs in self.trace[:upto]:
            if c:
                total += costs[c] if costs else 1
        return total

    def describe(self):
        return [(k, c) for k, n, c, _ in self.trace if c]


def children(ch, bound, start):
    """prefixes that deviate once more, at a point >= start"""
    out = []
    used = 0
    for i, (kind, n, c, costs) in enumerate(ch.trace):
        if i >= start:
            for alt in range(1, n):
                ac = costs[alt] if costs else 1
                if used + ac <= bound:
                    out.append(ch.choices[:i] + (alt,))
        if c:
            used += costs[c] if costs else 1
    return out


def dfs(run, bound, on_exec, root=(), max_execs=None):
    """explore every execution whose deviations cost <= bound, below `root`.
    on_exec(chooser, observation).  Returns (#executions, capped)."""
    stack = [tuple(root)]
    n = 0
    while stack:
        prefix = stack.pop()
        ch = Chooser(prefix)
        obs = run(ch)
        if len(ch.trace) < len(prefix):
            raise Diverged(f"execution ended after {len(ch.trace)} choice "
                           f"points, prefix has {len(prefix)}")
        n += 1
        on_exec(ch, obs)
        if max_execs is not None and n >= max_execs:
            return n, True
        stack.extend(reversed(children(ch, bound, len(prefix))))
    return n, False


def frontier(run, bound, want, on_exec):
    """breadth-first expansion until at least `want` unexplored prefixes exist;
    returns the list of prefixes whose subtrees remain (each to be passed to
    dfs(root=prefix)); on_exec is called for the executions done here."""
    queue = collections.deque([()])
    while queue and len(queue) < want:
        prefix = queue.popleft()
        ch = Chooser(prefix)
        obs = run(ch)
        on_exec(ch, obs)
        queue.extend(children(ch, bound, len(prefix)))
    return list(queue)


def bfs(init, enabled, step, canon, invariant, max_states=None):
    """explicit-state search.  step(state, ev) -> new state (must not mutate).
    invariant(state, path) is called on every new state.
    -> (states, transitions, capped)"""
    seen = {canon(init): None}
    queue = collections.deque([(init, ())])
    transitions = 0
    invariant(init, ())
    while queue:
        s, path = queue.popleft()
        for ev in enabled(s):
            t = step(s, ev)
            transitions += 1
            k = canon(t)
            if k in seen:
                continue
            seen[k] = None
            p = path + (ev,)
            invariant(t, p)
            if max_states is not None and len(seen) >= max_states:
                return len(seen), transitions, True
            queue.append((t, p))
    return len(seen), transitions, False
